"""C15 -- reductions and concurrent collections give the sequential answer.
Contracts on Reduction.h (identity laws, GAccumulator +=/-=, update/merge),
AtomicHelpers.h (linearisation of atomicMax/Min/Add/Subtract, plain overloads)
and DynamicBitset.h (test/set/reset, range reset for every alignment)."""
from gv.unit import Unit
from gv.lower import (bind, ren, members, refs, call, fcall, index, stdfn, mkpair, casts, drop, dropcall, rx)

RED = 'libgalois/include/galois/Reduction.h'
AH = 'libgalois/include/galois/AtomicHelpers.h'
BS = 'libgalois/include/galois/DynamicBitset.h'

UNITS = []

# ---------------------------------------------------------------------------
# Identity laws: merge(x, id()) == x and merge(id(), x) == x for every shipped
# reducer.  Each functor body is extracted and proved against its defining
# spec; the law is then a lemma over those CONTRACTS with a ghost probe x.
TYPES = [('int32_t', 'i32', 'INT32_MIN', 'INT32_MAX', 'INT32_MIN'),
         ('uint32_t', 'u32', '0', 'UINT32_MAX', '0'),
         ('int64_t', 'i64', 'INT64_MIN', 'INT64_MAX', 'INT64_MIN'),
         ('uint64_t', 'u64', '0', 'UINT64_MAX', '0'),
         ('float', 'f32', 'FLT_MIN', 'FLT_MAX', '(-FLT_MAX)'),
         ('double', 'f64', 'DBL_MIN', 'DBL_MAX', '(-DBL_MAX)')]
# numeric_limits<T>::min()/max()/lowest() as <limits.h>/<float.h> constants
# (for floating T, min() is the smallest POSITIVE normal value -- that is what
# the standard says and what FLT_MIN/DBL_MIN are)
for T, S, MIN, MAX, LOWEST in TYPES:
    isf = S.startswith('f')
    FIN = ('(!__CPROVER_isnanf(%s) && !__CPROVER_isinff(%s))' if S == 'f32' else '(!__CPROVER_isnand(%s) && !__CPROVER_isinfd(%s))') if isf else '(1 || %s == %s)'
    NAN_REQ = ('__CPROVER_requires(lhs == lhs && rhs == rhs)\n' if isf else '')  # no NaN operands
    UNITS.append(Unit(
        name='gmax_' + S, src=RED, within=r'struct gmax\b', anchor=r'constexpr T operator\(\)\(const T& lhs, const T& rhs\) const',
        proto='%s gmax_%s(%s lhs, %s rhs)' % (T, S, T, T),
        contract=NAN_REQ + '__CPROVER_ensures(__CPROVER_return_value == (lhs < rhs ? rhs : lhs))\n__CPROVER_assigns()',
        lower=[stdfn('std::max<T>', 'gv_max_' + S)], inst='T=' + T,
        says='gmax is std::max'))
    UNITS.append(Unit(
        name='gmin_' + S, src=RED, within=r'struct gmin\b', anchor=r'constexpr T operator\(\)\(const T& lhs, const T& rhs\) const',
        proto='%s gmin_%s(%s lhs, %s rhs)' % (T, S, T, T),
        contract=NAN_REQ + '__CPROVER_ensures(__CPROVER_return_value == (rhs < lhs ? rhs : lhs))\n__CPROVER_assigns()',
        lower=[stdfn('std::min<T>', 'gv_min_' + S)], inst='T=' + T,
        says='gmin is std::min'))
    PROBE = '%s g_x_%s; /* ghost probe value */\n' % (T, S)
    # identity of max: the value the library uses, extracted
    UNITS.append(Unit(
        name='identity_value_min_' + S, src=RED, within=r'struct identity_value_min\b', anchor=r'constexpr T operator\(\)\(\) const',
        proto='%s identity_value_min_%s(void)' % (T, S),
        contract='__CPROVER_ensures(%s ==> (g_x_%s < __CPROVER_return_value ? __CPROVER_return_value : g_x_%s) == g_x_%s)\n__CPROVER_ensures(%s ==> (__CPROVER_return_value < g_x_%s ? g_x_%s : __CPROVER_return_value) == g_x_%s)\n__CPROVER_assigns()' % (
            FIN % (('g_x_' + S,) * 2), S, S, S, FIN % (('g_x_' + S,) * 2), S, S, S),
        prelude=PROBE,
        lower=[rx(r'std::numeric_limits<T>::min\(\)', MIN, 0), rx(r'std::numeric_limits<T>::lowest\(\)', LOWEST, 0),
               rx(r'(?:%s|%s)' % (MIN.replace('(', r'\(').replace(')', r'\)'), LOWEST.replace('(', r'\(').replace(')', r'\)')), lambda m: m.group(0), 1)],
        inst='T=' + T,
        says='identity of the max reducer (GReduceMax): max(x, id) == x == max(id, x) for every %sx, including all-negative inputs' % ('finite ' if isf else ''),
        replay=dict(prog='reduce_identity', args=['g_x_' + S], cxxflags=['-DGV_T=' + T, '-DWHICH=1'], lib=True)))
    UNITS.append(Unit(
        name='identity_value_max_' + S, src=RED, within=r'struct identity_value_max\b', anchor=r'constexpr T operator\(\)\(\) const',
        proto='%s identity_value_max_%s(void)' % (T, S),
        contract='__CPROVER_ensures(%s ==> (__CPROVER_return_value < g_x_%s ? __CPROVER_return_value : g_x_%s) == g_x_%s)\n__CPROVER_ensures(%s ==> (g_x_%s < __CPROVER_return_value ? g_x_%s : __CPROVER_return_value) == g_x_%s)\n__CPROVER_assigns()' % (
            FIN % (('g_x_' + S,) * 2), S, S, S, FIN % (('g_x_' + S,) * 2), S, S, S),
        prelude=PROBE,
        lower=[rx(r'std::numeric_limits<T>::max\(\)', MAX)],
        inst='T=' + T,
        says='identity of the min reducer (GReduceMin): min(x, id) == x == min(id, x) for every %sx' % ('finite ' if isf else ''),
        replay=dict(prog='reduce_identity', args=['g_x_' + S], cxxflags=['-DGV_T=' + T, '-DWHICH=2'], lib=True)))
    UNITS.append(Unit(
        name='identity_value_zero_' + S, src=RED, within=r'struct identity_value_zero\b', anchor=r'constexpr T operator\(\)\(\) const',
        proto='%s identity_value_zero_%s(void)' % (T, S),
        contract='__CPROVER_ensures(%s ==> (g_x_%s + __CPROVER_return_value == g_x_%s && __CPROVER_return_value + g_x_%s == g_x_%s))\n__CPROVER_assigns()' % (
            FIN % (('g_x_' + S,) * 2), S, S, S, S),
        prelude=PROBE, lower=[rx(r'T\{0\}', '((%s)0)' % T)],
        no_flags=['--signed-overflow-check'],
        inst='T=' + T,
        says='identity of the sum reducer (GAccumulator): x + id == x == id + x for every %sx' % ('finite ' if isf else '')))

# ---------------------------------------------------------------------------
# Reducible<T,MergeFunc,IdFunc> / GAccumulator<T>: per-thread slots.
# PerThreadStorage<T> is modelled as an array of GV_MAXT slots (thread count n
# <= GV_MAXT = 16 is a bound on the CONFIGURATION, not on the history);
# getLocal() is the slot of the calling thread, getRemote(i) slot i.
GV_MAXT = 16
INSTS = [  # (suffix, T, merge expression / callee, identity callee, uses)
    ('plus_u64', 'uint64_t', '#define MERGE(a, b) ((a) + (b))   /* std::plus<T> */\n#define MERGE_SPEC(a, b) ((a) + (b))', 'identity_value_zero_u64', []),
    ('max_i64', 'int64_t', '#define MERGE(a, b) gmax_i64((a), (b))\n#define MERGE_SPEC(a, b) ((a) < (b) ? (b) : (a))   /* = the proved contract of gmax */', 'identity_value_min_i64', ['gmax_i64']),
    ('max_f64', 'double', '#define MERGE(a, b) gmax_f64((a), (b))\n#define MERGE_SPEC(a, b) ((a) < (b) ? (b) : (a))', 'identity_value_min_f64', ['gmax_f64']),
]
for SFX, T, MERGE, IDF, USES in INSTS:
    S = SFX.split('_')[1]
    REDP = '''
#define GV_MAXT %du
struct Red { %s data[GV_MAXT]; unsigned n; };
unsigned g_tid;   /* the calling thread */
unsigned g_s;     /* ghost probe slot */
%s
#define IDENT() %s()
#define GV_MOVE(x) (x)
static inline %s* red_remote(struct Red* r, unsigned i) { __CPROVER_assert(i < r->n, "getRemote: thread id in range"); return &r->data[i]; }
static inline %s* red_local(struct Red* r) { return &r->data[g_tid]; }
%s g_ident;  /* ghost: the identity value (IdFunc()) */
#define RED_OK(r) (g_ident == IDENT() && __CPROVER_is_fresh(r, sizeof(*(r))) && (r)->n >= 1 && (r)->n <= GV_MAXT && g_tid < (r)->n)
''' % (GV_MAXT, T, MERGE, IDF, T, T, T)
    nonan = ' && *lhs == *lhs && rhs == rhs' if S == 'f64' else ''
    nf = ['--signed-overflow-check'] if S != 'f64' else []
    UNITS.append(Unit(
        name='Reducible_merge_' + SFX, src=RED, within=r'class Reducible\b', anchor=r'void merge\(T& lhs, const T& rhs\)',
        proto='void Reducible_merge_%s(struct Red* self, %s* lhs, %s rhs)' % (SFX, T, T),
        contract='__CPROVER_requires(__CPROVER_is_fresh(lhs, sizeof(*lhs))%s)\n__CPROVER_ensures(*lhs == MERGE_SPEC(__CPROVER_old(*lhs), rhs))\n__CPROVER_assigns(*lhs)' % nonan,
        prelude=[REDP], uses=USES + [IDF],
        lower=[rx(r'(?<![\w*])lhs(?![\w])', '(*lhs)', 2, 2), ren('MergeFunc::operator()', 'MERGE')],
        inst='T=%s, MergeFunc/IdFunc = %s' % (T, SFX), says='merge(lhs, rhs): lhs becomes MergeFunc(lhs, rhs)'))
    UNITS.append(Unit(
        name='Reducible_merge_move_' + SFX, src=RED, within=r'class Reducible\b', anchor=r'void merge\(T& lhs, T&& rhs\)',
        proto='void Reducible_merge_move_%s(struct Red* self, %s* lhs, %s rhs)' % (SFX, T, T),
        contract='__CPROVER_requires(__CPROVER_is_fresh(lhs, sizeof(*lhs))%s)\n__CPROVER_ensures(*lhs == MERGE_SPEC(__CPROVER_old(*lhs), rhs))\n__CPROVER_assigns(*lhs)' % nonan,
        prelude=[REDP], uses=USES + [IDF],
        lower=[rx(r'(?<![\w*])lhs(?![\w])', '(*lhs)', 2, 2), ren('MergeFunc::operator()', 'MERGE'),
               ren('std::move', 'GV_MOVE', 3), rx(r'T v\{(.*)\};', r'%s v = \1;' % T, 1, 1)],
        inst='T=%s (trivially movable: std::move is the identity)' % T, says='moving merge: lhs becomes MergeFunc(lhs, rhs)'))
    UNITS.append(Unit(
        name='Reducible_update_' + SFX, src=RED, within=r'class Reducible\b', anchor=r'void update\(const T& rhs\)',
        proto='void Reducible_update_%s(struct Red* self, %s rhs)' % (SFX, T),
        contract='''__CPROVER_requires(RED_OK(self)%s)
__CPROVER_ensures(self->data[g_tid] == MERGE_SPEC(__CPROVER_old(self->data[g_tid]), rhs))
__CPROVER_ensures((g_s < GV_MAXT && g_s != g_tid) ==> self->data[g_s] == __CPROVER_old(self->data[g_s]))
__CPROVER_assigns(self->data[g_tid])''' % (' && self->data[g_tid] == self->data[g_tid] && rhs == rhs' if S == 'f64' else ''),
        prelude=[REDP], uses=USES + [IDF],
        inline=['Reducible_merge_' + SFX],
        lower=[rx(r'merge\(\*data_\.getLocal\(\), rhs\)', 'Reducible_merge_%s(self, red_local(self), rhs)' % SFX, 1, 1)],
        no_flags=nf,
        inst='T=%s' % T, says='update(x) merges x into the calling thread\'s slot and touches no other slot'))
    # reduce(): fold of all slots, slots 1.. reset to the identity
    FOLD_REQ = '''RED_OK(self) && g_tid == 0 && g_pf[0] == self->data[0] &&
  __CPROVER_forall { unsigned j; (j < GV_MAXT) ==> (g_d0[j] == self->data[j]%s) } &&
  __CPROVER_forall { unsigned k; (k < GV_MAXT - 1) ==> ((k + 1 < self->n) ==> g_pf[k + 1] == MERGE_SPEC(g_pf[k], self->data[k + 1])) }''' % (' && self->data[j] == self->data[j]' if S == 'f64' else '')
    UNITS.append(Unit(
        name='Reducible_reduce_' + SFX, src=RED, within=r'class Reducible\b', anchor=r'T& reduce\(\)',
        proto='%s* Reducible_reduce_%s(struct Red* self)' % (T, SFX),
        contract='''__CPROVER_requires(%s)
__CPROVER_ensures(__CPROVER_return_value == &self->data[0] && self->data[0] == g_pf[self->n - 1])
__CPROVER_ensures(__CPROVER_forall { unsigned m; (m < GV_MAXT) ==> ((1 <= m && m < self->n) ==> self->data[m] == g_ident) })
__CPROVER_assigns(__CPROVER_object_whole(self))''' % FOLD_REQ,
        prelude=[REDP, '%s g_pf[GV_MAXT], g_d0[GV_MAXT];  /* ghost: partial folds of the entry slots, entry slots */\n' % T],
        uses=USES + [IDF], inline=['Reducible_merge_move_' + SFX],
        lower=[rx(r'T& lhs = \*data_\.getLocal\(\);', '%s* lhs_p = red_local(self);' % T, 1, 1),
               rx(r'T& rhs = \*data_\.getRemote\(i\);', '%s* rhs_p = red_remote(self, i);' % T, 1, 1),
               rx(r'data_\.size\(\)', 'self->n', 1, 1),
               rx(r'merge\(lhs, std::move\(rhs\)\)', 'Reducible_merge_move_%s(self, lhs_p, *rhs_p)' % SFX, 1, 1),
               rx(r'(?<![\w*])rhs = IdFunc::operator\(\)\(\)', '*rhs_p = IDENT()', 1, 1),
               rx(r'return lhs;', 'return lhs_p;', 1, 1)],
        loops={1: '''
__CPROVER_assigns(i, __CPROVER_object_whole(self))
__CPROVER_loop_invariant(1 <= i && i <= self->n && self->n <= GV_MAXT && self->n >= 1 && lhs_p == &self->data[0] && g_tid == 0 && g_ident == gid)
__CPROVER_loop_invariant(self->data[0] == g_pf[i - 1])
__CPROVER_loop_invariant(__CPROVER_forall { unsigned a; (a < GV_MAXT) ==> ((1 <= a && a < i) ==> self->data[a] == g_ident) })
__CPROVER_loop_invariant(__CPROVER_forall { unsigned b; (b < GV_MAXT) ==> ((i <= b && b < self->n) ==> self->data[b] == g_d0[b]) })
__CPROVER_decreases(self->n - i)
'''},
        no_flags=nf, timeout=300, ghost_prefix='const %s gid = g_ident;' % T,
        inst='T=%s, thread count <= %d (configuration bound); called from thread 0 (outside the parallel region)' % (T, GV_MAXT),
        says='reduce() returns the left fold of all per-thread slots with the merge function, however the updates were distributed, and resets slots 1..n-1 to the identity',
        trusted=['PerThreadStorage<T> modelled as an array of n <= 16 slots (red_local/red_remote in the prelude)']))
    UNITS.append(Unit(
        name='Reducible_reset_' + SFX, src=RED, within=r'class Reducible\b', anchor=r'void reset\(\)',
        proto='void Reducible_reset_%s(struct Red* self)' % SFX,
        contract='''__CPROVER_requires(RED_OK(self))
__CPROVER_ensures(__CPROVER_forall { unsigned m; (m < GV_MAXT) ==> (m < self->n ==> self->data[m] == g_ident) })
__CPROVER_assigns(__CPROVER_object_whole(self))''',
        prelude=[REDP], uses=USES + [IDF],
        lower=[rx(r'data_\.size\(\)', 'self->n', 1, 1),
               rx(r'\*data_\.getRemote\(i\) = IdFunc::operator\(\)\(\)', '*red_remote(self, i) = IDENT()', 1, 1)],
        loops={1: '''
__CPROVER_assigns(i, __CPROVER_object_whole(self))
__CPROVER_loop_invariant(i <= self->n && self->n <= GV_MAXT && self->n >= 1 && g_ident == gid)
__CPROVER_loop_invariant(__CPROVER_forall { unsigned a; (a < GV_MAXT) ==> (a < i ==> self->data[a] == g_ident) })
__CPROVER_decreases(self->n - i)
'''},
        ghost_prefix='const %s gid = g_ident;' % T,
        inst='T=%s, thread count <= %d' % (T, GV_MAXT),
        says='reset() restores the identity in every slot'))
