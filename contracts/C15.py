"""C15 -- reductions and concurrent collections give the sequential answer.
Contracts on Reduction.h (identity laws, GAccumulator +=/-=, update/merge),
AtomicHelpers.h (linearisation of atomicMax/Min/Add/Subtract, plain overloads)
and DynamicBitset.h (test/set/reset, range reset for every alignment)."""
from gv.unit import Unit
from gv.lower import (bind, ren, members, refs, call, fcall, index, stdfn, mkpair, casts, drop, dropcall, rx)

RED = 'libgalois/include/galois/Reduction.h'
AH = 'libgalois/include/galois/AtomicHelpers.h'
BS = 'libgalois/include/galois/DynamicBitset.h'

UNITS = []

# ---------------------------------------------------------------------------
# Identity laws: merge(x, id()) == x and merge(id(), x) == x for every shipped
# reducer.  Each functor body is extracted and proved against its defining
# spec; the law is then a lemma over those CONTRACTS with a ghost probe x.
TYPES = [('int32_t', 'i32', 'INT32_MIN', 'INT32_MAX', 'INT32_MIN'),
         ('uint32_t', 'u32', '0', 'UINT32_MAX', '0'),
         ('int64_t', 'i64', 'INT64_MIN', 'INT64_MAX', 'INT64_MIN'),
         ('uint64_t', 'u64', '0', 'UINT64_MAX', '0'),
         ('float', 'f32', 'FLT_MIN', 'FLT_MAX', '(-FLT_MAX)'),
         ('double', 'f64', 'DBL_MIN', 'DBL_MAX', '(-DBL_MAX)')]
# numeric_limits<T>::min()/max()/lowest() as <limits.h>/<float.h> constants
# (for floating T, min() is the smallest POSITIVE normal value -- that is what
# the standard says and what FLT_MIN/DBL_MIN are)
for T, S, MIN, MAX, LOWEST in TYPES:
    isf = S.startswith('f')
    FIN = ('(!__CPROVER_isnanf(%s) && !__CPROVER_isinff(%s))' if S == 'f32' else '(!__CPROVER_isnand(%s) && !__CPROVER_isinfd(%s))') if isf else '(1 || %s == %s)'
    NAN_REQ = ('__CPROVER_requires(lhs == lhs && rhs == rhs)\n' if isf else '')  # no NaN operands
    UNITS.append(Unit(
        name='gmax_' + S, src=RED, within=r'struct gmax\b', anchor=r'constexpr T operator\(\)\(const T& lhs, const T& rhs\) const',
        proto='%s gmax_%s(%s lhs, %s rhs)' % (T, S, T, T),
        contract=NAN_REQ + '__CPROVER_ensures(__CPROVER_return_value == (lhs < rhs ? rhs : lhs))\n__CPROVER_assigns()',
        lower=[stdfn('std::max<T>', 'gv_max_' + S)], inst='T=' + T,
        says='gmax is std::max'))
    UNITS.append(Unit(
        name='gmin_' + S, src=RED, within=r'struct gmin\b', anchor=r'constexpr T operator\(\)\(const T& lhs, const T& rhs\) const',
        proto='%s gmin_%s(%s lhs, %s rhs)' % (T, S, T, T),
        contract=NAN_REQ + '__CPROVER_ensures(__CPROVER_return_value == (rhs < lhs ? rhs : lhs))\n__CPROVER_assigns()',
        lower=[stdfn('std::min<T>', 'gv_min_' + S)], inst='T=' + T,
        says='gmin is std::min'))
    PROBE = '%s g_x_%s; /* ghost probe value */\n' % (T, S)
    # identity of max: the value the library uses, extracted
    UNITS.append(Unit(
        name='identity_value_min_' + S, src=RED, within=r'struct identity_value_min\b', anchor=r'constexpr T operator\(\)\(\) const',
        proto='%s identity_value_min_%s(void)' % (T, S),
        contract='__CPROVER_ensures(%s ==> (g_x_%s < __CPROVER_return_value ? __CPROVER_return_value : g_x_%s) == g_x_%s)\n__CPROVER_ensures(%s ==> (__CPROVER_return_value < g_x_%s ? g_x_%s : __CPROVER_return_value) == g_x_%s)\n__CPROVER_assigns()' % (
            FIN % (('g_x_' + S,) * 2), S, S, S, FIN % (('g_x_' + S,) * 2), S, S, S),
        prelude=PROBE,
        lower=[rx(r'std::numeric_limits<T>::min\(\)', MIN, 0), rx(r'std::numeric_limits<T>::lowest\(\)', LOWEST, 0),
               rx(r'(?:%s|%s)' % (MIN.replace('(', r'\(').replace(')', r'\)'), LOWEST.replace('(', r'\(').replace(')', r'\)')), lambda m: m.group(0), 1)],
        inst='T=' + T,
        says='identity of the max reducer (GReduceMax): max(x, id) == x == max(id, x) for every %sx, including all-negative inputs' % ('finite ' if isf else ''),
        replay=dict(prog='reduce_identity', args=['g_x_' + S], cxxflags=['-DGV_T=' + T, '-DWHICH=1'], lib=True)))
    UNITS.append(Unit(
        name='identity_value_max_' + S, src=RED, within=r'struct identity_value_max\b', anchor=r'constexpr T operator\(\)\(\) const',
        proto='%s identity_value_max_%s(void)' % (T, S),
        contract='__CPROVER_ensures(%s ==> (__CPROVER_return_value < g_x_%s ? __CPROVER_return_value : g_x_%s) == g_x_%s)\n__CPROVER_ensures(%s ==> (g_x_%s < __CPROVER_return_value ? g_x_%s : __CPROVER_return_value) == g_x_%s)\n__CPROVER_assigns()' % (
            FIN % (('g_x_' + S,) * 2), S, S, S, FIN % (('g_x_' + S,) * 2), S, S, S),
        prelude=PROBE,
        lower=[rx(r'std::numeric_limits<T>::max\(\)', MAX)],
        inst='T=' + T,
        says='identity of the min reducer (GReduceMin): min(x, id) == x == min(id, x) for every %sx' % ('finite ' if isf else ''),
        replay=dict(prog='reduce_identity', args=['g_x_' + S], cxxflags=['-DGV_T=' + T, '-DWHICH=2'], lib=True)))
    UNITS.append(Unit(
        name='identity_value_zero_' + S, src=RED, within=r'struct identity_value_zero\b', anchor=r'constexpr T operator\(\)\(\) const',
        proto='%s identity_value_zero_%s(void)' % (T, S),
        contract='__CPROVER_ensures(%s ==> (g_x_%s + __CPROVER_return_value == g_x_%s && __CPROVER_return_value + g_x_%s == g_x_%s))\n__CPROVER_assigns()' % (
            FIN % (('g_x_' + S,) * 2), S, S, S, S),
        prelude=PROBE, lower=[rx(r'T\{0\}', '((%s)0)' % T)],
        no_flags=['--signed-overflow-check'],
        inst='T=' + T,
        says='identity of the sum reducer (GAccumulator): x + id == x == id + x for every %sx' % ('finite ' if isf else '')))

# ---------------------------------------------------------------------------
# Reducible<T,MergeFunc,IdFunc> / GAccumulator<T>: per-thread slots.
# PerThreadStorage<T> is modelled as an array of GV_MAXT slots (thread count n
# <= GV_MAXT = 16 is a bound on the CONFIGURATION, not on the history);
# getLocal() is the slot of the calling thread, getRemote(i) slot i.
GV_MAXT = 16
INSTS = [  # (suffix, T, merge expression / callee, identity callee, uses)
    ('plus_u64', 'uint64_t', '#define MERGE(a, b) ((a) + (b))   /* std::plus<T> */\n#define MERGE_SPEC(a, b) ((a) + (b))', 'identity_value_zero_u64', []),
    ('max_i64', 'int64_t', '#define MERGE(a, b) gmax_i64((a), (b))\n#define MERGE_SPEC(a, b) ((a) < (b) ? (b) : (a))   /* = the proved contract of gmax */', 'identity_value_min_i64', ['gmax_i64']),
    ('max_f64', 'double', '#define MERGE(a, b) gmax_f64((a), (b))\n#define MERGE_SPEC(a, b) ((a) < (b) ? (b) : (a))', 'identity_value_min_f64', ['gmax_f64']),
]
for SFX, T, MERGE, IDF, USES in INSTS:
    S = SFX.split('_')[1]
    REDP = '''
#define GV_MAXT %du
struct Red { %s data[GV_MAXT]; unsigned n; };
unsigned g_tid;   /* the calling thread */
unsigned g_s;     /* ghost probe slot */
%s
#define IDENT() %s()
#define GV_MOVE(x) (x)
static inline %s* red_remote(struct Red* r, unsigned i) { __CPROVER_assert(i < r->n, "getRemote: thread id in range"); return &r->data[i]; }
static inline %s* red_local(struct Red* r) { return &r->data[g_tid]; }
%s g_ident;  /* ghost: the identity value (IdFunc()) */
#define RED_OK(r) (g_ident == IDENT() && __CPROVER_is_fresh(r, sizeof(*(r))) && (r)->n >= 1 && (r)->n <= GV_MAXT && g_tid < (r)->n)
''' % (GV_MAXT, T, MERGE, IDF, T, T, T)
    nonan = ' && *lhs == *lhs && rhs == rhs' if S == 'f64' else ''
    nf = ['--signed-overflow-check'] if S != 'f64' else []
    UNITS.append(Unit(
        name='Reducible_merge_' + SFX, src=RED, within=r'class Reducible\b', anchor=r'void merge\(T& lhs, const T& rhs\)',
        proto='void Reducible_merge_%s(struct Red* self, %s* lhs, %s rhs)' % (SFX, T, T),
        contract='__CPROVER_requires(__CPROVER_is_fresh(lhs, sizeof(*lhs))%s)\n__CPROVER_ensures(*lhs == MERGE_SPEC(__CPROVER_old(*lhs), rhs))\n__CPROVER_assigns(*lhs)' % nonan,
        prelude=[REDP], uses=USES + [IDF],
        lower=[rx(r'(?<![\w*])lhs(?![\w])', '(*lhs)', 2, 2), ren('MergeFunc::operator()', 'MERGE')],
        inst='T=%s, MergeFunc/IdFunc = %s' % (T, SFX), says='merge(lhs, rhs): lhs becomes MergeFunc(lhs, rhs)'))
    UNITS.append(Unit(
        name='Reducible_merge_move_' + SFX, src=RED, within=r'class Reducible\b', anchor=r'void merge\(T& lhs, T&& rhs\)',
        proto='void Reducible_merge_move_%s(struct Red* self, %s* lhs, %s rhs)' % (SFX, T, T),
        contract='__CPROVER_requires(__CPROVER_is_fresh(lhs, sizeof(*lhs))%s)\n__CPROVER_ensures(*lhs == MERGE_SPEC(__CPROVER_old(*lhs), rhs))\n__CPROVER_assigns(*lhs)' % nonan,
        prelude=[REDP], uses=USES + [IDF],
        lower=[rx(r'(?<![\w*])lhs(?![\w])', '(*lhs)', 2, 2), ren('MergeFunc::operator()', 'MERGE'),
               ren('std::move', 'GV_MOVE', 3), rx(r'T v\{(.*)\};', r'%s v = \1;' % T, 1, 1)],
        inst='T=%s (trivially movable: std::move is the identity)' % T, says='moving merge: lhs becomes MergeFunc(lhs, rhs)'))
    UNITS.append(Unit(
        name='Reducible_update_' + SFX, src=RED, within=r'class Reducible\b', anchor=r'void update\(const T& rhs\)',
        proto='void Reducible_update_%s(struct Red* self, %s rhs)' % (SFX, T),
        contract='''__CPROVER_requires(RED_OK(self) && g_s < GV_MAXT && self->data[g_s] == self->data[g_s]%s)
__CPROVER_ensures(self->data[g_tid] == MERGE_SPEC(__CPROVER_old(self->data[g_tid]), rhs))
__CPROVER_ensures(g_s != g_tid ==> self->data[g_s] == __CPROVER_old(self->data[g_s]))
__CPROVER_assigns(self->data[g_tid])''' % (' && self->data[g_tid] == self->data[g_tid] && rhs == rhs' if S == 'f64' else ''),
        prelude=[REDP], uses=USES + [IDF],
        inline=['Reducible_merge_' + SFX],
        lower=[rx(r'merge\(\*data_\.getLocal\(\), rhs\)', 'Reducible_merge_%s(self, red_local(self), rhs)' % SFX, 1, 1)],
        no_flags=nf,
        inst='T=%s' % T, says='update(x) merges x into the calling thread\'s slot and touches no other slot'))
    # reduce(): fold of all slots, slots 1.. reset to the identity
    FOLD_REQ = '''RED_OK(self) && g_tid == 0 && g_pf[0] == self->data[0] &&
  __CPROVER_forall { unsigned j; (j < GV_MAXT) ==> (g_d0[j] == self->data[j]%s) } &&
  __CPROVER_forall { unsigned k; (k < GV_MAXT - 1) ==> ((k + 1 < self->n) ==> g_pf[k + 1] == MERGE_SPEC(g_pf[k], self->data[k + 1])) }''' % (' && self->data[j] == self->data[j]' if S == 'f64' else '')
    UNITS.append(Unit(
        name='Reducible_reduce_' + SFX, src=RED, within=r'class Reducible\b', anchor=r'T& reduce\(\)',
        proto='%s* Reducible_reduce_%s(struct Red* self)' % (T, SFX),
        contract='''__CPROVER_requires(%s)
__CPROVER_ensures(__CPROVER_return_value == &self->data[0] && self->data[0] == g_pf[self->n - 1])
__CPROVER_ensures(__CPROVER_forall { unsigned m; (m < GV_MAXT) ==> ((1 <= m && m < self->n) ==> self->data[m] == g_ident) })
__CPROVER_assigns(__CPROVER_object_whole(self))''' % FOLD_REQ,
        prelude=[REDP, '%s g_pf[GV_MAXT], g_d0[GV_MAXT];  /* ghost: partial folds of the entry slots, entry slots */\n' % T],
        uses=USES, inline=[IDF, 'Reducible_merge_move_' + SFX],
        lower=[rx(r'T& lhs = \*data_\.getLocal\(\);', '%s* lhs_p = red_local(self);' % T, 1, 1),
               rx(r'T& rhs = \*data_\.getRemote\(i\);', '%s* rhs_p = red_remote(self, i);' % T, 1, 1),
               rx(r'data_\.size\(\)', 'self->n', 1, 1),
               rx(r'merge\(lhs, std::move\(rhs\)\)', 'Reducible_merge_move_%s(self, lhs_p, *rhs_p)' % SFX, 1, 1),
               rx(r'(?<![\w*])rhs = IdFunc::operator\(\)\(\)', '*rhs_p = IDENT()', 1, 1),
               rx(r'return lhs;', 'return lhs_p;', 1, 1)],
        loops={1: '''
__CPROVER_assigns(i, __CPROVER_object_whole(self))
__CPROVER_loop_invariant(1 <= i && i <= self->n && self->n <= GV_MAXT && self->n >= 1 && lhs_p == &self->data[0] && g_tid == 0 && g_ident == gid && self->n == n0)
__CPROVER_loop_invariant(self->data[0] == g_pf[i - 1])
__CPROVER_loop_invariant(__CPROVER_forall { unsigned a; (a < GV_MAXT) ==> ((1 <= a && a < i) ==> self->data[a] == g_ident) })
__CPROVER_loop_invariant(__CPROVER_forall { unsigned b; (b < GV_MAXT) ==> ((i <= b && b < self->n) ==> self->data[b] == g_d0[b]) })
__CPROVER_decreases(self->n - i)
'''},
        no_flags=nf, timeout=300, ghost_prefix='const %s gid = g_ident; const unsigned n0 = self->n;' % T, fallback_unwind=GV_MAXT + 2,
        inst='T=%s, thread count <= %d (configuration bound); called from thread 0 (outside the parallel region)' % (T, GV_MAXT),
        says='reduce() returns the left fold of all per-thread slots with the merge function, however the updates were distributed, and resets slots 1..n-1 to the identity',
        trusted=['PerThreadStorage<T> modelled as an array of n <= 16 slots (red_local/red_remote in the prelude)']))
    UNITS.append(Unit(
        name='Reducible_reset_' + SFX, src=RED, within=r'class Reducible\b', anchor=r'void reset\(\)',
        proto='void Reducible_reset_%s(struct Red* self)' % SFX,
        contract='''__CPROVER_requires(RED_OK(self))
__CPROVER_ensures(__CPROVER_forall { unsigned m; (m < GV_MAXT) ==> (m < self->n ==> self->data[m] == g_ident) })
__CPROVER_assigns(__CPROVER_object_whole(self))''',
        prelude=[REDP], uses=USES, inline=[IDF],
        lower=[rx(r'data_\.size\(\)', 'self->n', 1, 1),
               rx(r'data_\.getRemote\(', 'red_remote(self, ', 1, 1), rx(r'data_\.getLocal\(\)', 'red_local(self)', 0),
               rx(r'IdFunc::operator\(\)\(\)', 'IDENT()', 1, 1)],
        loops={1: '''
__CPROVER_assigns(i, __CPROVER_object_whole(self))
__CPROVER_loop_invariant(i <= self->n && self->n <= GV_MAXT && self->n >= 1 && g_ident == gid && self->n == n0)
__CPROVER_loop_invariant(__CPROVER_forall { unsigned a; (a < GV_MAXT) ==> (a < i ==> self->data[a] == g_ident) })
__CPROVER_decreases(self->n - i)
'''},
        ghost_prefix='const %s gid = g_ident; const unsigned n0 = self->n;' % T, fallback_unwind=GV_MAXT + 2,
        inst='T=%s, thread count <= %d' % (T, GV_MAXT),
        says='reset() restores the identity in every slot'))

# GAccumulator<T>::operator+= / operator-=  (T = uint64_t: wrap-around sum)
SFX, T = 'plus_u64', 'uint64_t'
REDP_PLUS = [u for u in UNITS if u.name == 'Reducible_update_plus_u64'][0].prelude
for op, sign, anchor in [('add', '+', r'GAccumulator& operator\+=\(const T& rhs\)'), ('sub', '-', r'GAccumulator& operator-=\(const T& rhs\)')]:
    UNITS.append(Unit(
        name='GAccumulator_%s_u64' % op, src=RED, within=r'class GAccumulator\b', anchor=anchor,
        proto='struct Red* GAccumulator_%s_u64(struct Red* self, uint64_t rhs)' % op,
        contract='''__CPROVER_requires(RED_OK(self) && g_s < GV_MAXT)
__CPROVER_ensures(self->data[g_tid] == __CPROVER_old(self->data[g_tid]) %s rhs)
__CPROVER_ensures(g_s != g_tid ==> self->data[g_s] == __CPROVER_old(self->data[g_s]))
__CPROVER_ensures(__CPROVER_return_value == self)
__CPROVER_assigns(self->data[g_tid])''' % sign,
        prelude=REDP_PLUS, uses=['Reducible_update_plus_u64', 'identity_value_zero_u64'],
        lower=[rx(r'base_type::update\(', 'Reducible_update_plus_u64(self, ', 1, 1), rx(r'return \*this;', 'return self;', 1, 1)],
        inst='T=uint64_t (sum modulo 2^64)',
        says='a %s= x changes the calling thread\'s partial sum by exactly %sx and no other slot (the -= form subtracts)' % (sign, sign),
        replay=dict(prog='gaccumulator', args=['rhs'], cxxflags=['-DOP=' + ("1" if op == 'add' else "2")], lib=True)))

# ---------------------------------------------------------------------------
# AtomicHelpers.h: CAS helpers linearise to min / max / add / subtract.
# Thread-modular: before every atomic step the environment may overwrite the
# cell with ANY value (GV_RELY_NONE).  Contract: the call performs at most one
# write; if it writes, the written value is op(value it replaced, argument)
# and the return value is the value it replaced (the linearisation point is
# that successful CAS); if it does not write, the returned value is a value it
# actually read from the cell and op would not have changed it.
AT = '#define GV_RELY_NONE\n#include "gv_atomic.h"\n'
MO = [ren('std::memory_order_relaxed', 'memory_order_relaxed')]
for S, T in [('u64', 'uint64_t'), ('i64', 'int64_t'), ('u32', 'uint32_t')]:
    DEF = ['GV_WIDTH_MASK=0xffffffffull'] if S == 'u32' else []
    for nm, cmpop, anchor in [('atomicMax', '<', r'const Ty atomicMax\(std::atomic<Ty>& a, const Ty b\)'),
                              ('atomicMin', '>', r'const Ty atomicMin\(std::atomic<Ty>& a, const Ty b\)')]:
        UNITS.append(Unit(
            name='%s_%s' % (nm, S), src=AH, anchor=anchor,
            proto='%s %s_%s(gv_atomic* a, %s b)' % (T, nm, S, T),
            contract='''__CPROVER_requires(__CPROVER_is_fresh(a, sizeof(*a)) && g_lin_count == 0)
__CPROVER_ensures(g_lin_count <= 1)
__CPROVER_ensures(g_lin_count == 1 ==> ((%(T)s)g_lin_old %(c)s b && (%(T)s)g_lin_new == b && __CPROVER_return_value == (%(T)s)g_lin_old))
__CPROVER_ensures(g_lin_count == 0 ==> (__CPROVER_return_value == (%(T)s)g_last_read && !(__CPROVER_return_value %(c)s b)))
__CPROVER_assigns(a->v, g_lin_count, g_lin_old, g_lin_new, g_last_read, g_last_load_order, g_last_write_order)''' % dict(T=T, c=cmpop),
            prelude=AT, defines=DEF, no_flags=['--conversion-check'],
            lower=MO + [bind('Ty', T, 1),
                        rx(r'(?<![\w.])a\.load\(', 'gv_load_%s(a, ' % S, 1, 1),
                        rx(r'(?<![\w.])a\.compare_exchange_weak\(old_a, ', 'gv_cas_weak_%s(a, &old_a, ' % S, 1, 1)],
            loops={1: '''
__CPROVER_assigns(old_a, a->v, g_lin_count, g_lin_old, g_lin_new, g_last_read, g_last_load_order, g_last_write_order)
__CPROVER_loop_invariant(g_lin_count == 0 && old_a == (%s)g_last_read)
''' % T},
            inst='Ty=%s' % T,
            says='%s linearises: at most one write, which installs the %s of the value it replaced and b and returns the replaced value; otherwise returns a value read from the cell that already dominates b' % (nm, 'maximum' if nm == 'atomicMax' else 'minimum')))
    for nm, op, anchor in [('atomicAdd', '+', r'const Ty atomicAdd\(std::atomic<Ty>& val, Ty delta\)'),
                           ('atomicSubtract', '-', r'const Ty atomicSubtract\(std::atomic<Ty>& val, Ty delta\)')]:
        if S == 'i64':
            continue  # signed overflow is undefined: the unsigned instantiations are the claim
        UNITS.append(Unit(
            name='%s_%s' % (nm, S), src=AH, anchor=anchor,
            proto='%s %s_%s(gv_atomic* val, %s delta)' % (T, nm, S, T),
            contract='''__CPROVER_requires(__CPROVER_is_fresh(val, sizeof(*val)) && g_lin_count == 0)
__CPROVER_ensures(g_lin_count == 1 && (%(T)s)g_lin_new == (%(T)s)((%(T)s)g_lin_old %(o)s delta) && __CPROVER_return_value == (%(T)s)g_lin_old)
__CPROVER_assigns(val->v, g_lin_count, g_lin_old, g_lin_new, g_last_read, g_last_load_order, g_last_write_order)''' % dict(T=T, o=op),
            prelude=AT, defines=DEF, no_flags=['--conversion-check'],
            lower=MO + [bind('Ty', T, 1),
                        rx(r'(?<![\w.])val\.load\(', 'gv_load_%s(val, ' % S, 1, 1),
                        rx(r'(?<![\w.])val\.compare_exchange_weak\(old_val, ', 'gv_cas_weak_%s(val, &old_val, ' % S, 1, 1)],
            loops={1: '''
__CPROVER_assigns(old_val, val->v, g_lin_count, g_lin_old, g_lin_new, g_last_read, g_last_load_order, g_last_write_order)
__CPROVER_loop_invariant(g_lin_count == 0 && old_val == (%s)g_last_read)
''' % T},
            inst='Ty=%s' % T,
            says='%s linearises: exactly one write, old %s delta (modulo 2^n) over the value it replaced, returning that value' % (nm, op)))
    # plain (non-atomic) overloads
    for nm, cmpop, anchor in [('max', '<', r'const Ty max\(Ty& a, const Ty& b\)'), ('min', '>', r'const Ty min\(Ty& a, const Ty& b\)')]:
        UNITS.append(Unit(
            name='plain_%s_%s' % (nm, S), src=AH, anchor=anchor,
            proto='%s plain_%s_%s(%s* a, %s b)' % (T, nm, S, T, T),
            contract='''__CPROVER_requires(__CPROVER_is_fresh(a, sizeof(*a)))
__CPROVER_ensures(__CPROVER_return_value == __CPROVER_old(*a) && *a == (__CPROVER_old(*a) %s b ? b : __CPROVER_old(*a)))
__CPROVER_assigns(*a)''' % cmpop,
            lower=[bind('Ty', T, 1), rx(r'(?<![\w*])a(?![\w])', '(*a)', 3, 3)],
            inst='Ty=%s' % T, says='non-atomic %s: the cell becomes the %s of itself and b, the old value is returned' % (nm, nm)))

# ---------------------------------------------------------------------------
# DynamicBitSet (DynamicBitset.h).  The word vector is reached through a
# ghost probe: g_w is an arbitrary word index, g_word the content of that word
# (any other word is out of sight, so "bit g is affected iff ..." for the
# arbitrary probe bit g_b = 64*g_w + (g_b % 64) is a statement about every bit).
BSP = '''
static const uint32_t bits_uint64 = 64;
struct BitSet { size_t num_bits; } bs;     /* the object (a global) */
size_t g_b;        /* ghost probe BIT */
uint64_t g_word;   /* content of the word holding the probe bit */
#define g_w (g_b / 64)
#define BV_SIZE ((bs.num_bits + 63) / 64)
#define PROBE_BIT ((g_word >> (g_b % 64)) & 1)
static inline size_t bv_size(void) { return BV_SIZE; }
static inline void bv_fill0(size_t vb, size_t ve)
{ __CPROVER_assert(vb <= ve && ve <= BV_SIZE, "std::fill range inside the word vector"); if (vb <= g_w && g_w < ve) g_word = 0; }
static inline void bv_and(size_t idx, uint64_t mask)
{ __CPROVER_assert(idx < BV_SIZE, "word index in range"); if (idx == g_w) g_word &= mask; }
'''
UNITS.append(Unit(
    name='DynamicBitSet_reset_range', src=BS, within=r'class DynamicBitSet\b', anchor=r'void reset\(size_t begin, size_t end\)',
    proto='void DynamicBitSet_reset_range(size_t begin, size_t end)',
    contract='''__CPROVER_requires(bs.num_bits <= ((size_t)1 << 62) && g_b < bs.num_bits && begin <= end && (bs.num_bits == 0 || end <= bs.num_bits - 1))
__CPROVER_ensures(PROBE_BIT == ((begin <= g_b && g_b <= end) ? 0 : ((__CPROVER_old(g_word) >> (g_b % 64)) & 1)))
__CPROVER_assigns(g_word)''',
    prelude=[BSP],
    lower=[members(['num_bits'], self='bs', arrow='.', minimum=4),
           rx(r'bitvec\.size\(\)', 'bv_size()', 1, 1),
           rx(r'std::fill\(bitvec\.begin\(\) \+ vec_begin, bitvec\.begin\(\) \+ vec_end, 0\);', 'bv_fill0(vec_begin, vec_end);', 1, 1),
           rx(r'bitvec\[bit_index\] &= (~?mask);', r'bv_and(bit_index, \1);', 3, 3)],
    inst='word vector through the ghost probe word (stub bv_fill0/bv_and in the prelude)',
    says='range reset (inclusive range, every alignment, all 2^64 positions): bit g is cleared iff begin <= g <= end, every other bit of every word is unchanged; no shift by >= 64; word indices in range; the code\'s own assertions hold',
    trusted=['bitset word-vector stub: std::fill(begin+vb, begin+ve, 0) zeroes words [vb,ve); bitvec[i] &= m']))

# test / set / reset(i): one atomic word under interference
BSA = '#define GV_RELY_NONE\n#include "gv_atomic.h"\n' + '''
static const uint32_t bits_uint64 = 64;
struct BitSet { size_t num_bits; } bs;
gv_atomic g_aw;    /* the word bitvec[index / 64] (every other word is untouched: only this one is reachable) */
size_t g_idx;      /* the index the call is made with */
static inline gv_atomic* bv_word(size_t i)
{ __CPROVER_assert(i == g_idx / 64 && i < (bs.num_bits + 63) / 64, "only the word of the addressed bit is accessed, in range"); return &g_aw; }
#define BIT ((uint64_t)1 << (g_idx % 64))
'''
ASG = 'g_aw.v, g_lin_count, g_lin_old, g_lin_new, g_last_read, g_last_load_order, g_last_write_order'
UNITS.append(Unit(
    name='DynamicBitSet_test', src=BS, within=r'class DynamicBitSet\b', anchor=r'bool test\(size_t index\) const',
    proto='bool DynamicBitSet_test(size_t index)',
    contract='''__CPROVER_requires(bs.num_bits <= ((size_t)1 << 62) && index < bs.num_bits && index == g_idx && g_lin_count == 0)
__CPROVER_ensures(g_lin_count == 0 && __CPROVER_return_value == ((g_last_read & BIT) != 0))
__CPROVER_assigns(%s)''' % ASG,
    prelude=[BSA], no_flags=['--conversion-check'],
    lower=MO + [rx(r'bitvec\[bit_index\]\.load\(', 'gv_load(bv_word(bit_index), ', 1, 1)],
    says='test(i) reads exactly bit i of the word it observed and writes nothing'))
for nm, anchor, newexpr, cond in [
        ('set', r'bool set\(size_t index\)', '(g_lin_old | BIT)', '(g_lin_old & BIT) == 0'),
        ('reset', r'bool reset\(size_t index\)', '(g_lin_old & ~BIT)', '(g_lin_old & BIT) != 0')]:
    UNITS.append(Unit(
        name='DynamicBitSet_%s' % nm, src=BS, within=r'class DynamicBitSet\b', anchor=anchor,
        proto='bool DynamicBitSet_%s(size_t index)' % nm,
        contract='''__CPROVER_requires(bs.num_bits <= ((size_t)1 << 62) && index < bs.num_bits && index == g_idx && g_lin_count == 0)
__CPROVER_ensures(g_lin_count <= 1)
__CPROVER_ensures(g_lin_count == 1 ==> (%s && g_lin_new == %s && __CPROVER_return_value == %s))
__CPROVER_ensures(g_lin_count == 0 ==> (!(%s) && __CPROVER_return_value == %s))
__CPROVER_assigns(%s)''' % (cond, newexpr, 'false' if nm == 'set' else 'true',
                            cond.replace('g_lin_old', 'g_last_read'), 'true' if nm == 'set' else 'false', ASG),
        prelude=[BSA], no_flags=['--conversion-check'],
        lower=MO + [rx(r'uint64_t old_val = bitvec\[bit_index\];', 'uint64_t old_val = gv_load(bv_word(bit_index), memory_order_seq_cst);', 1, 1),
                    rx(r'bitvec\[bit_index\]\.compare_exchange_weak\(\s*old_val, ', 'gv_cas_weak_u64(bv_word(bit_index), &old_val, ', 1, 1)],
        loops={1: '''
__CPROVER_assigns(old_val, %s)
__CPROVER_loop_invariant(g_lin_count == 0 && old_val == g_last_read)
''' % ASG},
        says='%s(i) linearises under arbitrary interference: at most one write, which changes exactly bit i of the value it replaced (every other bit of the word preserved) and returns the old bit; otherwise the bit was already in the requested state in a value it read' % nm))

EXPLANATION = ('Each shipped reducer functor, identity functor, Reducible::merge/update/reduce/reset, GAccumulator +=/-=, '
               'the CAS helpers of AtomicHelpers.h and DynamicBitSet test/set/reset/range-reset is extracted from /repo, '
               'lowered to C and proved against a contract for all values (floats: all finite values; bit tricks over all 2^64).')
NOT_DECIDED = ('InsertBag / per-thread containers under concurrency, union-find, DReducible (libdist); float/double sums '
               '(non-associative: the fold order is the proved one); bitset bulk and/or/xor/count (do_all loops); '
               '-infinity as an input of GReduceMax (lowest() is not below it).')
ASSUMPTIONS = ['interference stub stubs/gv_atomic.h: each atomic operation is indivisible; between any two the environment may write any value (GV_RELY_NONE); memory orders recorded, not interpreted',
               'PerThreadStorage<T> is an array of n <= 16 per-thread slots (configuration bound)',
               'std::plus/std::max/std::min/std::numeric_limits are what the standard says (typed C helpers / <limits.h>,<float.h> constants)',
               'floating-point: IEEE-754 binary32/64 as modelled bit-precisely by CBMC; NaN operands excluded; identity laws for finite values']
