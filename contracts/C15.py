"""C15 -- reductions and concurrent collections give the sequential answer.
Contracts on Reduction.h (identity laws, GAccumulator +=/-=, update/merge),
AtomicHelpers.h (linearisation of atomicMax/Min/Add/Subtract, plain overloads)
and DynamicBitset.h (test/set/reset, range reset for every alignment)."""
from gv.unit import Unit
from gv.lower import (bind, ren, members, refs, call, fcall, index, stdfn, mkpair, casts, drop, dropcall, rx)

RED = 'libgalois/include/galois/Reduction.h'
AH = 'libgalois/include/galois/AtomicHelpers.h'
BS = 'libgalois/include/galois/DynamicBitset.h'

UNITS = []

# ---------------------------------------------------------------------------
# Identity laws: merge(x, id()) == x and merge(id(), x) == x for every shipped
# reducer.  Each functor body is extracted and proved against its defining
# spec; the law is then a lemma over those CONTRACTS with a ghost probe x.
TYPES = [('int32_t', 'i32', 'INT32_MIN', 'INT32_MAX', 'INT32_MIN'),
         ('uint32_t', 'u32', '0', 'UINT32_MAX', '0'),
         ('int64_t', 'i64', 'INT64_MIN', 'INT64_MAX', 'INT64_MIN'),
         ('uint64_t', 'u64', '0', 'UINT64_MAX', '0'),
         ('float', 'f32', 'FLT_MIN', 'FLT_MAX', '(-FLT_MAX)'),
         ('double', 'f64', 'DBL_MIN', 'DBL_MAX', '(-DBL_MAX)')]
# numeric_limits<T>::min()/max()/lowest() as <limits.h>/<float.h> constants
# (for floating T, min() is the smallest POSITIVE normal value -- that is what
# the standard says and what FLT_MIN/DBL_MIN are)
for T, S, MIN, MAX, LOWEST in TYPES:
    isf = S.startswith('f')
    FIN = ('(!__CPROVER_isnanf(%s) && !__CPROVER_isinff(%s))' if S == 'f32' else '(!__CPROVER_isnand(%s) && !__CPROVER_isinfd(%s))') if isf else '(1 || %s == %s)'
    NAN_REQ = ('__CPROVER_requires(lhs == lhs && rhs == rhs)\n' if isf else '')  # no NaN operands
    UNITS.append(Unit(
        name='gmax_' + S, src=RED, within=r'struct gmax\b', anchor=r'constexpr T operator\(\)\(const T& lhs, const T& rhs\) const',
        proto='%s gmax_%s(%s lhs, %s rhs)' % (T, S, T, T),
        contract=NAN_REQ + '__CPROVER_ensures(__CPROVER_return_value == (lhs < rhs ? rhs : lhs))\n__CPROVER_assigns()',
        lower=[stdfn('std::max<T>', 'gv_max_' + S)], inst='T=' + T,
        says='gmax is std::max'))
    UNITS.append(Unit(
        name='gmin_' + S, src=RED, within=r'struct gmin\b', anchor=r'constexpr T operator\(\)\(const T& lhs, const T& rhs\) const',
        proto='%s gmin_%s(%s lhs, %s rhs)' % (T, S, T, T),
        contract=NAN_REQ + '__CPROVER_ensures(__CPROVER_return_value == (rhs < lhs ? rhs : lhs))\n__CPROVER_assigns()',
        lower=[stdfn('std::min<T>', 'gv_min_' + S)], inst='T=' + T,
        says='gmin is std::min'))
    PROBE = '%s g_x_%s; /* ghost probe value */\n' % (T, S)
    # identity of max: the value the library uses, extracted
    UNITS.append(Unit(
        name='identity_value_min_' + S, src=RED, within=r'struct identity_value_min\b', anchor=r'constexpr T operator\(\)\(\) const',
        proto='%s identity_value_min_%s(void)' % (T, S),
        contract='__CPROVER_ensures(%s ==> (g_x_%s < __CPROVER_return_value ? __CPROVER_return_value : g_x_%s) == g_x_%s)\n__CPROVER_ensures(%s ==> (__CPROVER_return_value < g_x_%s ? g_x_%s : __CPROVER_return_value) == g_x_%s)\n__CPROVER_assigns()' % (
            FIN % (('g_x_' + S,) * 2), S, S, S, FIN % (('g_x_' + S,) * 2), S, S, S),
        prelude=PROBE,
        lower=[rx(r'std::numeric_limits<T>::min\(\)', MIN, 0), rx(r'std::numeric_limits<T>::lowest\(\)', LOWEST, 0),
               rx(r'(?:%s|%s)' % (MIN.replace('(', r'\(').replace(')', r'\)'), LOWEST.replace('(', r'\(').replace(')', r'\)')), lambda m: m.group(0), 1)],
        inst='T=' + T,
        says='identity of the max reducer (GReduceMax): max(x, id) == x == max(id, x) for every %sx, including all-negative inputs' % ('finite ' if isf else ''),
        replay=dict(prog='reduce_identity', args=['g_x_' + S], cxxflags=['-DGV_T=' + T, '-DWHICH=1'], lib=True)))
    UNITS.append(Unit(
        name='identity_value_max_' + S, src=RED, within=r'struct identity_value_max\b', anchor=r'constexpr T operator\(\)\(\) const',
        proto='%s identity_value_max_%s(void)' % (T, S),
        contract='__CPROVER_ensures(%s ==> (__CPROVER_return_value < g_x_%s ? __CPROVER_return_value : g_x_%s) == g_x_%s)\n__CPROVER_ensures(%s ==> (g_x_%s < __CPROVER_return_value ? g_x_%s : __CPROVER_return_value) == g_x_%s)\n__CPROVER_assigns()' % (
            FIN % (('g_x_' + S,) * 2), S, S, S, FIN % (('g_x_' + S,) * 2), S, S, S),
        prelude=PROBE,
        lower=[rx(r'std::numeric_limits<T>::max\(\)', MAX)],
        inst='T=' + T,
        says='identity of the min reducer (GReduceMin): min(x, id) == x == min(id, x) for every %sx' % ('finite ' if isf else ''),
        replay=dict(prog='reduce_identity', args=['g_x_' + S], cxxflags=['-DGV_T=' + T, '-DWHICH=2'], lib=True)))
    UNITS.append(Unit(
        name='identity_value_zero_' + S, src=RED, within=r'struct identity_value_zero\b', anchor=r'constexpr T operator\(\)\(\) const',
        proto='%s identity_value_zero_%s(void)' % (T, S),
        contract='__CPROVER_ensures(%s ==> (g_x_%s + __CPROVER_return_value == g_x_%s && __CPROVER_return_value + g_x_%s == g_x_%s))\n__CPROVER_assigns()' % (
            FIN % (('g_x_' + S,) * 2), S, S, S, S),
        prelude=PROBE, lower=[rx(r'T\{0\}', '((%s)0)' % T)],
        no_flags=['--signed-overflow-check'],
        inst='T=' + T,
        says='identity of the sum reducer (GAccumulator): x + id == x == id + x for every %sx' % ('finite ' if isf else '')))
