"""C14 (part) -- galois::optional<T> (optional.h) against std::optional<T>: value semantics and "each element is constructed
and destroyed exactly once".  LazyObject<T> (raw storage + placement new / explicit destructor call) is a slot with a ghost
live bit: construct() on a dead slot, destroy()/get() on a live one (trusted stub, as LazyArray for the ring)."""
import re
from gv.unit import Unit
from gv.lower import (bind, ren, members, refs, call, fcall, index, stdfn, mkpair, casts, drop, dropcall, rx)

OPT = 'libgalois/include/galois/optional.h'
W = r'class optional\b'
UNITS = []
P = ["""
typedef uint64_t gv_elem;
struct Opt { gv_elem val; bool live; bool initialized_; };      /* LazyObject<T> data_ = (val, ghost live bit); initialized_ */
static inline void lo_construct(struct Opt* o, gv_elem v) { __CPROVER_assert(!o->live, "LazyObject::construct on raw storage (construct once)"); o->live = 1; o->val = v; }
static inline void lo_destroy(struct Opt* o) { __CPROVER_assert(o->live, "LazyObject::destroy on a constructed object (destroy once)"); o->live = 0; }
static inline gv_elem* lo_get(struct Opt* o) { __CPROVER_assert(o->live, "LazyObject::get on a constructed object"); return &o->val; }
#define B(x) ((x) != 0)
/* representation invariant: the storage holds an object iff initialized_ */
#define OPT_INV(o) (B((o)->live) == B((o)->initialized_))
#define OPT_OK(o) (__CPROVER_is_fresh(o, sizeof(*(o))) && OPT_INV(o))
"""]
M = members(['initialized_'], minimum=0)
COMMON = [rx(r'data_\.construct\(val\)', 'lo_construct(self, val)', 0), rx(r'data_\.destroy\(\)', 'lo_destroy(self)', 0), rx(r'return data_\.get\(\);', 'return lo_get(self);', 0),
          rx(r'(?<![\w.>])get_impl\(\) = val;', '*Opt_get_impl(self) = val;', 0), rx(r'rhs\.is_initialized\(\)', 'Opt_is_initialized(rhs)', 0), rx(r'(?<![\w.>])is_initialized\(\)', 'Opt_is_initialized(self)', 0),
          rx(r'rhs\.get_impl\(\)', '(*Opt_get_impl(rhs))', 0), rx(r'(?<![\w.>])get_impl\(\)', 'Opt_get_impl(self)', 0), rx(r'(?<![\w.>])construct\(', 'Opt_construct(self, ', 0),
          rx(r'(?<![\w.>])assign_impl\(', 'Opt_assign_impl(self, ', 0), rx(r'(?<![\w.>])destroy\(\)', 'Opt_destroy(self)', 0), rx(r'(?<![\w.>])assign\(rhs\)', 'Opt_assign_opt(self, rhs)', 0), rx(r'(?<![\w.>])assign\(val\)', 'Opt_assign_val(self, val)', 0),
          rx(r'assert\(initialized_\);', '__CPROVER_assert(initialized_, "code-assert: initialized_");', 0), rx(r'return \*this;', 'return self;', 0)]
BASE = ['Opt_is_initialized', 'Opt_get_impl', 'Opt_construct', 'Opt_assign_impl', 'Opt_destroy']


def U(name, anchor, proto, contract, says, inl=(), extra=(), ctor_inits=None, occurrence=None, **kw):
    UNITS.append(Unit(name='Opt_' + name, src=OPT, within=W, anchor=anchor, occurrence=occurrence, proto=proto, contract=contract, prelude=P, inline=list(inl), lower=list(extra) + COMMON + [M], ctor_inits=ctor_inits,
                      no_flags=['--conversion-check'], inst='T = opaque 64-bit token', says=says, **kw))


U('is_initialized', r'bool is_initialized\(\) const', 'bool Opt_is_initialized(const struct Opt* self)',
  '__CPROVER_requires(__CPROVER_is_fresh(self, sizeof(*self)))\n__CPROVER_ensures(B(__CPROVER_return_value) == B(self->initialized_))\n__CPROVER_assigns()', 'is_initialized()')
U('get_impl', r'(?<!const )T& get_impl\(\)', 'gv_elem* Opt_get_impl(struct Opt* self)',
  '__CPROVER_requires(OPT_OK(self) && B(self->initialized_))\n__CPROVER_ensures(__CPROVER_return_value == &self->val)\n__CPROVER_assigns()', 'get_impl(): the stored object (only when there is one)')
U('construct', r'void construct\(const T& val\)', 'void Opt_construct(struct Opt* self, gv_elem val)',
  '__CPROVER_requires(OPT_OK(self) && !B(self->initialized_))\n__CPROVER_ensures(OPT_INV(self) && B(self->initialized_) && self->val == val)\n__CPROVER_assigns(__CPROVER_object_whole(self))', 'construct(v): an empty optional now holds v (constructed once)')
U('assign_impl', r'void assign_impl\(const T& val\)', 'void Opt_assign_impl(struct Opt* self, gv_elem val)',
  '__CPROVER_requires(OPT_OK(self) && B(self->initialized_))\n__CPROVER_ensures(OPT_INV(self) && B(self->initialized_) && self->val == val)\n__CPROVER_assigns(self->val)', 'assign_impl(v): the held object is assigned, not re-constructed', inl=['Opt_get_impl'])
U('destroy', r'void destroy\(\)', 'void Opt_destroy(struct Opt* self)',
  '__CPROVER_requires(OPT_OK(self))\n__CPROVER_ensures(OPT_INV(self) && !B(self->initialized_))\n__CPROVER_assigns(self->live, self->initialized_)', 'destroy(): the held object (if any) is destroyed exactly once; empty afterwards')
U('ctor_default', r'optional\(\) :', 'void Opt_ctor_default(struct Opt* self)',
  '__CPROVER_requires(__CPROVER_is_fresh(self, sizeof(*self)) && !B(self->live))\n__CPROVER_ensures(OPT_INV(self) && !B(self->initialized_))\n__CPROVER_assigns(self->initialized_)', 'optional(): empty', ctor_inits=['initialized_'])
U('ctor_val', r'optional\(const T& val\) :', 'void Opt_ctor_val(struct Opt* self, gv_elem val)',
  '__CPROVER_requires(__CPROVER_is_fresh(self, sizeof(*self)) && !B(self->live))\n__CPROVER_ensures(OPT_INV(self) && B(self->initialized_) && self->val == val)\n__CPROVER_assigns(__CPROVER_object_whole(self))', 'optional(v): holds v',
  ctor_inits=['initialized_'], inl=['Opt_construct'])
U('ctor_copy', r'optional\(const optional& rhs\) :', 'void Opt_ctor_copy(struct Opt* self, struct Opt* rhs)',
  '__CPROVER_requires(__CPROVER_is_fresh(self, sizeof(*self)) && !B(self->live) && OPT_OK(rhs))\n__CPROVER_ensures(OPT_INV(self) && B(self->initialized_) == B(rhs->initialized_) && (B(rhs->initialized_) ==> self->val == rhs->val))\n__CPROVER_assigns(__CPROVER_object_whole(self))',
  'copy constructor: same emptiness, same value', ctor_inits=['initialized_'], inl=BASE)
U('assign_opt', r'void assign\(const optional& rhs\)', 'void Opt_assign_opt(struct Opt* self, struct Opt* rhs)',
  '__CPROVER_requires(OPT_OK(self) && OPT_OK(rhs))\n__CPROVER_ensures(OPT_INV(self) && B(self->initialized_) == B(rhs->initialized_) && (B(rhs->initialized_) ==> self->val == rhs->val))\n__CPROVER_assigns(__CPROVER_object_whole(self))',
  'assign(optional): afterwards equal to rhs in all four cases (value/empty x value/empty); the held object is assigned, constructed or destroyed exactly as needed', inl=BASE)
U('assign_val', r'void assign\(const T& val\)', 'void Opt_assign_val(struct Opt* self, gv_elem val)',
  '__CPROVER_requires(OPT_OK(self))\n__CPROVER_ensures(OPT_INV(self) && B(self->initialized_) && self->val == val)\n__CPROVER_assigns(__CPROVER_object_whole(self))', 'assign(v): holds v afterwards', inl=BASE)
U('get', r'(?<!const )T& get\(\)', 'gv_elem* Opt_get(struct Opt* self)',
  '__CPROVER_requires(OPT_OK(self) && B(self->initialized_))\n__CPROVER_ensures(__CPROVER_return_value == &self->val)\n__CPROVER_assigns()', 'get()/operator*: the held value; the code\'s assertion holds', inl=['Opt_get_impl'])
U('dtor', r'~optional\(\)', 'void Opt_dtor(struct Opt* self)',
  '__CPROVER_requires(OPT_OK(self))\n__CPROVER_ensures(!B(self->live))\n__CPROVER_assigns(self->live, self->initialized_)', 'destructor: the held object (if any) is destroyed exactly once', inl=['Opt_destroy'])
