"""C12 -- graph files round-trip.  Every reader and writer computes the section
offsets of the documented binary .gr layout; one spec (macros below, written
from the format comment in FileGraph.h / OfflineGraph.h), many code sites:
   header 4 x uint64 (version, sizeof edge data, numNodes, numEdges)
   out index:   numNodes x uint64                      at  32
   edge dests:  numEdges x uint32 (v1) | uint64 (v2)    at  32 + 8 n
   padding to 8 bytes (only ever needed for v1 with an odd edge count)
   edge data:   numEdges x sizeofEdge                   at  align8(32 + 8 n + w m)
"""
import re
from gv.unit import Unit
from gv.lower import (bind, ren, members, refs, call, fcall, index, stdfn, mkpair, casts, drop, dropcall, rx)

FG_C = 'libgalois/src/FileGraph.cpp'
OFF_H = 'libgalois/include/galois/graphs/OfflineGraph.h'
END_H = 'libgalois/include/galois/Endian.h'
UNITS = []

SPEC = '''
#define W(v) ((v) == 1 ? (uint64_t)4 : (uint64_t)8)
#define IDXOFF ((uint64_t)32)
#define DSTOFF(n) ((uint64_t)32 + (uint64_t)8 * (n))
#define DATAOFF(n, m, v) ((DSTOFF(n) + W(v) * (m) + 7) & ~(uint64_t)7)
#define TOTAL(n, m, s, v) (DATAOFF(n, m, v) + (s) * (m))
/* sizes for which nothing wraps */
#define SZ_OK(n, m, s) ((n) <= ((uint64_t)1 << 40) && (m) <= ((uint64_t)1 << 40) && (s) <= 1024)
static inline void gv_die(void) { __CPROVER_assert(0, "GALOIS_DIE reached although the preconditions describe a valid file / request"); __CPROVER_assume(0); }   /* GALOIS_DIE: terminates the program */
/* host is little-endian (x86-64): convert_le*toh / convert_htole* are the identity (Endian.h units prove that for this configuration) */
#define convert_le64toh(x) (x)
#define convert_htole64(x) (x)
#define convert_le32toh(x) (x)
#define convert_htole32(x) (x)
struct FileGraph { uint64_t sizeofEdge, numNodes, numEdges; uint64_t* outIdx; void* outs; char* edgeData; int graphVersion; uint64_t nodeOffset, edgeOffset; };
#define OFF(p) ((uint64_t)__CPROVER_POINTER_OFFSET(p))
'''
DIE = [rx(r'GALOIS_(?:SYS_)?DIE\([^;]*\);', 'gv_die();', 0)]

UNITS.append(Unit(
    name='rawBlockSize', src=FG_C, anchor=r'static size_t rawBlockSize\(size_t numNodes, size_t numEdges,',
    proto='size_t rawBlockSize(size_t numNodes, size_t numEdges, size_t sizeofEdgeData, int graphVersion)',
    contract='''__CPROVER_requires(SZ_OK(numNodes, numEdges, sizeofEdgeData) && (graphVersion == 1 || graphVersion == 2))
__CPROVER_ensures(__CPROVER_return_value == TOTAL(numNodes, numEdges, sizeofEdgeData, graphVersion))
__CPROVER_assigns()''',
    prelude=[SPEC], lower=DIE, backend='smt', witness='numNodes == 3 && numEdges == 3 && sizeofEdgeData == 4 && graphVersion == 2',
    says='rawBlockSize = total size of the documented layout (header, index, destinations, padding to 8 bytes, edge data) for both versions, odd and even edge counts, every edge-data width',
    ))

FM_MEM = ['graphVersion', 'sizeofEdge', 'numNodes', 'numEdges', 'nodeOffset', 'edgeOffset', 'outIdx', 'outs', 'edgeData']
UNITS.append(Unit(
    name='FileGraph_fromMem', src=FG_C, anchor=r'void FileGraph::fromMem\(void\* m, uint64_t node_offset, uint64_t edge_offset,',
    proto='void FileGraph_fromMem(struct FileGraph* self, void* m, uint64_t node_offset, uint64_t edge_offset, uint64_t lenlimit)',
    contract='''__CPROVER_requires(__CPROVER_is_fresh(self, sizeof(*self)) && g_len >= 32 && g_len <= ((uint64_t)1 << 52) && __CPROVER_is_fresh(m, g_len) && lenlimit == 0)
__CPROVER_requires((((uint64_t*)m)[0] == 1 || ((uint64_t*)m)[0] == 2) && SZ_OK(((uint64_t*)m)[2], ((uint64_t*)m)[3], ((uint64_t*)m)[1]) && TOTAL(((uint64_t*)m)[2], ((uint64_t*)m)[3], ((uint64_t*)m)[1], ((uint64_t*)m)[0]) <= g_len)
__CPROVER_ensures(self->graphVersion == (int)((uint64_t*)m)[0] && self->sizeofEdge == ((uint64_t*)m)[1] && self->numNodes == ((uint64_t*)m)[2] && self->numEdges == ((uint64_t*)m)[3])
__CPROVER_ensures(self->nodeOffset == node_offset && self->edgeOffset == edge_offset)
__CPROVER_ensures(__CPROVER_same_object(self->outIdx, m) && OFF(self->outIdx) == IDXOFF)
__CPROVER_ensures(__CPROVER_same_object(self->outs, m) && OFF(self->outs) == DSTOFF(self->numNodes))
__CPROVER_ensures(__CPROVER_same_object(self->edgeData, m) && OFF(self->edgeData) == DATAOFF(self->numNodes, self->numEdges, self->graphVersion))
__CPROVER_assigns(__CPROVER_object_whole(self))''',
    prelude=[SPEC, 'uint64_t g_len;  /* ghost: length of the mapped file */\n'],
    lower=[members(FM_MEM, minimum=9)] + DIE, backend='smt', no_flags=['--conversion-check'],
    says='fromMem (the in-memory reader behind fromFile / fromArrays / partFromFile) finds the header fields, the out index at 32, the destinations at 32+8n and the edge data at align8(32+8n+w*m), for both versions and odd/even edge counts',
    replay=dict(prog='filegraph_frommem', args=[], lib=True, sources=['libgalois/src/FileGraph.cpp'], cxxflags=['-fno-access-control'])))

# FileGraphWriter::phase1: the writer's view of the same layout
MMAP = '''
#define MAP_FAILED ((void*)-1)
#define GV_NOP(...) ((void)0)
void* gv_mmap(size_t bytes)
__CPROVER_requires(bytes >= 32 && bytes <= ((uint64_t)1 << 52))
__CPROVER_ensures(__CPROVER_is_fresh(__CPROVER_return_value, bytes))
__CPROVER_assigns();
'''
UNITS.append(Unit(name='gv_mmap', kind='assumed', proto='void* gv_mmap(size_t bytes)', contract='', prelude=[],
                  says='ASSUMED: anonymous mmap returns a fresh object of exactly the requested size (failure = termination)'))
UNITS[-1].decl = lambda: ''
UNITS.append(Unit(
    name='FileGraphWriter_phase1', src=FG_C, anchor=r'void FileGraphWriter::phase1\(\)',
    proto='void FileGraphWriter_phase1(struct FileGraph* self)',
    contract='''__CPROVER_requires(__CPROVER_is_fresh(self, sizeof(*self)) && SZ_OK(self->numNodes, self->numEdges, self->sizeofEdge))
__CPROVER_ensures(self->graphVersion == (self->numNodes <= UINT32_MAX ? 1 : 2) && self->nodeOffset == 0 && self->edgeOffset == 0)
__CPROVER_ensures(__CPROVER_OBJECT_SIZE(self->outIdx) == TOTAL(self->numNodes, self->numEdges, self->sizeofEdge, self->graphVersion))
__CPROVER_ensures(OFF(self->outIdx) == IDXOFF && __CPROVER_same_object(self->outs, self->outIdx) && OFF(self->outs) == DSTOFF(self->numNodes))
__CPROVER_ensures(__CPROVER_same_object(self->edgeData, self->outIdx) && OFF(self->edgeData) == DATAOFF(self->numNodes, self->numEdges, self->graphVersion))
__CPROVER_ensures(((uint64_t*)((char*)self->outIdx - 32))[0] == (uint64_t)self->graphVersion && ((uint64_t*)((char*)self->outIdx - 32))[1] == self->sizeofEdge && ((uint64_t*)((char*)self->outIdx - 32))[2] == self->numNodes && ((uint64_t*)((char*)self->outIdx - 32))[3] == self->numEdges)
__CPROVER_assigns(__CPROVER_object_whole(self))''',
    prelude=[SPEC, MMAP], uses=['rawBlockSize', 'gv_mmap'],
    lower=[members(FM_MEM, minimum=9)] + DIE + [casts(3), ren('galois::graphs::rawBlockSize', 'rawBlockSize'),
           rx(r'std::numeric_limits<uint32_t>::max\(\)', 'UINT32_MAX', 1, 1),
           rx(r'mmap\(\s*0, bytes, PROT_READ \| PROT_WRITE, _MAP_ANON \| MAP_PRIVATE, -1, 0\)', 'gv_mmap(bytes)', 1, 1),
           rx(r'mappings\.push_back\(\{mmap_base, bytes\}\);', '', 1, 1)],
    backend='smt', no_flags=['--conversion-check'],
    says='the graph writer maps exactly rawBlockSize bytes, writes the 4-word header, and places the out index, the destinations and the edge data at the offsets of the documented layout (version 1 iff numNodes fits 32 bits)'))

# OfflineGraph (reader): the three file positions.  The functions do stream
# I/O after computing `pos`; the body is SLICED after that computation (rule
# S-slice) and returns it.
OGP = SPEC + 'struct OfflineGraph { uint64_t numNodes, numEdges, sizeEdgeData; bool v2; } og;\ntypedef int64_t gv_streamoff;\n'
for nm, anchor, proto, post, slice_at, args in [
        ('OfflineGraph_outIndexs_pos', r'uint64_t outIndexs\(uint64_t node\)', 'gv_streamoff OfflineGraph_outIndexs_pos(uint64_t node)',
         '(uint64_t)__CPROVER_return_value == IDXOFF + 8 * node', r'(std::streamoff pos = \(4 \+ node\) \* sizeof\(uint64_t\);).*', 'node <= ((uint64_t)1 << 40)'),
        ('OfflineGraph_outEdges_pos', r'uint64_t outEdges\(uint64_t edge\)', 'gv_streamoff OfflineGraph_outEdges_pos(uint64_t edge)',
         '(uint64_t)__CPROVER_return_value == DSTOFF(og.numNodes) + W(og.v2 ? 2 : 1) * edge', r'(std::streamoff pos = [^;]*;).*', 'edge <= ((uint64_t)1 << 40)'),
        ('OfflineGraph_edgeData_pos', r'T edgeData\(uint64_t edge\)', 'gv_streamoff OfflineGraph_edgeData_pos(uint64_t edge)',
         '(uint64_t)__CPROVER_return_value == DATAOFF(og.numNodes, og.numEdges, og.v2 ? 2 : 1) + og.sizeEdgeData * edge', r'(std::streamoff pos = [^;]*;.*?pos \+= edge \* sizeEdgeData;).*', 'edge <= ((uint64_t)1 << 40)')]:
    UNITS.append(Unit(
        name=nm, src=OFF_H, within=r'class OfflineGraph\b', anchor=anchor, proto=proto,
        contract='__CPROVER_requires(SZ_OK(og.numNodes, og.numEdges, og.sizeEdgeData) && %s)\n__CPROVER_ensures(%s)\n__CPROVER_assigns()' % (args, post),
        prelude=[OGP],
        lower=[rx(r'assert\(sizeof\(T\) <= sizeEdgeData\);', '', 0), rx(r'std::lock_guard<decltype\(lock\)> lg\(lock\);', '', 1, 1),
               rx(slice_at, r'\1 return pos;', 1, 1, flags=re.S), rx(r'std::streamoff', 'gv_streamoff', 1, 1),
               members(['numNodes', 'numEdges', 'sizeEdgeData', 'v2'], self='og', arrow='.', minimum=0)],
        backend='smt', no_flags=['--conversion-check'],
        says='offline (seek-and-read) reader: file position of %s = the documented layout' % nm.split('_')[1],
        trusted=['S-slice: the body is cut after the position computation; the stream I/O that follows is dropped']))

# OfflineGraph (reader), WHOLE bodies with a stream stub: the value is read AT the documented position, whatever the cached
# location was, and the cache `loc*` keeps tracking the real stream position (class invariant of the seek optimisation)
OGS = SPEC + '''
typedef int64_t gv_streamoff;
struct Stream { gv_streamoff pos; gv_streamoff last_read_at; gv_streamoff gcount; };      /* an ifstream: its position; where the last read() started; gcount() */
struct OfflineGraphS { uint64_t numNodes, numEdges, sizeEdgeData; bool v2; struct Stream fileEdgeDst, fileIndex, fileEdgeData; gv_streamoff locEdgeDst, locIndex, locEdgeData;
                       uint64_t numSeeksEdgeDst, numSeeksIndex, numSeeksEdgeData, numBytesReadEdgeDst, numBytesReadIndex, numBytesReadEdgeData; } og;
static inline void stream_seekg(struct Stream* s, gv_streamoff p) { s->pos = p; }
/* read(n): succeeds completely (short reads / I/O errors are out of scope) */
static inline void stream_read(struct Stream* s, gv_streamoff n) { s->last_read_at = s->pos; s->pos += n; s->gcount = n; }
#define OG_SHAPE (SZ_OK(og.numNodes, og.numEdges, og.sizeEdgeData) && og.numSeeksEdgeDst < ((uint64_t)1 << 60) && og.numSeeksIndex < ((uint64_t)1 << 60) && og.numSeeksEdgeData < ((uint64_t)1 << 60) && og.numBytesReadEdgeDst < ((uint64_t)1 << 60) && og.numBytesReadIndex < ((uint64_t)1 << 60) && og.numBytesReadEdgeData < ((uint64_t)1 << 60))
'''
OG_MEM = ['numNodes', 'numEdges', 'sizeEdgeData', 'v2', 'fileEdgeDst', 'fileIndex', 'fileEdgeData', 'locEdgeDst', 'locIndex', 'locEdgeData', 'numSeeksEdgeDst', 'numSeeksIndex', 'numSeeksEdgeData', 'numBytesReadEdgeDst', 'numBytesReadIndex', 'numBytesReadEdgeData']
OG_LOWER = [rx(r'assert\(sizeof\(T\) <= sizeEdgeData\);', '__CPROVER_assert(sizeof(T) <= sizeEdgeData, "code-assert: sizeof(T) <= sizeEdgeData");', 0), rx(r'std::lock_guard<decltype\(lock\)> lg\(lock\);', '', 1, 1), rx(r'std::streamoff', 'gv_streamoff', 1),
            rx(r'try \{(.*?)\} catch \(const std::ifstream::failure& e\) \{.*?\n\s*\}', r'\1', 1, flags=re.S),
            rx(r'(\w+)\.seekg\(pos, \w+\.beg\);', r'stream_seekg(&\1, pos);', 1), rx(r'(\w+)\.read\(reinterpret_cast<char\*>\(&retval\), sizeof\((\w+)\)\);', r'stream_read(&\1, (gv_streamoff)sizeof(\2));', 1),
            rx(r'auto numBytesRead = (\w+)\.gcount\(\);', r'gv_streamoff numBytesRead = \1.gcount;', 1), rx(r'assert\(numBytesRead == sizeof\((\w+)\)\);', r'__CPROVER_assert(numBytesRead == (gv_streamoff)sizeof(\1), "code-assert: numBytesRead == sizeof(...)");', 1),
            rx(r'(?<![\w.>])T retval;', 'T retval = 0;', 0), rx(r'uint(64|32)_t retval;', r'uint\1_t retval = 0;', 0), members(OG_MEM, self='og', arrow='.', minimum=4)]
for nm, anchor, proto, strm, loc, posexpr, width, extra in [
        ('OfflineGraph_outIndexs_stream', r'uint64_t outIndexs\(uint64_t node\)', 'uint64_t OfflineGraph_outIndexs_stream(uint64_t node)', 'fileEdgeDst', 'locEdgeDst', 'IDXOFF + 8 * node', '8', 'node <= ((uint64_t)1 << 40)'),
        ('OfflineGraph_outEdges_stream', r'uint64_t outEdges\(uint64_t edge\)', 'uint64_t OfflineGraph_outEdges_stream(uint64_t edge)', 'fileIndex', 'locIndex', 'DSTOFF(og.numNodes) + W(og.v2 ? 2 : 1) * edge', 'W(og.v2 ? 2 : 1)', 'edge <= ((uint64_t)1 << 40)'),
        ('OfflineGraph_edgeData_stream', r'T edgeData\(uint64_t edge\)', 'uint32_t OfflineGraph_edgeData_stream(uint64_t edge)', 'fileEdgeData', 'locEdgeData', 'DATAOFF(og.numNodes, og.numEdges, og.v2 ? 2 : 1) + og.sizeEdgeData * edge', '4', 'edge <= ((uint64_t)1 << 40) && og.sizeEdgeData >= 4 && (og.sizeEdgeData == 4 || og.sizeEdgeData == 8)')]:
    UNITS.append(Unit(
        name=nm, src=OFF_H, within=r'class OfflineGraph\b', anchor=anchor, proto=proto,
        contract='''__CPROVER_requires(OG_SHAPE && %s && og.%s.pos == og.%s && og.%s >= 0 && og.%s <= ((gv_streamoff)1 << 60))
/* the read starts at the documented position whatever the cached location was; exactly the entry's bytes are read; the cache tracks the stream again */
__CPROVER_ensures((uint64_t)og.%s.last_read_at == %s && og.%s.pos == og.%s && (uint64_t)og.%s == %s + %s)
__CPROVER_assigns(og.%s, og.%s, og.numSeeksEdgeDst, og.numSeeksIndex, og.numSeeksEdgeData, og.numBytesReadEdgeDst, og.numBytesReadIndex, og.numBytesReadEdgeData)''' % (extra, strm, loc, loc, loc, strm, posexpr, strm, loc, loc, posexpr, width, strm, loc),
        prelude=[OGS, 'typedef uint32_t T;   /* edgeData<T>: T = uint32_t */\n'], lower=OG_LOWER, backend='smt', no_flags=['--conversion-check'], timeout=600,
        inst='edge data type uint32_t (edgeData); edge-data widths 4 or 8' if 'edgeData' in nm else '',
        says='offline (seek-and-read) reader, whole body: the entry is read at its documented file position for every cached location (seek only when needed), exactly its bytes are consumed, and the cached location equals the stream position afterwards',
        trusted=['ifstream as (position, gcount): read() of n bytes succeeds completely; try/catch around read dropped']))

# OfflineGraphWriter: always writes 64-bit destinations (version 2 layout)
OWP = SPEC + 'struct OfflineGraphWriter { uint64_t numNodes, numEdges; bool smallData; } ow;\ntypedef int64_t gv_streamoff;\n'
for nm, anchor, post in [
        ('OfflineGraphWriter_offsetOfDst', r'std::streamoff offsetOfDst\(uint64_t edge\)', '(uint64_t)__CPROVER_return_value == DSTOFF(ow.numNodes) + 8 * edge'),
        ('OfflineGraphWriter_offsetOfData', r'std::streamoff offsetOfData\(uint64_t edge\)', '(uint64_t)__CPROVER_return_value == DATAOFF(ow.numNodes, ow.numEdges, 2) + (ow.smallData ? 4 : 8) * edge')]:
    UNITS.append(Unit(
        name=nm, src=OFF_H, within=r'class OfflineGraphWriter\b', anchor=anchor, proto='gv_streamoff %s(uint64_t edge)' % nm,
        contract='__CPROVER_requires(SZ_OK(ow.numNodes, ow.numEdges, 8) && edge <= ((uint64_t)1 << 40))\n__CPROVER_ensures(%s)\n__CPROVER_assigns()' % post,
        prelude=[OWP], lower=[members(['numNodes', 'numEdges', 'smallData'], self='ow', arrow='.', minimum=1)],
        backend='smt', no_flags=['--conversion-check'],
        says='offline writer (64-bit destinations): %s = the version-2 layout (float or double edge data)' % nm.split('_')[1]))

# Endian.h
for W_, T in [(32, 'uint32_t'), (64, 'uint64_t')]:
    spec = ('((x << 24) & 0xff000000u) | ((x << 8) & 0x00ff0000u) | ((x >> 8) & 0x0000ff00u) | ((x >> 24) & 0x000000ffu)' if W_ == 32 else
            '((x << 56) & 0xff00000000000000UL) | ((x << 40) & 0x00ff000000000000UL) | ((x << 24) & 0x0000ff0000000000UL) | ((x << 8) & 0x000000ff00000000UL) | ((x >> 8) & 0x00000000ff000000UL) | ((x >> 24) & 0x0000000000ff0000UL) | ((x >> 40) & 0x000000000000ff00UL) | ((x >> 56) & 0x00000000000000ffUL)')
    UNITS.append(Unit(
        name='bswap%d' % W_, src=END_H, anchor=r'static inline %s bswap%d\(%s x\)' % (T, W_, T), proto='%s gv_bswap%d(%s x)' % (T, W_, T),
        contract='__CPROVER_ensures(__CPROVER_return_value == (%s)(%s))\n__CPROVER_assigns()' % (T, spec),
        says='bswap%d reverses the bytes (the compiler-builtin branch, which is the one compiled here, against the shift/mask definition), all 2^%d values' % (W_, W_)))
    for fn in ['convert_le%dtoh' % W_, 'convert_htole%d' % W_]:
        UNITS.append(Unit(
            name=fn, src=END_H, anchor=r'static inline %s %s\(%s x\)' % (T, fn, T), proto='%s gv_%s(%s x)' % (T, fn, T),
            contract='__CPROVER_ensures(__CPROVER_return_value == x)\n__CPROVER_assigns()', lower=[rx(r'(?<![\w])bswap%d\(' % W_, 'gv_bswap%d(' % W_, 0)],
            prelude=['%s gv_bswap%d(%s x);\n' % (T, W_, T)],
            says='%s is the identity on this (little-endian) host, so le->host after host->le is the identity' % fn))



# ---- partFromFile: the section windows a partial reader maps (S-slice: the offset arithmetic between fromMem and the NUMA code) ----
PFP = '''
uint64_t g_off[3], g_lenv[3]; unsigned g_loads;     /* ghost: (offset, length) of the loadFromOffset calls, in order */
static inline void* loadFromOffset_rec(uint64_t offset, uint64_t length) { if (g_loads < 3) { g_off[g_loads] = offset; g_lenv[g_loads] = length; } g_loads++; return (void*)0; }
'''
UNITS.append(Unit(name='rawBlockSize_spec', kind='assumed', proto='size_t rawBlockSize_spec(size_t numNodes, size_t numEdges, size_t sizeofEdgeData, int graphVersion)',
                  contract='__CPROVER_requires(SZ_OK(numNodes, numEdges, sizeofEdgeData) && (graphVersion == 1 || graphVersion == 2))\n__CPROVER_ensures(__CPROVER_return_value == TOTAL(numNodes, numEdges, sizeofEdgeData, graphVersion))\n__CPROVER_assigns()',
                  prelude=[SPEC], says='the contract proved by the unit rawBlockSize'))
UNITS.append(Unit(
    name='FileGraph_partFromFile_windows', src=FG_C, anchor=r'void FileGraph::partFromFile\(const std::string& filename, NodeRange nrange,',
    proto='void FileGraph_partFromFile_windows(struct FileGraph* self, uint64_t nfirst, uint64_t nlast, uint64_t efirst, uint64_t elast)',
    contract="""__CPROVER_requires(__CPROVER_is_fresh(self, sizeof(*self)) && (self->graphVersion == 1 || self->graphVersion == 2) && SZ_OK(self->numNodes, self->numEdges, self->sizeofEdge) && g_loads == 0)
/* state after fromMem(base, *nrange.first, *erange.first, 0): whole-graph metadata, offsets of the part */
__CPROVER_requires(nfirst <= nlast && nlast <= self->numNodes && efirst <= elast && elast <= self->numEdges && self->nodeOffset == nfirst && self->edgeOffset == efirst && g_n0 == self->numNodes && g_m0 == self->numEdges && g_s0 == self->sizeofEdge && (g_s0 == 0 || g_s0 == 1 || g_s0 == 4 || g_s0 == 8 || g_s0 == 16))
/* the three windows: index entries / destinations / edge data of exactly this part, at the documented positions of the WHOLE file */
__CPROVER_ensures(g_loads == (g_s0 ? 3u : 2u))
__CPROVER_ensures(g_off[0] == IDXOFF + 8 * nfirst && g_lenv[0] == 8 * (nlast - nfirst))
__CPROVER_ensures(g_off[1] == DSTOFF(g_n0) + W(self->graphVersion) * efirst && g_lenv[1] == W(self->graphVersion) * (elast - efirst))
__CPROVER_ensures(g_s0 != 0 ==> (g_off[2] == DATAOFF(g_n0, g_m0, self->graphVersion) + g_s0 * efirst && g_lenv[2] == g_s0 * (elast - efirst)))
__CPROVER_ensures(self->numNodes == nlast - nfirst && self->numEdges == elast - efirst)
__CPROVER_assigns(__CPROVER_object_whole(self), __CPROVER_object_whole(g_off), __CPROVER_object_whole(g_lenv), g_loads)""",
    prelude=[SPEC, PFP, 'uint64_t g_n0, g_m0, g_s0;   /* ghost: whole-graph node count, edge count, edge-data width */\n'], uses=['rawBlockSize_spec'],
    lower=[rx(r'\A.*?(?=uint64_t partNumNodes)', 'size_t headerSize = 4 * sizeof(uint64_t);\n', 1, 1, flags=re.S),
           rx(r'\n\s*if \(numaMap\) \{.*\Z', '\n', 1, 1, flags=re.S),
           rx(r'std::distance\(nrange\.first, nrange\.second\)', '(nlast - nfirst)', 1, 1), rx(r'std::distance\(erange\.first, erange\.second\)', '(elast - efirst)', 1, 1),
           rx(r'offset_t offset', 'uint64_t offset', 1, 1), rx(r'loadFromOffset\(fd, offset, length, mappings\)', 'loadFromOffset_rec(offset, length)', 3), casts(0),
           rx(r'(?<![\w.>])rawBlockSize\(', 'rawBlockSize_spec(', 1, 1), members(FM_MEM, minimum=5)] + DIE,
    no_flags=['--conversion-check'], timeout=900, inst='edge-data widths 0, 1, 4, 8, 16 bytes (a symbolic width times a symbolic offset is out of solver reach)',
    says='partFromFile: the index, destination and edge-data windows that are mapped for a part are exactly the part\'s entries at the documented positions of the whole file (both versions, any edge-data width, odd edge counts), and the metadata is reduced to the part',
    trusted=['S-slice: open/mmap of the header and the NUMA page-interleaving tail are cut; loadFromOffset records (offset, length)', 'rawBlockSize replaced by its proved contract']))

EXPLANATION = ('rawBlockSize, FileGraph::fromMem (the reader behind fromFile/fromArrays/partFromFile), FileGraphWriter::phase1, the three seek positions of the offline reader, '
               'the two offsets of the offline writer and the Endian.h helpers are extracted from /repo, lowered to C and proved to compute the section offsets of ONE spec of the documented '
               'binary layout, for both format versions, every edge-data width <= 1024 and odd as well as even edge counts (sizes <= 2^40): writer offsets = reader offsets, so every section '
               'the writer fills is the section the reader decodes.')
NOT_DECIDED = ('partFromFile beyond its window arithmetic (open/mmap, NUMA interleaving); ' +
               'text parsers and the transforming conversions of graph-convert (string/stream code); actual I/O; FileGraph::fromArrays / toFile write loops; partFromFile; '
               'OCFileGraph::load; BufferedGraph; LC_CSR_Graph::readGraphFromGRFile; FileGraphWriter::phase2 prefix sum; big-endian hosts.')
ASSUMPTIONS = ['host is little-endian (convert_le*toh / convert_htole* proved to be the identity for this configuration and used as such)',
               'mmap returns a fresh object of the requested size (assumed contract gv_mmap); GALOIS_DIE terminates',
               'S-slice for the offline reader: only the position computation is verified, the stream I/O after it is dropped',
               'sizes: numNodes, numEdges <= 2^40, sizeof edge data <= 1024']
