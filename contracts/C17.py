"""C17 (first half only) -- serialisation round trip for memory-copyable data.
libdist/include/galois/runtime/Serialize.h: SerializeBuffer / DeSerializeBuffer primitives, gSerializeObj / gDeserializeObj
for memory-copyable scalars, gSerializeLinearSeq / gDeserializeLinearSeq for PODResizeableArray<uint64_t> (both the aligned
and the unaligned branch), and ROUND-TRIP lemmas in which every callee down to realloc is the extracted real code
(the PODResizeableArray bodies of contracts/C14_pra.py are inlined: PODResizeableArray<uint8_t> is the buffer,
PODResizeableArray<uint64_t> the sequence).  The network half of C17 (delivery, ordering, MPI) is not decided."""
import re
from gv.unit import Unit
from gv.lower import (bind, ren, members, refs, call, fcall, index, stdfn, mkpair, casts, drop, dropcall, rx)
from contracts import C14_pra

SER = 'libdist/include/galois/runtime/Serialize.h'
PU = {u.name: u for u in C14_pra.UNITS}
IMPORTED = list(C14_pra.UNITS)
UNITS = []
P8 = C14_pra.prelude('uint8_t', '_u8')
P64 = C14_pra.prelude('uint64_t', '_u64')
CP = '''
struct SBuf { struct PRA_u8 bufdata; };
struct DBuf { struct PRA_u8 bufdata; int offset; };
size_t g_b;      /* ghost probe BYTE index */
#define MAXB ((size_t)1 << 30)    /* DeSerializeBuffer::offset is an int: nothing is claimed beyond 2^30 bytes */
#define SB_OK(b) (__CPROVER_is_fresh(b, sizeof(*(b))) && PRA_SHAPE_u8(&(b)->bufdata) && (b)->bufdata.capacity_ <= 2 * MAXB && ((b)->bufdata.capacity_ == 0 ? (b)->bufdata.data_ == (pod_t_u8*)0 : __CPROVER_is_fresh((b)->bufdata.data_, (b)->bufdata.capacity_)))
#define DB_OK(b) (SB_OK(b) && (b)->offset >= 0 && (size_t)(b)->offset <= (b)->bufdata.size_)
'''
BUFM = members(['bufdata', 'offset'], minimum=0)
# bufdata.f(args) -> PRA_f_u8(&self->bufdata, args): the real PODResizeableArray<uint8_t> bodies, inlined
PRA_CALLS = [rx(r'(?<![\w.>])bufdata\.(insert|resize|reserve|push_back|at|begin|end|size|empty|data|swap)\(\)', r'PRA_\1_u8(&bufdata)', 0),
             rx(r'(?<![\w.>])bufdata\.(insert|resize|reserve|push_back|at|begin|end|size|empty|data|swap)\(', r'PRA_\1_u8(&bufdata, ', 0),
             rx(r'(?<![\w.>])bufdata\.c(begin|end)\(\)', r'PRA_\1_u8(&bufdata)', 0),
             rx(r'&bufdata\[([^\]]+)\]', r'PRA_index_u8(&bufdata, \1)', 0), rx(r'(?<![\w.>&])bufdata\[([^\]]+)\]', r'(*PRA_index_u8(&bufdata, \1))', 0),
             rx(r'std::copy_n\(', 'gv_copy_n_u8(', 0), rx(r'(?<![\w.>])memcpy\(', 'gv_memcpy_u8(', 0)]
INL_ALL = ['PRA_reserve_u8', 'PRA_resize_u8', 'PRA_begin_u8', 'PRA_end_u8', 'PRA_insert_u8', 'PRA_index_u8', 'PRA_size_u8', 'PRA_data_u8']
ASG = '__CPROVER_assigns(__CPROVER_object_whole(self); self->bufdata.data_ != (pod_t_u8*)0: __CPROVER_object_whole(self->bufdata.data_))'
NOF = ['--conversion-check', '--pointer-overflow-check']


def S(name, within, anchor, proto, contract, says, inl=(), extra=(), prelude=None, bufm=None, **kw):
    UNITS.append(Unit(name=name, src=SER, within=within, anchor=anchor, proto=proto, contract=contract, prelude=prelude or [P8, CP], inline=list(inl),
                      lower=list(extra) + PRA_CALLS + [bufm or BUFM, casts(0)], no_flags=NOF, says=says, **kw))


SW = r'class SerializeBuffer\b'
DW = r'class DeSerializeBuffer\b'
S('SerializeBuffer_insert', SW, r'void insert\(const uint8_t\* c, size_t bytes\)', 'void SerializeBuffer_insert(struct SBuf* self, const uint8_t* c, size_t bytes)',
  '''__CPROVER_requires(SB_OK(self) && bytes <= MAXB && self->bufdata.size_ <= MAXB && __CPROVER_is_fresh(c, bytes + 1) && (g_k < self->bufdata.size_ ==> self->bufdata.data_[g_k] == g_kv_u8))
__CPROVER_ensures(self->bufdata.size_ == __CPROVER_old(self->bufdata.size_) + bytes)
__CPROVER_ensures(g_c_u8 < bytes ==> self->bufdata.data_[__CPROVER_old(self->bufdata.size_) + g_c_u8] == c[g_c_u8])
__CPROVER_ensures(g_k < __CPROVER_old(self->bufdata.size_) ==> self->bufdata.data_[g_k] == g_kv_u8)
''' + ASG,
  'insert(c, bytes): exactly those bytes are appended in order, everything before them kept', inl=['PRA_reserve_u8', 'PRA_resize_u8', 'PRA_begin_u8', 'PRA_end_u8', 'PRA_insert_u8'])
S('SerializeBuffer_insertAt', SW, r'void insertAt\(const uint8_t\* c, size_t bytes, size_t offset\)', 'void SerializeBuffer_insertAt(struct SBuf* self, const uint8_t* c, size_t bytes, size_t offset)',
  '''__CPROVER_requires(SB_OK(self) && bytes <= MAXB && offset <= self->bufdata.size_ && bytes <= self->bufdata.size_ - offset && __CPROVER_is_fresh(c, bytes + 1) && (g_k < self->bufdata.size_ ==> self->bufdata.data_[g_k] == g_kv_u8))
__CPROVER_ensures(self->bufdata.size_ == __CPROVER_old(self->bufdata.size_) && (g_c_u8 < bytes ==> self->bufdata.data_[offset + g_c_u8] == c[g_c_u8]))
__CPROVER_ensures((g_k < self->bufdata.size_ && (g_k < offset || g_k >= offset + bytes)) ==> self->bufdata.data_[g_k] == g_kv_u8)
''' + ASG,
  'insertAt(c, bytes, offset) inside the buffer: exactly that window is overwritten', inl=['PRA_begin_u8'], bufm=members(['bufdata'], minimum=1))
S('SerializeBuffer_encomber', SW, r'size_t encomber\(size_t bytes\)', 'size_t SerializeBuffer_encomber(struct SBuf* self, size_t bytes)',
  '''__CPROVER_requires(SB_OK(self) && bytes <= MAXB && self->bufdata.size_ <= MAXB && (g_k < self->bufdata.size_ ==> self->bufdata.data_[g_k] == g_kv_u8))
__CPROVER_ensures(__CPROVER_return_value == __CPROVER_old(self->bufdata.size_) && self->bufdata.size_ == __CPROVER_return_value + bytes)
__CPROVER_ensures(g_k < __CPROVER_return_value ==> self->bufdata.data_[g_k] == g_kv_u8)
''' + ASG,
  'encomber(bytes): reserves a window at the end and returns its offset; existing bytes kept', inl=['PRA_reserve_u8', 'PRA_resize_u8', 'PRA_size_u8'])
S('SerializeBuffer_push', SW, r'inline void push\(const char c\)', 'void SerializeBuffer_push(struct SBuf* self, const char c)',
  '''__CPROVER_requires(SB_OK(self) && self->bufdata.size_ < MAXB && (g_k < self->bufdata.size_ ==> self->bufdata.data_[g_k] == g_kv_u8))
__CPROVER_ensures(self->bufdata.size_ == __CPROVER_old(self->bufdata.size_) + 1 && self->bufdata.data_[self->bufdata.size_ - 1] == (uint8_t)c)
__CPROVER_ensures(g_k < self->bufdata.size_ - 1 ==> self->bufdata.data_[g_k] == g_kv_u8)
''' + ASG,
  'push(c): one byte appended', inl=['PRA_reserve_u8', 'PRA_resize_u8', 'PRA_push_back_u8'],
  extra=[rx(r'bufdata\.push_back\(c\)', '{ const pod_t_u8 c8_ = (pod_t_u8)c; PRA_push_back_u8(&bufdata, &c8_); }', 1, 1)])
S('DeSerializeBuffer_extract', DW, r'void extract\(uint8_t\* dst, size_t num\)', 'void DeSerializeBuffer_extract(struct DBuf* self, uint8_t* dst, size_t num)',
  '''__CPROVER_requires(DB_OK(self) && self->bufdata.size_ <= MAXB && num <= self->bufdata.size_ - (size_t)self->offset && __CPROVER_is_fresh(dst, num + 1))
__CPROVER_ensures(self->offset == __CPROVER_old(self->offset) + (int)num && (g_c_u8 < num ==> dst[g_c_u8] == self->bufdata.data_[(size_t)__CPROVER_old(self->offset) + g_c_u8]))
__CPROVER_assigns(self->offset, __CPROVER_object_whole(dst))''',
  'extract(dst, num): the next num bytes are copied out in order and the offset advances by exactly num', inl=['PRA_index_u8'],
  extra=[rx(r'&bufdata\[offset\]', 'PRA_index_u8(&bufdata, (size_t)offset)', 1, 1), rx(r'offset \+= ([^;]+);', r'offset += (int)(\1);', 1, 1)])
S('DeSerializeBuffer_pop', DW, r'unsigned char pop\(\)', 'unsigned char DeSerializeBuffer_pop(struct DBuf* self)',
  '''__CPROVER_requires(DB_OK(self) && self->bufdata.size_ <= MAXB && (size_t)self->offset < self->bufdata.size_ && !g_thrown)
__CPROVER_ensures(!g_thrown && self->offset == __CPROVER_old(self->offset) + 1 && __CPROVER_return_value == self->bufdata.data_[__CPROVER_old(self->offset)])
__CPROVER_assigns(self->offset, g_thrown)''',
  'pop(): the next byte, offset + 1', inl=['PRA_at_u8'], extra=[rx(r'return bufdata\.at\(offset\+\+\);', 'return *PRA_at_u8(&bufdata, (size_t)(offset++));', 1, 1)])
S('DeSerializeBuffer_r_size', DW, r'size_t r_size\(\) const', 'size_t DeSerializeBuffer_r_size(struct DBuf* self)',
  '__CPROVER_requires(DB_OK(self))\n__CPROVER_ensures(__CPROVER_return_value == self->bufdata.size_ - (size_t)self->offset)\n__CPROVER_assigns()', 'r_size() = bytes not yet consumed', inl=['PRA_size_u8'])
S('DeSerializeBuffer_setOffset', DW, r'void setOffset\(unsigned off\)', 'void DeSerializeBuffer_setOffset(struct DBuf* self, unsigned off)',
  '__CPROVER_requires(DB_OK(self) && self->bufdata.size_ <= MAXB && off <= self->bufdata.size_)\n__CPROVER_ensures(self->offset == (int)off)\n__CPROVER_assigns(self->offset)', 'setOffset within the buffer (its own assertion holds)',
  inl=['PRA_size_u8'], extra=[rx(r'assert\(off <= size\(\)\);', '__CPROVER_assert(off <= (unsigned)PRA_size_u8(&bufdata), "code-assert: off <= size()");', 1, 1), rx(r'offset = off;', 'offset = (int)off;', 1, 1)])

# ---- memory-copyable scalars -------------------------------------------------------------------------------------
GW = None
for T, sfx in (('uint64_t', 'u64'), ('uint32_t', 'u32'), ('uint8_t', 'u8b'), ('double', 'f64')):
    UNITS.append(Unit(
        name='gSerializeObj_' + sfx, src=SER, anchor=r'inline void gSerializeObj\(\s*SerializeBuffer& buf, const T& data,\s*typename std::enable_if<is_memory_copyable<T>::value>::type\* = 0\)',
        proto='void gSerializeObj_%s(struct SBuf* buf, const %s* data_p)' % (sfx, T),
        contract='''__CPROVER_requires(SB_OK(buf) && buf->bufdata.size_ <= MAXB && __CPROVER_is_fresh(data_p, sizeof(%s)) && (g_k < buf->bufdata.size_ ==> buf->bufdata.data_[g_k] == g_kv_u8))
__CPROVER_ensures(buf->bufdata.size_ == __CPROVER_old(buf->bufdata.size_) + sizeof(%s))
__CPROVER_ensures(g_c_u8 < sizeof(%s) ==> buf->bufdata.data_[__CPROVER_old(buf->bufdata.size_) + g_c_u8] == ((const uint8_t*)data_p)[g_c_u8])
__CPROVER_ensures(g_k < __CPROVER_old(buf->bufdata.size_) ==> buf->bufdata.data_[g_k] == g_kv_u8)
__CPROVER_assigns(__CPROVER_object_whole(buf); buf->bufdata.data_ != (pod_t_u8*)0: __CPROVER_object_whole(buf->bufdata.data_))''' % (T, T, T),
        prelude=[P8, CP], inline=['PRA_reserve_u8', 'PRA_resize_u8', 'PRA_begin_u8', 'PRA_end_u8', 'PRA_insert_u8', 'SerializeBuffer_insert'],
        lower=[rx(r'\(uint8_t\*\)&data', '(const uint8_t*)data_p', 1, 1), rx(r'uint8_t\* pdata', 'const uint8_t* pdata', 1, 1), rx(r'buf\.insert\(', 'SerializeBuffer_insert(buf, ', 1), rx(r'sizeof\(T\)', 'sizeof(%s)' % T, 1)],
        no_flags=NOF, inst='T = %s' % T, says='gSerializeObj(buf, x) for a memory-copyable x: exactly the sizeof(T) bytes of x are appended, everything before kept'))
    UNITS.append(Unit(
        name='gDeserializeObj_' + sfx, src=SER, anchor=r'void gDeserializeObj\(\s*DeSerializeBuffer& buf, T& data,\s*typename std::enable_if<is_memory_copyable<T>::value>::type\* = 0\)',
        proto='void gDeserializeObj_%s(struct DBuf* buf, %s* data_p)' % (sfx, T),
        contract='''__CPROVER_requires(DB_OK(buf) && buf->bufdata.size_ <= MAXB && sizeof(%s) <= buf->bufdata.size_ - (size_t)buf->offset && __CPROVER_is_fresh(data_p, sizeof(%s)))
__CPROVER_ensures(buf->offset == __CPROVER_old(buf->offset) + (int)sizeof(%s) && (g_c_u8 < sizeof(%s) ==> ((const uint8_t*)data_p)[g_c_u8] == buf->bufdata.data_[(size_t)__CPROVER_old(buf->offset) + g_c_u8]))
__CPROVER_assigns(buf->offset, __CPROVER_object_whole(data_p))''' % (T, T, T, T),
        prelude=[P8, CP], inline=['PRA_index_u8', 'DeSerializeBuffer_extract'],
        lower=[rx(r'\(uint8_t\*\)&data', '(uint8_t*)data_p', 1, 1), rx(r'buf\.extract\(', 'DeSerializeBuffer_extract(buf, ', 1, 1), rx(r'sizeof\(T\)', 'sizeof(%s)' % T, 1)],
        no_flags=NOF, inst='T = %s' % T, says='gDeserializeObj(buf, x) for a memory-copyable x: x receives the next sizeof(T) bytes and the offset advances by exactly sizeof(T)'))


# ---- sequences of memory-copyable elements: Seq = PODResizeableArray<uint64_t> --------------------------------------
SEQP = [P8, P64, CP, 'size_t g_n;   /* ghost: element count of the sequence */\n']
SEQ_INL8 = ['PRA_reserve_u8', 'PRA_resize_u8', 'PRA_begin_u8', 'PRA_end_u8', 'PRA_insert_u8', 'PRA_index_u8', 'PRA_size_u8', 'SerializeBuffer_insert', 'DeSerializeBuffer_extract']
UNITS.append(Unit(
    name='gSerializeLinearSeq_pra64', src=SER, anchor=r'void gSerializeLinearSeq\(SerializeBuffer& buf, const Seq& seq\)', proto='void gSerializeLinearSeq_pra64(struct SBuf* buf, struct PRA_u64* seq)',
    contract="""__CPROVER_requires(SB_OK(buf) && buf->bufdata.size_ <= MAXB && PRA_OK_u64(seq) && seq->capacity_ >= 1 && seq->size_ <= (MAXB >> 4) && (g_k < buf->bufdata.size_ ==> buf->bufdata.data_[g_k] == g_kv_u8) && g_k2 == buf->bufdata.size_ + g_c_u8)
/* layout: the element count as a size_t, then the elements' bytes in order */
__CPROVER_ensures(buf->bufdata.size_ == __CPROVER_old(buf->bufdata.size_) + sizeof(size_t) + seq->size_ * sizeof(uint64_t))
__CPROVER_ensures(g_c_u8 < sizeof(size_t) ==> buf->bufdata.data_[__CPROVER_old(buf->bufdata.size_) + g_c_u8] == ((const uint8_t*)&seq->size_)[g_c_u8])
__CPROVER_ensures(g_c_u8 < seq->size_ * sizeof(uint64_t) ==> buf->bufdata.data_[__CPROVER_old(buf->bufdata.size_) + sizeof(size_t) + g_c_u8] == ((const uint8_t*)seq->data_)[g_c_u8])
__CPROVER_ensures(g_k < __CPROVER_old(buf->bufdata.size_) ==> buf->bufdata.data_[g_k] == g_kv_u8)
__CPROVER_assigns(__CPROVER_object_whole(buf); buf->bufdata.data_ != (pod_t_u8*)0: __CPROVER_object_whole(buf->bufdata.data_))""",
    prelude=SEQP, inline=SEQ_INL8 + ['PRA_size_u64', 'PRA_data_u64', 'gSerializeObj_u64'],
    lower=[rx(r'typename Seq::size_type size = seq\.size\(\);', 'size_t size = PRA_size_u64(seq);', 1, 1), rx(r'typedef typename Seq::value_type T;', 'typedef uint64_t T;', 1, 1),
           rx(r'gSerializeObj\(buf, size\);', 'gSerializeObj_u64(buf, (const uint64_t*)&size);', 1, 1), rx(r'buf\.insert\(\(uint8_t\*\)seq\.data\(\), ', 'SerializeBuffer_insert(buf, (const uint8_t*)PRA_data_u64(seq), ', 1, 1)],
    no_flags=NOF, inst='Seq = galois::PODResizeableArray<uint64_t> (size_type = size_t)', timeout=600,
    says='gSerializeLinearSeq: the element count (8 bytes) followed by exactly the bytes of the elements, in order, is appended; everything before kept',
    trusted=['an empty sequence WITHOUT a block (data() == NULL) is excluded: NULL - NULL / NULL + 0 are defined in C++ but rejected by CBMC\'s C semantics']))


S('DeSerializeBuffer_getOffset', DW, r'unsigned getOffset\(\) const', 'unsigned DeSerializeBuffer_getOffset(struct DBuf* self)',
  '__CPROVER_requires(DB_OK(self))\n__CPROVER_ensures(__CPROVER_return_value == (unsigned)self->offset)\n__CPROVER_assigns()', 'getOffset()')
S('DeSerializeBuffer_r_linearData', DW, r'const uint8_t\* r_linearData\(\) const', 'const uint8_t* DeSerializeBuffer_r_linearData(struct DBuf* self)',
  '__CPROVER_requires(DB_OK(self) && (size_t)self->offset < self->bufdata.size_)\n__CPROVER_ensures(__CPROVER_return_value == &self->bufdata.data_[self->offset])\n__CPROVER_assigns()', 'r_linearData() = first unconsumed byte',
  inl=['PRA_index_u8'], extra=[rx(r'&bufdata\[offset\]', 'PRA_index_u8(&bufdata, (size_t)offset)', 1, 1)])
S('DeSerializeBuffer_atAlignment', DW, r'bool atAlignment\(size_t a\)', 'bool DeSerializeBuffer_atAlignment(struct DBuf* self, size_t a)',
  '__CPROVER_requires(DB_OK(self) && (size_t)self->offset < self->bufdata.size_ && a >= 1 && a <= 16 && (a & (a - 1)) == 0)\n__CPROVER_ensures(__CPROVER_return_value == (((uintptr_t)&self->bufdata.data_[self->offset]) % a == 0))\n__CPROVER_assigns()',
  'atAlignment(a) <=> the address of the first unconsumed byte is a multiple of a (a = alignof(T): a power of two <= 16)', inl=['PRA_index_u8', 'DeSerializeBuffer_r_linearData'],
  extra=[rx(r'(?<![\w.>])r_linearData\(\)', 'DeSerializeBuffer_r_linearData(self)', 1, 1)])
# DeSerializeBuffer(SerializeBuffer&& buf): takes the serialize buffer's block
UNITS.append(Unit(
    name='DeSerializeBuffer_from_SerializeBuffer', src=SER, within=DW, anchor=r'explicit DeSerializeBuffer\(SerializeBuffer&& buf\) : offset\(0\)', proto='void DeSerializeBuffer_from_SerializeBuffer(struct DBuf* self, struct SBuf* buf)',
    contract="""__CPROVER_requires(__CPROVER_is_fresh(self, sizeof(*self)) && __CPROVER_is_fresh(buf, sizeof(*buf)))
__CPROVER_ensures(self->offset == 0 && self->bufdata.data_ == __CPROVER_old(buf->bufdata.data_) && self->bufdata.size_ == __CPROVER_old(buf->bufdata.size_) && self->bufdata.capacity_ == __CPROVER_old(buf->bufdata.capacity_))
__CPROVER_ensures(buf->bufdata.data_ == __CPROVER_old(self->bufdata.data_) && buf->bufdata.size_ == __CPROVER_old(self->bufdata.size_) && buf->bufdata.capacity_ == __CPROVER_old(self->bufdata.capacity_))
__CPROVER_assigns(__CPROVER_object_whole(self), __CPROVER_object_whole(buf))""",
    prelude=[P8, CP], inline=['PRA_swap_u8'], ctor_inits=['offset'],
    lower=[rx(r'bufdata\.swap\(buf\.bufdata\);', 'PRA_swap_u8(&bufdata, &buf->bufdata);', 1, 1), BUFM], no_flags=NOF,
    says='DeSerializeBuffer(SerializeBuffer&&): the two buffers exchange their blocks, offset 0'))

DSEQ_INL = ['PRA_index_u8', 'PRA_size_u8', 'DeSerializeBuffer_extract', 'DeSerializeBuffer_getOffset', 'DeSerializeBuffer_setOffset', 'DeSerializeBuffer_r_linearData', 'DeSerializeBuffer_atAlignment', 'gDeserializeObj_u64',
            'PRA_reserve_u64', 'PRA_resize_u64', 'PRA_assign_u64', 'PRA_data_u64']
UNITS.append(Unit(
    name='gDeserializeLinearSeq_pra64_aligned', src=SER, anchor=r'void gDeserializeLinearSeq\(DeSerializeBuffer& buf, Seq& seq\)', proto='void gDeserializeLinearSeq_pra64_aligned(struct DBuf* buf, struct PRA_u64* seq)',
    contract="""__CPROVER_requires(DB_OK(buf) && buf->bufdata.size_ <= MAXB && PRA_OK_u64(seq) && g_off == (size_t)buf->offset && g_n <= (MAXB >> 4) && g_off + sizeof(size_t) + g_n * sizeof(uint64_t) < buf->bufdata.size_)
/* the buffer holds, at the offset, a count g_n followed by g_n elements */
__CPROVER_requires(g_n == *(const uint64_t*)&buf->bufdata.data_[g_off] && (((uintptr_t)&buf->bufdata.data_[g_off + sizeof(size_t)]) % _Alignof(uint64_t)) == 0)
__CPROVER_ensures(seq->size_ == g_n && buf->offset == (int)(g_off + sizeof(size_t) + g_n * sizeof(uint64_t)))
/* aligned branch: the stub memcpy moves ELEMENT g_c_u8; unaligned branch: it moves BYTE g_c_u8 -- either way the probe is arbitrary */
__CPROVER_ensures(g_c_u64 < g_n ==> seq->data_[g_c_u64] == *(const uint64_t*)&buf->bufdata.data_[g_off + sizeof(size_t) + g_c_u64 * sizeof(uint64_t)])
__CPROVER_assigns(buf->offset, __CPROVER_object_whole(seq); seq->data_ != (pod_t_u64*)0: __CPROVER_object_whole(seq->data_))""",
    prelude=SEQP + ['size_t g_off;   /* ghost: the offset before the call */\n'], inline=DSEQ_INL,
    lower=[rx(r'typedef typename Seq::value_type T;', 'typedef uint64_t T;', 1, 1), rx(r'typename Seq::size_type size;', 'size_t size;', 1, 1),
           rx(r'gDeserializeObj\(buf, size\);', 'gDeserializeObj_u64(buf, (uint64_t*)&size);', 1, 1), rx(r'buf\.atAlignment\(alignof\(T\)\)', 'DeSerializeBuffer_atAlignment(buf, _Alignof(T))', 1, 1),
           rx(r'buf\.r_linearData\(\)', 'DeSerializeBuffer_r_linearData(buf)', 1, 1), rx(r'seq\.assign\(', 'PRA_assign_u64(seq, ', 1, 1), rx(r'seq\.resize\(', 'PRA_resize_u64(seq, ', 1, 1),
           rx(r'buf\.setOffset\(buf\.getOffset\(\) \+ size \* sizeof\(T\)\);', 'DeSerializeBuffer_setOffset(buf, (unsigned)(DeSerializeBuffer_getOffset(buf) + size * sizeof(T)));', 1, 1),
           rx(r'buf\.extract\(\(uint8_t\*\)seq\.data\(\), ', 'DeSerializeBuffer_extract(buf, (uint8_t*)PRA_data_u64(seq), ', 1, 1)],
    no_flags=NOF, inst='Seq = galois::PODResizeableArray<uint64_t>', timeout=3000, reach_timeout=900, witness='g_off == 8 && g_n == 2 && g_c_u64 == 1', tier='thorough',
    says='gDeserializeLinearSeq, BOTH branches (buffer position aligned for T: assign from the buffer; otherwise resize + extract): the sequence gets exactly the count and the elements stored at the offset, and the offset advances by exactly 8 + 8*count',
    trusted=['at least one byte follows the sequence in the buffer (r_linearData() of an exhausted buffer forms &data[size], rejected by the index check of the stub)']))

UNITS.append(Unit(
    name='gDeserializeLinearSeq_pra64_unaligned', src=SER, anchor=r'void gDeserializeLinearSeq\(DeSerializeBuffer& buf, Seq& seq\)', proto='void gDeserializeLinearSeq_pra64_unaligned(struct DBuf* buf, struct PRA_u64* seq)',
    contract="""__CPROVER_requires(DB_OK(buf) && buf->bufdata.size_ <= MAXB && PRA_OK_u64(seq) && g_off == (size_t)buf->offset && g_n <= (MAXB >> 4) && g_off + sizeof(size_t) + g_n * sizeof(uint64_t) < buf->bufdata.size_)
/* the buffer holds, at the offset, a count g_n followed by g_n elements */
__CPROVER_requires(g_n == *(const uint64_t*)&buf->bufdata.data_[g_off] && (((uintptr_t)&buf->bufdata.data_[g_off + sizeof(size_t)]) % _Alignof(uint64_t)) != 0)
__CPROVER_ensures(seq->size_ == g_n && buf->offset == (int)(g_off + sizeof(size_t) + g_n * sizeof(uint64_t)))
/* aligned branch: the stub memcpy moves ELEMENT g_c_u8; unaligned branch: it moves BYTE g_c_u8 -- either way the probe is arbitrary */
__CPROVER_ensures(g_c_u8 < g_n * sizeof(uint64_t) ==> ((const uint8_t*)seq->data_)[g_c_u8] == buf->bufdata.data_[g_off + sizeof(size_t) + g_c_u8])
__CPROVER_assigns(buf->offset, __CPROVER_object_whole(seq); seq->data_ != (pod_t_u64*)0: __CPROVER_object_whole(seq->data_))""",
    prelude=SEQP + ['size_t g_off;   /* ghost: the offset before the call */\n'], inline=DSEQ_INL,
    lower=[rx(r'typedef typename Seq::value_type T;', 'typedef uint64_t T;', 1, 1), rx(r'typename Seq::size_type size;', 'size_t size;', 1, 1),
           rx(r'gDeserializeObj\(buf, size\);', 'gDeserializeObj_u64(buf, (uint64_t*)&size);', 1, 1), rx(r'buf\.atAlignment\(alignof\(T\)\)', 'DeSerializeBuffer_atAlignment(buf, _Alignof(T))', 1, 1),
           rx(r'buf\.r_linearData\(\)', 'DeSerializeBuffer_r_linearData(buf)', 1, 1), rx(r'seq\.assign\(', 'PRA_assign_u64(seq, ', 1, 1), rx(r'seq\.resize\(', 'PRA_resize_u64(seq, ', 1, 1),
           rx(r'buf\.setOffset\(buf\.getOffset\(\) \+ size \* sizeof\(T\)\);', 'DeSerializeBuffer_setOffset(buf, (unsigned)(DeSerializeBuffer_getOffset(buf) + size * sizeof(T)));', 1, 1),
           rx(r'buf\.extract\(\(uint8_t\*\)seq\.data\(\), ', 'DeSerializeBuffer_extract(buf, (uint8_t*)PRA_data_u64(seq), ', 1, 1)],
    no_flags=NOF, inst='Seq = galois::PODResizeableArray<uint64_t>', timeout=3000, reach_timeout=900, witness='g_off == 3 && g_n == 2 && g_c_u8 == 9', tier='thorough',
    says='gDeserializeLinearSeq, BOTH branches (buffer position aligned for T: assign from the buffer; otherwise resize + extract): the sequence gets exactly the count and the elements stored at the offset, and the offset advances by exactly 8 + 8*count',
    trusted=['at least one byte follows the sequence in the buffer (r_linearData() of an exhausted buffer forms &data[size], rejected by the index check of the stub)']))


UNITS.append(Unit(
    name='gDeserializeLinearSeq_pra64_small', src=SER, anchor=r'void gDeserializeLinearSeq\(DeSerializeBuffer& buf, Seq& seq\)', proto='void gDeserializeLinearSeq_pra64_small(struct DBuf* buf, struct PRA_u64* seq)',
    contract="""__CPROVER_requires(DB_OK(buf) && buf->bufdata.size_ <= MAXB && PRA_OK_u64(seq) && g_off == (size_t)buf->offset && g_n <= (MAXB >> 4) && g_off + sizeof(size_t) + g_n * sizeof(uint64_t) < buf->bufdata.size_)
/* the buffer holds, at the offset, a count g_n followed by g_n elements */
__CPROVER_requires(g_n == *(const uint64_t*)&buf->bufdata.data_[g_off] && buf->bufdata.capacity_ <= 256 && g_n <= 2 && seq->capacity_ <= 8)
__CPROVER_ensures(seq->size_ == g_n && buf->offset == (int)(g_off + sizeof(size_t) + g_n * sizeof(uint64_t)))
/* aligned branch: the stub memcpy moves ELEMENT g_c_u8; unaligned branch: it moves BYTE g_c_u8 -- either way the probe is arbitrary */
/* copies of <= 16 elements are exact in the stubs: compare WHOLE elements, whichever branch ran; g_e is an arbitrary element index */
__CPROVER_ensures(g_e < g_n ==> seq->data_[g_e] == *(const uint64_t*)&buf->bufdata.data_[g_off + sizeof(size_t) + g_e * sizeof(uint64_t)])
__CPROVER_assigns(buf->offset, __CPROVER_object_whole(seq); seq->data_ != (pod_t_u64*)0: __CPROVER_object_whole(seq->data_))""",
    prelude=SEQP + ['size_t g_off;   /* ghost: the offset before the call */\n', 'size_t g_e;   /* ghost: element probe */\n'], inline=DSEQ_INL,
    lower=[rx(r'typedef typename Seq::value_type T;', 'typedef uint64_t T;', 1, 1), rx(r'typename Seq::size_type size;', 'size_t size;', 1, 1),
           rx(r'gDeserializeObj\(buf, size\);', 'gDeserializeObj_u64(buf, (uint64_t*)&size);', 1, 1), rx(r'buf\.atAlignment\(alignof\(T\)\)', 'DeSerializeBuffer_atAlignment(buf, _Alignof(T))', 1, 1),
           rx(r'buf\.r_linearData\(\)', 'DeSerializeBuffer_r_linearData(buf)', 1, 1), rx(r'seq\.assign\(', 'PRA_assign_u64(seq, ', 1, 1), rx(r'seq\.resize\(', 'PRA_resize_u64(seq, ', 1, 1),
           rx(r'buf\.setOffset\(buf\.getOffset\(\) \+ size \* sizeof\(T\)\);', 'DeSerializeBuffer_setOffset(buf, (unsigned)(DeSerializeBuffer_getOffset(buf) + size * sizeof(T)));', 1, 1),
           rx(r'buf\.extract\(\(uint8_t\*\)seq\.data\(\), ', 'DeSerializeBuffer_extract(buf, (uint8_t*)PRA_data_u64(seq), ', 1, 1)],
    no_flags=NOF, inst='Seq = galois::PODResizeableArray<uint64_t>', timeout=900, reach_timeout=300,
    says='(small instances: buffer <= 256 bytes, <= 2 elements, INCLUDING the empty sequence into a non-empty destination; quick tier) gDeserializeLinearSeq, BOTH branches (buffer position aligned for T: assign from the buffer; otherwise resize + extract): the sequence gets exactly the count and the elements stored at the offset, and the offset advances by exactly 8 + 8*count',
    trusted=['at least one byte follows the sequence in the buffer (r_linearData() of an exhausted buffer forms &data[size], rejected by the index check of the stub)']))


# ---- round trip, every callee the extracted real code (no contract in between) ------------------------------------------
# Loops: only PODResizeableArray::reserve's capacity doubling, at most 32 iterations for buffers <= 2^30 bytes: unwound
# COMPLETELY (unwinding assertions on), so within the size bound this is exhaustive in the data, not a sample.
RT_INL = ['PRA_reserve_u8', 'PRA_resize_u8', 'PRA_begin_u8', 'PRA_end_u8', 'PRA_insert_u8', 'PRA_index_u8', 'PRA_size_u8', 'PRA_swap_u8', 'SerializeBuffer_insert', 'DeSerializeBuffer_extract',
          'DeSerializeBuffer_setOffset', 'DeSerializeBuffer_from_SerializeBuffer', 'gSerializeObj_u64']
UNITS.append(Unit(
    name='roundtrip_u64', kind='bounded', unwind=36, dfcc=False, bound_desc='buffers <= 2^30 bytes; the only loop (capacity doubling) unwound completely',
    src=SER, anchor=r'void gDeserializeObj\(\s*DeSerializeBuffer& buf, T& data,\s*typename std::enable_if<is_memory_copyable<T>::value>::type\* = 0\)',
    proto='void gDeserializeObj_u64_rt(struct DBuf* buf, uint64_t* data_p)', contract='',
    prelude=[P8, CP, 'size_t nondet_size(void); uint64_t nondet_u64(void);\nvoid gDeserializeObj_u64_rt(struct DBuf* buf, uint64_t* data_p);\n'], inline=RT_INL,
    lower=[rx(r'\(uint8_t\*\)&data', '(uint8_t*)data_p', 1, 1), rx(r'buf\.extract\(', 'DeSerializeBuffer_extract(buf, ', 1, 1), rx(r'sizeof\(T\)', 'sizeof(uint64_t)', 1)],
    harness="""
  struct SBuf sb; struct DBuf db;
  size_t cap = nondet_size(), sz = nondet_size();
  __CPROVER_assume(sz <= cap && cap <= MAXB);
  sb.bufdata.capacity_ = cap; sb.bufdata.size_ = sz; sb.bufdata.data_ = cap ? (pod_t_u8*)malloc(cap) : (pod_t_u8*)0;   /* a serialize buffer that already holds sz arbitrary bytes */
  __CPROVER_assume(cap == 0 || sb.bufdata.data_ != 0);
  if (g_k < sz) g_kv_u8 = sb.bufdata.data_[g_k];
  db.bufdata.data_ = (pod_t_u8*)0; db.bufdata.capacity_ = 0; db.bufdata.size_ = 0; db.offset = 0;
  uint64_t x = nondet_u64(), y;
  gSerializeObj_u64(&sb, &x);
  DeSerializeBuffer_from_SerializeBuffer(&db, &sb);
  __CPROVER_assert(db.bufdata.size_ == sz + sizeof(uint64_t), "serialising produced exactly sizeof(T) bytes");
  if (g_k < sz) __CPROVER_assert(db.bufdata.data_[g_k] == g_kv_u8, "bytes already in the buffer are untouched");
  DeSerializeBuffer_setOffset(&db, (unsigned)sz);
  gDeserializeObj_u64_rt(&db, &y);
  if (g_c_u8 < sizeof(uint64_t)) __CPROVER_assert(((const uint8_t*)&y)[g_c_u8] == ((const uint8_t*)&x)[g_c_u8], "round trip: byte g_c_u8 of the value read back equals byte g_c_u8 of the value written (g_c_u8 arbitrary)");
  __CPROVER_assert((size_t)db.offset == sz + sizeof(uint64_t), "deserialising consumed exactly the bytes that were produced");
""",
    reach=True, no_flags=NOF, timeout=1200, reach_timeout=600,
    says='ROUND TRIP (all callees real code): a uint64 serialised behind sz arbitrary bytes (any sz, any capacity, so any alignment) and read back from offset sz has the same bytes; exactly 8 bytes are produced and consumed; earlier bytes untouched'))


# The same lemma for a whole sequence (gSerializeLinearSeq -> gDeserializeLinearSeq through the real chain) exhausted the 16 GB SAT budget and
# did not finish in 40 minutes on cvc5 even for <= 256 elements; it is not part of the check.  The two per-function contracts state the same layout.

EXPLANATION = ('First half of C17 only, for memory-copyable data: SerializeBuffer insert/insertAt/encomber/push, DeSerializeBuffer extract/pop/r_size/r_linearData/atAlignment/getOffset/setOffset and its constructor from a SerializeBuffer, '
               'gSerializeObj/gDeserializeObj for uint64/uint32/uint8/double, gSerializeLinearSeq/gDeserializeLinearSeq for PODResizeableArray<uint64_t> (aligned and unaligned branch) are extracted from '
               'libdist/include/galois/runtime/Serialize.h and verified with the real PODResizeableArray bodies inlined underneath (down to a realloc stub): exactly the bytes of the value are appended / consumed, in order, '
               'at any buffer offset and alignment, everything else kept.  Round trip of a uint64 through the whole real call chain is a lemma unit (only loop: capacity doubling, unwound completely).')
NOT_DECIDED = ('everything about the network layer (delivery exactly once, ordering, tags, host barriers, MPI/LCI back ends); serialisation of non-memory-copyable types (strings, tuples, pairs, deques, vectors of non-trivially-copyable elements, '
               'std::vector, DynamicBitSet, Galois containers other than PODResizeableArray, nested buffers); the mechanised round trip of a whole sequence (the per-function contracts of gSerializeLinearSeq and gDeserializeLinearSeq '
               'state the same layout, composed by hand); buffers beyond 2^30 bytes (the offset is an int); an empty sequence without a block.')
ASSUMPTIONS = ['the overload chosen for a type is the one C++ overload resolution / enable_if selects for it (chosen by hand: is_memory_copyable for the scalar types listed, the PODResizeableArray overload -> gSerializeLinearSeq)',
               'realloc / copy_n / memcpy stubs of contracts/C14_pra.py (probe elements; copies of <= 16 elements exact); allocation never fails',
               'DeSerializeBuffer::extract is called with enough bytes left (its callers\' responsibility; the code does not check); one byte follows a sequence in the buffer (r_linearData of an exhausted buffer is &data[size])',
               'pointer-to-integer casts (atAlignment): CBMC\'s address model (object number in the high bits, so alignment of a malloc block = alignment of the offset)']
