"""C05 -- barriers: the counting barrier (Barrier_Counting.cpp) as contracts +
one bounded phase-separation run; the dissemination barrier's round count.
Everything else about barriers is not decided."""
import re
from gv.unit import Unit
from gv.lower import (bind, ren, members, refs, call, fcall, index, stdfn, mkpair, casts, drop, dropcall, rx)

CNT = 'libgalois/src/Barrier_Counting.cpp'
DIS = 'libgalois/src/Barrier_Dissemination.cpp'
UNITS = []

# One generic rule for every spin loop of the barriers:  while (COND) { asmPause(); }
#   bounded runs (gv_sc.h):   SC_AWAIT(tid, !(COND))      -- COND's shared reads are plain .v reads there
#   step contracts:           the loop stays, COND's shared reads are sc_load_x() calls (environment step before each)
def spin_sc(n):
    return rx(r'while \((?P<c>[^{}]*?)\)\s*\{\s*galois::substrate::asmPause\(\);\s*\}', lambda m: 'SC_AWAIT(tid, !(%s));' % ' '.join(m.group('c').split()), n, n, flags=re.S)
PAUSE = ren('galois::substrate::asmPause', 'asmPause')

CP = """
#define GV_MAXT 16u
struct CB { sc_u count; sc_b sense; unsigned num; bool local_sense[GV_MAXT]; unsigned nls; };
unsigned g_tid, g_s;
static inline void asmPause(void) {}
static inline bool* ls_at(struct CB* b, unsigned i) { __CPROVER_assert(i < b->nls, "local_sense.at(): index in range"); return &b->local_sense[i]; }
static inline void ls_resize(struct CB* b, unsigned n) { __CPROVER_assert(n <= GV_MAXT, "configuration bound"); b->nls = n; }
#define B(x) ((x) != 0)
"""
WITHIN = r'class CountingBarrier\b'
CNT_REINIT_RULES = [rx(r'count = num = val;', 'self->num = val; self->count.v = val;', 1, 1), rx(r'(?<![\w.>])sense\s*=\s*false;', 'self->sense.v = 0;', 1, 1),
                    rx(r'local_sense\.resize\(val\)', 'ls_resize(self, val)', 1, 1), rx(r'local_sense\.at\(i\)\.get\(\)', '(*ls_at(self, i))', 1, 1)]
UNITS.append(Unit(
    name='CountingBarrier_reinit', src=CNT, within=WITHIN, anchor=r'void _reinit\(unsigned val\)', proto='void CountingBarrier_reinit(struct CB* self, unsigned val)',
    contract="""__CPROVER_requires(__CPROVER_is_fresh(self, sizeof(*self)) && val >= 1 && val <= GV_MAXT && g_s < GV_MAXT)
__CPROVER_ensures(self->count.v == val && self->num == val && self->sense.v == 0 && self->nls == val && (g_s < val ==> !B(self->local_sense[g_s])))
__CPROVER_assigns(__CPROVER_object_whole(self))""",
    prelude=['#define GV_CELLS_PLAIN\n#include "gv_cells.h"\n', CP],
    lower=CNT_REINIT_RULES,
    loops={1: '__CPROVER_assigns(i, __CPROVER_object_whole(self))\n__CPROVER_loop_invariant(i <= val && val <= GV_MAXT && self->nls == val && self->count.v == val && self->num == val && self->sense.v == 0 && ((g_s < i) ==> !B(self->local_sense[g_s])))\n__CPROVER_decreases(val - i)'},
    fallback_unwind=18, no_flags=['--conversion-check'], inst='participants <= 16',
    says='re-initialisation to any participant count: counter = participants, global sense and every local sense false -- whatever the previous state (reuse with another count)'))
# token-level rules shared by the step contract and the bounded runs; only shared READS and spin loops differ
CNT_WAIT_COMMON = [rx(r'bool& lsense\s*=\s*local_sense\.at\(galois::substrate::ThreadPool::getTID\(\)\)\.get\(\);', 'bool* lsense_p = ls_at(self, tid);', 1, 1), rx(r'(?<![\w.>])lsense(?![\w])', '(*lsense_p)', 3),
                   rx(r'--count(?![\w])', 'sc_dec_u(&self->count)', 1), rx(r'(?<![\w.>&])count = ([^;]+);', r'sc_store_u(&self->count, \1);', 1), rx(r'(?<![\w.>&])sense = ([^;]+);', r'sc_store_b(&self->sense, \1);', 1),
                   rx(r'(?<![\w.>])num(?![\w])', 'self->num', 1)]
CNT_WAIT_TM = CNT_WAIT_COMMON + [rx(r'(?<![\w.>&])sense(?![\w])', 'sc_load_b(&self->sense)', 1), PAUSE]
CNT_WAIT_SC = CNT_WAIT_COMMON + [rx(r'(?<![\w.>&])sense(?![\w])', 'self->sense.v', 1), spin_sc(1)]
UNITS.append(Unit(
    name='CountingBarrier_wait', src=CNT, within=WITHIN, anchor=r'virtual void wait\(\)', proto='void CountingBarrier_wait(struct CB* self, unsigned tid)',
    contract="""__CPROVER_requires(__CPROVER_is_fresh(self, sizeof(*self)) && self->nls <= GV_MAXT && tid < self->nls && self->num >= 1 && g_seq == 0 && self->local_sense[tid] <= 1 && GV_CELL_CLEAN(self->count) && GV_CELL_CLEAN(self->sense))
/* the caller's local sense flips: its phase state is re-armed */
__CPROVER_ensures(B(self->local_sense[tid]) == !B(__CPROVER_old(self->local_sense[tid])))
/* arrival: exactly one read-modify-write that decrements the counter */
__CPROVER_ensures(self->count.nw >= 1 && self->count.rseq > 0)
/* WHO re-arms: exactly the thread whose decrement reached zero (the value its read-modify-write read was 1) */
__CPROVER_ensures((self->count.nw == 2) == (self->count.lastr == 1u))
/* either the decrement reached zero: the caller re-armed the counter to the participant count and THEN published its new sense ... */
/* ... or it left only after reading the global sense equal to its new local sense, after its own arrival; it wrote nothing else */
__CPROVER_ensures(self->count.nw == 2 ? (self->count.lastw == self->num && self->sense.nw == 1 && B(self->sense.lastw) == B(self->local_sense[tid]) && self->sense.wseq > self->count.wseq && self->sense.rseq == 0)
                                      : (self->count.nw == 1 && self->count.lastw == self->count.lastr - 1u && self->sense.nw == 0 && B(self->sense.lastr) == B(self->local_sense[tid]) && self->sense.rseq > self->count.wseq))
__CPROVER_ensures(self->num == __CPROVER_old(self->num))
__CPROVER_assigns(g_seq, __CPROVER_object_whole(self))""",
    prelude=['#include "gv_cells.h"\n', CP],
    lower=CNT_WAIT_TM,
    loops={1: '__CPROVER_assigns(g_seq, __CPROVER_object_upto((char*)&self->sense, sizeof(self->sense)))\n__CPROVER_loop_invariant(g_seq >= __CPROVER_loop_entry(g_seq) && self->sense.nw == 0)'},
    no_flags=['--conversion-check'], fallback_unwind=4,
    says='one wait(): the caller flips its local sense (its phase state is re-armed for the next phase); the thread whose decrement reaches zero resets the counter to the participant count and only then publishes the new sense; every other thread returns only after observing the global sense equal to its new local sense, after its own arrival'))

# ---- BOUNDED stand-ins: the extracted wait() bodies under CBMC threads (stubs/gv_sc.h) -------------------
def sc_harness(P, PH, init, waitcall, tids=None):
    asyncs = ''.join('  __CPROVER_ASYNC_%d: worker(%d);\n' % (t, t) for t in range(1, P))
    return dict(harness=init + asyncs + '  worker(0);\n',
                post_pre='''
int arrived[SC_P];
void worker(unsigned tid)
{
  for (int k = 1; k <= SC_PH; ++k) {
    arrived[tid] = k;
    %s;
    for (unsigned j = 0; j < SC_P; ++j) __CPROVER_assert(arrived[j] >= k, "phase separation: no thread leaves its k-th wait before all have entered theirs");
  }
  sc_end();
  GV_REACH_END;
}
''' % waitcall)
SC_NOFLAGS = ['--bounds-check', '--pointer-check', '--div-by-zero-check', '--signed-overflow-check', '--conversion-check', '--undefined-shift-check', '--pointer-overflow-check']

def sc_prelude(P, PH, text):
    return ['#define SC_P %d\n#define SC_PH %d\n#define GV_MAXT %du\n' % (P, PH, P) + text]

CSC = '''
#include "gv_sc.h"
struct CB { sc_u count; sc_b sense; unsigned num; bool local_sense[GV_MAXT]; unsigned nls; };
struct CB BAR;
static inline bool* ls_at(struct CB* b, unsigned i) { __CPROVER_assert(i < b->nls, "local_sense.at(): index in range"); return &b->local_sense[i]; }
static inline void ls_resize(struct CB* b, unsigned n) { b->nls = n; }
void CountingBarrier_wait_sc(struct CB* self, unsigned tid);
'''
UNITS.append(Unit(name='CountingBarrier_reinit_sc', kind='assumed', src=CNT, within=WITHIN, anchor=r'void _reinit\(unsigned val\)', proto='void CountingBarrier_reinit_sc(struct CB* self, unsigned val)', contract='', lower=CNT_REINIT_RULES))
for (P_, PH_, tier_) in ((2, 3, 'quick'), (3, 2, 'quick'), (3, 3, 'thorough')):
    UNITS.append(Unit(
        name='CountingBarrier_phases_bounded_%dx%d' % (P_, PH_), kind='bounded', unwind=5, dfcc=False, bound_desc='%d threads x %d phases, sequentially consistent interleavings' % (P_, PH_), tier=tier_,
        src=CNT, within=WITHIN, anchor=r'virtual void wait\(\)', proto='void CountingBarrier_wait_sc(struct CB* self, unsigned tid)', contract='',
        prelude=sc_prelude(P_, PH_, CSC), inline=['CountingBarrier_reinit_sc'],
        lower=CNT_WAIT_SC,
        reach=True, flags=['--no-standard-checks'], no_flags=SC_NOFLAGS, timeout=2400,
        says='BOUNDED: %d participants, %d consecutive phases (barrier reused without re-initialisation): no thread returns from its k-th wait before every participant entered its k-th wait, no reachable state has a thread waiting forever, the end of the last phase is reachable' % (P_, PH_),
        **sc_harness(P_, PH_, '  CountingBarrier_reinit_sc(&BAR, SC_P);\n', 'CountingBarrier_wait_sc(&BAR, tid)')))

# ---- MCS tree barrier ------------------------------------------------------------------------------------
MCS = 'libgalois/src/Barrier_MCS.cpp'
MW = r'class MCSBarrier\b'
MCS_T = """
struct mcs_node { sc_b* parentpointer; sc_b* childpointers[2]; bool havechild[4]; sc_b childnotready[4]; sc_b parentsense; bool sense; };
struct mcs_node NODES[GV_MAXT]; unsigned NN;
static inline struct mcs_node* mcs_at(unsigned i) { __CPROVER_assert(i < NN, "nodes.at(): index in range"); return &NODES[i]; }
static inline void mcs_resize(unsigned n) { __CPROVER_assert(n <= GV_MAXT, "configuration bound"); NN = n; }
"""
MCS_T1 = """
/* the step contract looks at ONE node: the caller's own (nodes.at(tid) with the index check), its parent slot and its two wake-up flags */
struct mcs_node { sc_b* parentpointer; sc_b* childpointers[2]; bool havechild[4]; sc_b childnotready[4]; sc_b parentsense; bool sense; };
struct mcs_node ME; unsigned NN, g_tid;
static inline struct mcs_node* mcs_at(unsigned i) { __CPROVER_assert(i < NN, "nodes.at(): index in range"); __CPROVER_assert(i == g_tid, "own node only"); return &ME; }
"""
MCS_REINIT_RULES = [rx(r'nodes\.size\(\)', 'NN', 0), rx(r'nodes\.resize\(P\)', 'mcs_resize(P)', 1, 1), rx(r'treenode& n\s*=\s*nodes\.at\(i\)\.get\(\);', 'struct mcs_node* n = mcs_at(i);', 1, 1),
                    rx(r'nodes\.at\((.*?)\)\.get\(\)\.', r'mcs_at(\1)->', 3, 3), rx(r'n\.parentsense = false;', 'n->parentsense.v = false;', 1, 1),
                    rx(r'n\.childnotready\[j\] = n\.havechild\[j\]', 'n->childnotready[j].v = n->havechild[j]', 1, 1), rx(r'(?<![\w.>])n\.', 'n->', 4)]
def mcs_node_facts(s):
    n = 'NODES[%s]' % s
    return ' && '.join(['%s.sense == 1 && %s.parentsense.v == 0' % (n, n)] +
                       ['%s.havechild[%d] == ((4 * %s + %d + 1) < P) && %s.childnotready[%d].v == %s.havechild[%d]' % (n, j, s, j, n, j, n, j) for j in range(4)] +
                       ['%s.parentpointer == ((%s) == 0 ? (sc_b*)0 : &NODES[((%s) - 1) / 4].childnotready[((%s) - 1) %% 4])' % (n, s, s, s)] +
                       ['%s.childpointers[%d] == ((2 * (%s) + %d) >= P ? (sc_b*)0 : &NODES[2 * (%s) + %d].parentsense)' % (n, k, s, k + 1, s, k + 1) for k in range(2)])
UNITS.append(Unit(
    name='MCS_reinit', src=MCS, within=MW, anchor=r'void _reinit\(unsigned P\)', proto='void MCS_reinit(unsigned P)',
    contract="""__CPROVER_requires(P >= 1 && P <= GV_MAXT && g_s < GV_MAXT)
__CPROVER_ensures(NN == P && (g_s < P ==> (%s)))
__CPROVER_assigns(NN, __CPROVER_object_whole(NODES))""" % mcs_node_facts('g_s'),
    prelude=['#define GV_CELLS_PLAIN\n#include "gv_cells.h"\n#define GV_MAXT 16u\nunsigned g_s;\n', MCS_T], lower=MCS_REINIT_RULES,
    loops={1: '__CPROVER_assigns(i, NN, __CPROVER_object_whole(NODES))\n__CPROVER_loop_invariant(i <= P && NN == P && ((g_s < i) ==> (%s)))\n__CPROVER_decreases(P - i)' % mcs_node_facts('g_s'),
           2: '__CPROVER_assigns(j, __CPROVER_object_whole(NODES))\n__CPROVER_loop_invariant(0 <= j && j <= 4 && i < P && NN == P && n == &NODES[i] && n->sense == 1 && n->parentsense.v == 0 && ((g_s < i) ==> (%s)) && %s)\n__CPROVER_decreases(4 - j)'
              % (mcs_node_facts('g_s'), ' && '.join('(j > %d ==> (n->havechild[%d] == ((4 * i + %d + 1) < P) && n->childnotready[%d].v == n->havechild[%d]))' % (j, j, j, j, j) for j in range(4)))},
    fallback_unwind=18, no_flags=['--conversion-check'], inst='participants <= 16', timeout=900,
    says='MCS barrier tables for every participant count <= 16, for an arbitrary node s: arrival slots havechild/childnotready[j] are set exactly for the existing children 4s+j+1, the arrival pointer of s is slot (s-1)%4 of node (s-1)/4, the wake-up pointers are the parentsense flags of nodes 2s+1 and 2s+2, sense true, parentsense false -- whatever the previous state (re-initialisation)'))

MCS_WAIT_COMMON = [rx(r'treenode& n = nodes\.at\(galois::substrate::ThreadPool::getTID\(\)\)\.get\(\);', 'struct mcs_node* n = mcs_at(tid);', 1, 1),
                   rx(r'n\.childnotready\[(\w+)\] = ([^;]+);', r'sc_store_b(&n->childnotready[\1], \2);', 1),
                   rx(r'\*n\.parentpointer = ([^;]+);', r'sc_store_b(n->parentpointer, \1);', 1),
                   rx(r'\*n\.childpointers\[(\w+)\] = ([^;]+);', r'sc_store_b(n->childpointers[\1], \2);', 1)]
MCS_WAIT_TM = MCS_WAIT_COMMON + [rx(r'n\.childnotready\[(\w+)\]', r'sc_load_b(&n->childnotready[\1])', 1), rx(r'n\.parentsense(?![\w])', 'sc_load_b(&n->parentsense)', 1), PAUSE, rx(r'(?<![\w.>])n\.', 'n->', 3)]
MCS_WAIT_SC = MCS_WAIT_COMMON + [rx(r'n\.childnotready\[(\w+)\]', r'n->childnotready[\1].v', 1), rx(r'n\.parentsense(?![\w])', 'n->parentsense.v', 1), spin_sc(2), rx(r'(?<![\w.>])n\.', 'n->', 3)]
CNR_CLEAN = ' && '.join('GV_CELL_CLEAN(ME.childnotready[%d])' % i for i in range(4))
UNITS.append(Unit(
    name='MCS_wait', src=MCS, within=MW, anchor=r'virtual void wait\(\)', proto='void MCS_wait(unsigned tid)',
    contract="""__CPROVER_requires(NN <= GV_MAXT && tid < NN && g_seq == 0 && ME.sense <= 1 && tid == g_tid)
__CPROVER_requires(%s && GV_CELL_CLEAN(ME.parentsense) && GV_CELL_CLEAN(PP) && GV_CELL_CLEAN(C0) && GV_CELL_CLEAN(C1))
__CPROVER_requires(ME.parentpointer == (g_haspar ? &PP : (sc_b*)0) && ME.childpointers[0] == (g_hasc0 ? &C0 : (sc_b*)0) && ME.childpointers[1] == (g_hasc1 ? &C1 : (sc_b*)0))
/* 1. arrival: left the first loop only after reading every child slot as 'arrived' (false) ... */
__CPROVER_ensures(%s)
/* 2. ... then re-armed each slot to havechild exactly once, after those reads */
__CPROVER_ensures(%s)
/* 3. with a parent: told the parent exactly once (false) AFTER all children had arrived, then left only after reading parentsense == old sense, read after telling the parent */
__CPROVER_ensures(g_haspar ? (PP.nw == 1 && PP.lastw == 0 && %s && ME.parentsense.rseq > PP.wseq && (ME.parentsense.lastr != 0) == (__CPROVER_old(ME.sense) != 0)) : (PP.nw == 0 && ME.parentsense.rseq == 0))
/* 4. wake-up: each existing child told exactly once, the old sense, after the own release and after the re-arm */
__CPROVER_ensures(g_hasc0 ? (C0.nw == 1 && (C0.lastw != 0) == (__CPROVER_old(ME.sense) != 0) && C0.wseq > ME.parentsense.rseq && %s) : C0.nw == 0)
__CPROVER_ensures(g_hasc1 ? (C1.nw == 1 && (C1.lastw != 0) == (__CPROVER_old(ME.sense) != 0) && C1.wseq > ME.parentsense.rseq && %s) : C1.nw == 0)
/* 5. own phase state flipped; own parentsense never written by the waiter */
__CPROVER_ensures((ME.sense != 0) == !(__CPROVER_old(ME.sense) != 0) && ME.parentsense.nw == 0)
__CPROVER_assigns(g_seq, __CPROVER_object_whole(&ME), __CPROVER_object_whole(&PP), __CPROVER_object_whole(&C0), __CPROVER_object_whole(&C1))""" % (
        CNR_CLEAN,
        ' && '.join('(ME.childnotready[%d].rseq > 0 && ME.childnotready[%d].lastr == 0)' % (i, i) for i in range(4)),
        ' && '.join('(ME.childnotready[%d].nw == 1 && ME.childnotready[%d].lastw == ME.havechild[%d] && ME.childnotready[%d].wseq > ME.childnotready[%d].rseq)' % (i, i, i, i, k) for i in range(4) for k in range(4)),
        ' && '.join('PP.wseq > ME.childnotready[%d].rseq' % i for i in range(4)),
        ' && '.join('C0.wseq > ME.childnotready[%d].wseq' % i for i in range(4)),
        ' && '.join('C1.wseq > ME.childnotready[%d].wseq' % i for i in range(4))),
    prelude=['#include "gv_cells.h"\n#define GV_MAXT 16u\n', MCS_T1, 'bool g_haspar, g_hasc0, g_hasc1; sc_b PP, C0, C1;\nstatic inline void asmPause(void) {}\n'],
    lower=MCS_WAIT_TM,
    loops={1: '__CPROVER_assigns(g_seq, __CPROVER_object_upto((char*)ME.childnotready, sizeof(ME.childnotready)))\n__CPROVER_loop_invariant(n == &ME && %s)' % (' && '.join('ME.childnotready[%d].nw == 0 && ME.childnotready[%d].wseq == 0 && ME.childnotready[%d].rseq <= g_seq' % (i, i, i) for i in range(4))),
           2: '__CPROVER_assigns(i, g_seq, __CPROVER_object_upto((char*)ME.childnotready, sizeof(ME.childnotready)))\n__CPROVER_loop_invariant(0 <= i && i <= 4 && n == &ME && g_seq >= __CPROVER_loop_entry(g_seq) && %s)' % (' && '.join(
               '(ME.childnotready[%d].lastr == 0 && ME.childnotready[%d].rseq > 0 && ME.childnotready[%d].rseq <= __CPROVER_loop_entry(g_seq) && (i > %d ? (ME.childnotready[%d].nw == 1 && ME.childnotready[%d].lastw == ME.havechild[%d] && ME.childnotready[%d].wseq > __CPROVER_loop_entry(g_seq) && ME.childnotready[%d].wseq <= g_seq) : ME.childnotready[%d].nw == 0))'
               % ((k,) * 10) for k in range(4))),
           3: '__CPROVER_assigns(g_seq, __CPROVER_object_upto((char*)&ME.parentsense, sizeof(ME.parentsense)))\n__CPROVER_loop_invariant(n == &ME && g_seq >= __CPROVER_loop_entry(g_seq) && ME.parentsense.nw == 0)'},
    harness_pre='ME.parentpointer = g_haspar ? &PP : (sc_b*)0; ME.childpointers[0] = g_hasc0 ? &C0 : (sc_b*)0; ME.childpointers[1] = g_hasc1 ? &C1 : (sc_b*)0;',
    fallback_unwind=6, no_flags=['--conversion-check'], timeout=600,
    says='one MCS wait(): children observed arrived, slots re-armed, parent told, release observed, wake-up children told, sense flipped -- in that order'))


MCS_SC_T = """
#include "gv_sc.h"
""" + MCS_T + "void MCS_wait_sc(unsigned tid);\n"
UNITS.append(Unit(name='MCS_reinit_sc', kind='assumed', src=MCS, within=MW, anchor=r'void _reinit\(unsigned P\)', proto='void MCS_reinit_sc(unsigned P)', contract='', lower=MCS_REINIT_RULES))
for (P_, PH_, tier_) in ((2, 3, 'quick'), (3, 2, 'quick'), (4, 2, 'thorough')):
    UNITS.append(Unit(
        name='MCS_phases_bounded_%dx%d' % (P_, PH_), kind='bounded', unwind=6, dfcc=False, bound_desc='%d threads x %d phases, sequentially consistent interleavings' % (P_, PH_), tier=tier_,
        src=MCS, within=MW, anchor=r'virtual void wait\(\)', proto='void MCS_wait_sc(unsigned tid)', contract='',
        prelude=sc_prelude(P_, PH_, MCS_SC_T), lower=MCS_WAIT_SC, inline=['MCS_reinit_sc'],
        reach=True, flags=['--no-standard-checks'], no_flags=SC_NOFLAGS, timeout=1500,
        says='BOUNDED: %d participants, %d consecutive phases on the tables built by the extracted _reinit: phase separation, no thread waits forever, end reachable' % (P_, PH_),
        **sc_harness(P_, PH_, '  MCS_reinit_sc(SC_P);\n', 'MCS_wait_sc(tid)')))

# dissemination barrier: number of rounds
DP = 'struct DB { unsigned LogP; } db;\n'
UNITS.append(Unit(
    name='Dissemination_LogP', src=DIS, within=r'class DisseminationBarrier\b', anchor=r'void _reinit\(unsigned P\)', proto='unsigned Dissemination_LogP(unsigned P)',
    contract='''__CPROVER_requires(P >= 1 && P <= (1u << 20))
__CPROVER_ensures(__CPROVER_return_value <= 20 && (1u << __CPROVER_return_value) >= P && (__CPROVER_return_value == 0 || (1u << (__CPROVER_return_value - 1)) < P))
__CPROVER_assigns(db.LogP)''',
    prelude=[DP], pre_extract=[dict(src=DIS, anchor=r'#define FAST_LOG2\(x\).*?\n\n', lower=[])],
    lower=[rx(r'(LogP = FAST_LOG2_UP\(P\);).*', r'db.\1 return db.LogP;', 1, 1, flags=re.S)],
    says='the dissemination barrier runs ceil(log2 P) rounds (the FAST_LOG2_UP macro, extracted) for every participant count up to 2^20',
    trusted=['S-slice: only the first statement of _reinit (the round count) is verified; the partner table is not']))


# ---- dissemination barrier: tables, step contract, bounded runs ----------------------------------------------
DW = r'class DisseminationBarrier\b'
DIS_T = """
struct dnode { sc_i flag[2]; struct dnode* partner; };
#ifndef GV_NFLAGS
#define GV_NFLAGS 32
#endif
struct LocalData { int parity; int sense; struct dnode myflags[GV_NFLAGS]; };
struct LocalData LD[GV_MAXT]; unsigned NN; unsigned LogP;
static inline struct LocalData* ld_at(unsigned i) { __CPROVER_assert(i < NN, "nodes.at(): index in range"); return &LD[i]; }
static inline void ld_resize(unsigned n) { __CPROVER_assert(n <= GV_MAXT, "configuration bound"); NN = n; }
#define DIS_PARTNER(ld, r) (ld)->myflags[r].partner
"""
DIS_MACROS = [dict(src=DIS, anchor=r'#define FAST_LOG2\(x\).*?\n\n', lower=[])]
DIS_REINIT_RULES = [rx(r'nodes\.size\(\)', 'NN', 0), rx(r'nodes\.resize\(P\)', 'ld_resize(P)', 1, 1), rx(r'LocalData& lhs = nodes\.at\(i\)\.get\(\);', 'struct LocalData* lhs = ld_at(i);', 1, 1),
                    rx(r'LocalData& rhs\s*=\s*nodes\.at\((.+?)\)\.get\(\);', r'struct LocalData* rhs = ld_at(\1);', 1, 1),
                    rx(r'sizeof\(lhs\.myflags\) / sizeof\(\*lhs\.myflags\)', '(sizeof(lhs->myflags) / sizeof(*lhs->myflags))', 1, 1),
                    rx(r'lhs\.myflags\[j\]\.flag\[0\] = lhs\.myflags\[j\]\.flag\[1\] = 0;', '{ lhs->myflags[j].flag[0].v = 0; lhs->myflags[j].flag[1].v = 0; }', 1, 1),
                    rx(r'&rhs\.myflags', '&rhs->myflags', 1, 1), rx(r'(?<![\w.>])lhs\.', 'lhs->', 3)]
# partner of node s in round r is node (s + 2^r) % P, same round
def dis_facts(s, r):
    return ('LD[%s].parity == 0 && LD[%s].sense == 1 && LD[%s].myflags[%s].flag[0].v == 0 && LD[%s].myflags[%s].flag[1].v == 0 && '
            '((%s) < LogP ==> LD[%s].myflags[%s].partner == &LD[((%s) + (1u << (%s))) %% P].myflags[%s])' % (s, s, s, r, s, r, r, s, r, s, r, r))
UNITS.append(Unit(
    name='Dissemination_reinit', src=DIS, within=DW, anchor=r'void _reinit\(unsigned P\)', proto='void Dissemination_reinit(unsigned P)',
    contract="""__CPROVER_requires(P >= 1 && P <= GV_MAXT && g_s < GV_MAXT && g_r < 32)
__CPROVER_ensures(NN == P && LogP <= 3 && (1u << LogP) >= P && (LogP == 0 || (1u << (LogP - 1)) < P))
__CPROVER_ensures(g_s < P ==> (%s))
__CPROVER_assigns(NN, LogP, __CPROVER_object_whole(LD))""" % dis_facts('g_s', 'g_r'),
    prelude=['#define GV_CELLS_PLAIN\n#include "gv_cells.h"\n#define GV_MAXT 8u\nunsigned g_s, g_r;\n', DIS_T], pre_extract=DIS_MACROS, lower=DIS_REINIT_RULES, witness='P == 3 && g_s == 1 && g_r == 1',
    loops={1: '__CPROVER_assigns(i, __CPROVER_object_whole(LD))\n__CPROVER_loop_invariant(i <= P && NN == P && LogP <= 3 && (1u << LogP) >= P && (LogP == 0 || (1u << (LogP - 1)) < P) && ((g_s < i) ==> (%s)))\n__CPROVER_decreases(P - i)' % dis_facts('g_s', 'g_r'),
           2: '__CPROVER_assigns(j, __CPROVER_object_whole(LD))\n__CPROVER_loop_invariant(j <= 32 && i < P && lhs == &LD[i] && lhs->parity == 0 && lhs->sense == 1 && ((g_s < i) ==> (%s)) && (g_r < j ==> (lhs->myflags[g_r].flag[0].v == 0 && lhs->myflags[g_r].flag[1].v == 0)))\n__CPROVER_decreases(32 - j)' % dis_facts('g_s', 'g_r'),
           3: '__CPROVER_assigns(j, d, __CPROVER_object_whole(LD))\n__CPROVER_loop_invariant(j <= LogP && LogP <= 3 && d == (1 << j) && i < P && lhs == &LD[i] && lhs->parity == 0 && lhs->sense == 1 && lhs->myflags[g_r].flag[0].v == 0 && lhs->myflags[g_r].flag[1].v == 0 && ((g_s < i) ==> (%s)) && (g_r < j ==> lhs->myflags[g_r].partner == &LD[(i + (1u << g_r)) %% P].myflags[g_r]))\n__CPROVER_decreases(LogP - j)' % dis_facts('g_s', 'g_r')},
    fallback_unwind=34, no_flags=['--conversion-check'], inst='participants <= 8', timeout=1200, reach_unwind=34,
    says='dissemination barrier tables for every participant count <= 8: ceil(log2 P) rounds; for an arbitrary node s and round r the partner is flag slot r of node (s + 2^r) mod P; parity 0, sense 1, all flags 0 -- whatever the previous state'))

DIS_WAIT_COMMON = [rx(r'auto& ld\s*=\s*nodes\.at\(galois::substrate::ThreadPool::getTID\(\)\)\.get\(\);', 'struct LocalData* ld = ld_at(tid);', 1, 1),
                   rx(r'auto& sense\s*=\s*ld\.sense;', 'int* sense_p = &ld->sense;', 1, 1), rx(r'auto& parity\s*=\s*ld\.parity;', 'int* parity_p = &ld->parity;', 1, 1),
                   rx(r'(?<![\w.>])sense(?![\w])', '(*sense_p)', 2), rx(r'(?<![\w.>])parity(?![\w])', '(*parity_p)', 3),
                   rx(r'ld\.myflags\[(\w+)\]\.partner->flag\[([^\]]+)\] = ([^;]+);', r'sc_store_i(&DIS_PARTNER(ld, \1)->flag[\2], \3);', 1)]
DIS_WAIT_SC = DIS_WAIT_COMMON + [rx(r'ld\.myflags\[(\w+)\]\.flag\[([^\]]+)\]', r'ld->myflags[\1].flag[\2].v', 1), spin_sc(1), rx(r'(?<![\w.>])ld\.', 'ld->', 0)]
DIS_WAIT_TM = DIS_WAIT_COMMON + [rx(r'ld\.myflags\[(\w+)\]\.flag\[([^\]]+)\]', r'sc_load_i(&ld->myflags[\1].flag[\2])', 1), PAUSE, rx(r'(?<![\w.>])ld\.', 'ld->', 0)]
DIS_T1 = """
/* the step contract looks at the caller's own LocalData and at the flag slots its partners own (PF[r] = partner of round r) */
/* the partner pointers (written only by _reinit) are kept beside the node so that loop frames need not mention them */
struct dnode { sc_i flag[2]; };
struct LocalData { int parity; int sense; struct dnode myflags[32]; };
#define DIS_PARTNER(ld, r) ME_partner[r]
struct LocalData ME; struct dnode PF[32]; struct dnode* ME_partner[32]; unsigned NN, LogP, g_tid, g_r; int g_par0, g_sense0; unsigned g_seq_r;
static inline struct LocalData* ld_at(unsigned i) { __CPROVER_assert(i < NN, "nodes.at(): index in range"); __CPROVER_assert(i == g_tid, "own node only"); return &ME; }
static inline void asmPause(void) {}
#define DONE(r) (PF[r].flag[g_par0].nw == 1 && PF[r].flag[g_par0].lastw == g_sense0 && PF[r].flag[g_par0].wseq > 0 && ME.myflags[r].flag[g_par0].rseq > PF[r].flag[g_par0].wseq && ME.myflags[r].flag[g_par0].lastr == g_sense0 && ME.myflags[r].flag[g_par0].nw == 0)
#define UNTOUCHED(r, p) (PF[r].flag[p].nw == 0 && ME.myflags[r].flag[p].nw == 0 && ME.myflags[r].flag[p].rseq == 0)
"""
UNITS.append(Unit(
    name='Dissemination_wait', src=DIS, within=DW, anchor=r'virtual void wait\(\)', proto='void Dissemination_wait(unsigned tid)',
    contract="""__CPROVER_requires(tid < NN && tid == g_tid && LogP <= 32 && g_r < 32 && g_seq == 0 && (ME.parity == 0 || ME.parity == 1) && (ME.sense == 0 || ME.sense == 1) && g_par0 == ME.parity && g_sense0 == ME.sense)
__CPROVER_requires(UNTOUCHED(g_r, 0) && UNTOUCHED(g_r, 1) && PF[g_r].flag[0].wseq == 0 && PF[g_r].flag[1].wseq == 0 && (g_r < 31 ==> (PF[g_r + 1].flag[0].wseq == 0 && PF[g_r + 1].flag[1].wseq == 0 && PF[g_r + 1].flag[0].nw == 0 && PF[g_r + 1].flag[1].nw == 0)))
/* an arbitrary round g_r: below LogP the partner's flag of the CURRENT parity was set exactly once to the current sense, and the own flag was read equal to the sense after that */
__CPROVER_ensures(g_r < LogP ? DONE(g_r) : UNTOUCHED(g_r, g_par0))
/* rounds are taken in order: the signal of round g_r+1 is sent only after the own flag of round g_r was observed */
__CPROVER_ensures((g_r + 1 < LogP) ==> (PF[g_r + 1].flag[g_par0].nw == 1 && PF[g_r + 1].flag[g_par0].wseq > ME.myflags[g_r].flag[g_par0].rseq))
/* the flags of the other parity are not touched in this phase (consecutive phases use disjoint flags) */
__CPROVER_ensures(UNTOUCHED(g_r, 1 - g_par0))
/* phase state for the next wait: parity flips, sense flips every second phase */
__CPROVER_ensures(ME.parity == 1 - g_par0 && ME.sense == (g_par0 == 1 ? 1 - g_sense0 : g_sense0))
__CPROVER_assigns(g_seq, g_seq_r, __CPROVER_object_whole(&ME), __CPROVER_object_whole(PF))""",
    prelude=['#include "gv_cells.h"\n#define GV_MAXT 16u\n', DIS_T1], lower=DIS_WAIT_TM,
    harness_pre='for (unsigned q = 0; q < 32; ++q) ME_partner[q] = &PF[q];',
    loops={1: '__CPROVER_assigns(r, g_seq, g_seq_r, __CPROVER_object_whole(&ME), __CPROVER_object_whole(PF))\n__CPROVER_loop_invariant(r <= LogP && ld == &ME && sense_p == &ME.sense && parity_p == &ME.parity && ME.parity == g_par0 && ME.sense == g_sense0'
              ' && (g_r < r ? (DONE(g_r) && ME.myflags[g_r].flag[g_par0].rseq <= g_seq) : (UNTOUCHED(g_r, g_par0) && PF[g_r].flag[g_par0].wseq == 0)) && UNTOUCHED(g_r, 1 - g_par0)'
              ' && (g_r + 1 < r ? (PF[g_r + 1].flag[g_par0].nw == 1 && PF[g_r + 1].flag[g_par0].wseq > ME.myflags[g_r].flag[g_par0].rseq) : (g_r < 31 ==> (PF[g_r + 1].flag[g_par0].nw == 0 && PF[g_r + 1].flag[g_par0].wseq == 0))))\n__CPROVER_decreases(LogP - r)',
           2: '__CPROVER_assigns(g_seq, __CPROVER_object_upto((char*)&ME.myflags[r].flag[g_par0], sizeof(sc_i)))\n__CPROVER_loop_invariant(ld == &ME && sense_p == &ME.sense && parity_p == &ME.parity && g_seq >= __CPROVER_loop_entry(g_seq) && (r == g_r ==> ME.myflags[r].flag[g_par0].nw == 0))'},
    fallback_unwind=34, no_flags=['--conversion-check'], timeout=1200, reach_unwind=34, witness='LogP == 2 && g_r == 0 && ME.parity == 1 && ME.sense == 0',
    says='one dissemination wait(): for an arbitrary round below ceil(log2 P) the partner flag of the current parity is set once to the current sense, then the own flag is read equal to it; rounds in order; flags of the other parity untouched; parity flips and sense flips every second phase'))

DIS_SC_T = """
#define GV_NFLAGS 4   /* capacity constant of the real struct is 32; rounds used here: <= 2 */
#include "gv_sc.h"
""" + DIS_T + "void Dissemination_wait_sc(unsigned tid);\n"
UNITS.append(Unit(name='Dissemination_reinit_sc', kind='assumed', src=DIS, within=DW, anchor=r'void _reinit\(unsigned P\)', proto='void Dissemination_reinit_sc(unsigned P)', contract='', lower=DIS_REINIT_RULES))
for (P_, PH_, tier_) in ((2, 3, 'quick'), (2, 4, 'thorough')):   # 3 threads x 2 phases did not finish in 40 minutes
    UNITS.append(Unit(
        name='Dissemination_phases_bounded_%dx%d' % (P_, PH_), kind='bounded', unwind=6, dfcc=False, bound_desc='%d threads x %d phases, sequentially consistent interleavings; flag array capacity 4 instead of 32' % (P_, PH_), tier=tier_,
        src=DIS, within=DW, anchor=r'virtual void wait\(\)', proto='void Dissemination_wait_sc(unsigned tid)', contract='',
        prelude=sc_prelude(P_, PH_, DIS_SC_T), pre_extract=DIS_MACROS, lower=DIS_WAIT_SC, inline=['Dissemination_reinit_sc'],
        reach=True, flags=['--no-standard-checks'], no_flags=SC_NOFLAGS, timeout=2400, reach_timeout=1200,
        says='BOUNDED: %d participants, %d consecutive phases on the tables built by the extracted _reinit: phase separation, no thread waits forever, end reachable' % (P_, PH_),
        **sc_harness(P_, PH_, '  Dissemination_reinit_sc(SC_P);\n', 'Dissemination_wait_sc(tid)')))



# ---- topology-aware barrier (the default) ------------------------------------------------------------------
TOPO = 'libgalois/src/Barrier_Topo.cpp'
TW = r'class TopoBarrier\b'
TOPO_T = """
/* machine topology (ThreadPool): socket of a thread, its socket leader, running maximum of socket ids;
   PerSocketStorage = one node per socket (getRemoteByPkg(i) / getLocal()), PerThreadStorage<unsigned> sense = one word per thread */
#ifndef TSOCK
unsigned T_socket[GV_MAXT], T_leader[GV_MAXT], T_cms[GV_MAXT];
#define TSOCK(t) T_socket[t]
#define TLEAD(t) T_leader[t]
#define TCMS(t) T_cms[t]
#endif
struct topo_node { struct topo_node* parentpointer; struct topo_node* childpointers[2]; unsigned havechild; sc_u childnotready; sc_u parentsense; };
struct topo_node SN[GV_MAXT]; unsigned SENSE[GV_MAXT];
static inline struct topo_node* sn_at(unsigned i) { __CPROVER_assert(i < GV_MAXT, "socket index in range"); return &SN[i]; }
static inline unsigned* sense_at(unsigned i) { __CPROVER_assert(i < GV_MAXT, "thread index in range"); return &SENSE[i]; }
/* what HWTopo guarantees: thread 0 on socket 0; socket ids appear densely; leader = lowest thread of the socket */
#define TOPO_OK1(t) (TLEAD(t) <= (t) && TSOCK(TLEAD(t)) == TSOCK(t) && TLEAD(TLEAD(t)) == TLEAD(t) && TSOCK(t) <= TCMS(t) && ((t) == 0 ? (TSOCK(0) == 0 && TCMS(0) == 0) : (TCMS(t) == (TSOCK(t) > TCMS((t) - 1) ? TSOCK(t) : TCMS((t) - 1)) && TSOCK(t) <= TCMS((t) - 1) + 1)))
"""
TOPO_REINIT_RULES = [rx(r'auto& tp\s*=\s*galois::substrate::getThreadPool\(\);', '', 1, 1), rx(r'tp\.getCumulativeMaxSocket\(([^()]+)\)', r'TCMS(\1)', 1),
                     rx(r'treenode& n\s*=\s*\*nodes\.getRemoteByPkg\(i\);', 'struct topo_node* n = sn_at(i);', 1, 1), rx(r'n\.childnotready = 0;', 'n->childnotready.v = 0;', 1, 1),
                     rx(r'\+\+n\.childnotready;', 'n->childnotready.v++;', 2, 2), rx(r'tp\.getSocket\(([^()]+)\)', r'TSOCK(\1)', 0), rx(r'tp\.isLeader\(([^()]+)\)', r'(TLEAD(\1) == (\1))', 0), rx(r'tp\.getLeader\(([^()]+)\)', r'TLEAD(\1)', 0),
                     rx(r'nodes\.getRemoteByPkg\(', 'sn_at(', 3, 3), rx(r'n\.parentsense = 0;', 'n->parentsense.v = 0;', 1, 1), rx(r'\*sense\.getRemote\(i\) = 1;', '*sense_at(i) = 1;', 1, 1),
                     rx(r'(?<![\w.>])n\.', 'n->', 5)]
TOPO_WAIT_COMMON = [rx(r'unsigned id = galois::substrate::ThreadPool::getTID\(\);', 'unsigned id = tid;', 1, 1), rx(r'treenode& n = \*nodes\.getLocal\(\);', 'struct topo_node* n = sn_at(TSOCK(tid));', 1, 1),
                    rx(r'unsigned& s = \*sense\.getLocal\(\);', 'unsigned* s_p = sense_at(tid);', 1, 1), rx(r'bool leader = galois::substrate::ThreadPool::isLeader\(\);', 'bool leader = (TLEAD(tid) == tid);', 1, 1),
                    rx(r'(?<![\w.>])s(?![\w])', '(*s_p)', 3),
                    rx(r'--n\.parentpointer->childnotready;', 'sc_dec_u(&n->parentpointer->childnotready);', 0), rx(r'--n\.childnotready;', 'sc_dec_u(&n->childnotready);', 0),
                    rx(r'n\.childnotready = ([^;]+);', r'sc_store_u(&n->childnotready, \1);', 1), rx(r'n\.childpointers\[(\w+)\]->parentsense = ([^;]+);', r'sc_store_u(&n->childpointers[\1]->parentsense, \2);', 1),
                    rx(r'n\.parentsense = ([^;]+);', r'sc_store_u(&n->parentsense, \1);', 1)]
TOPO_WAIT_SC = TOPO_WAIT_COMMON + [rx(r'n\.childnotready(?![\w])', 'n->childnotready.v', 1), rx(r'n\.parentsense(?![\w])', 'n->parentsense.v', 1), spin_sc(2), rx(r'(?<![\w.>])n\.', 'n->', 3)]
TOPO_WAIT_TM = TOPO_WAIT_COMMON + [rx(r'n\.childnotready(?![\w])', 'sc_load_u(&n->childnotready)', 1), rx(r'n\.parentsense(?![\w])', 'sc_load_u(&n->parentsense)', 1), PAUSE, rx(r'(?<![\w.>])n\.', 'n->', 3)]
TOPO_RT = """
unsigned g_s, g_t, g_pkgs, g_cnt[GV_MAXT + 1];   /* g_cnt[j] = number of non-leader threads < j on the probe socket g_s (ghost prefix count, defined in the precondition) */
#define NCHILD(s, pk) ((unsigned)((4 * (s) + 1) < (pk)) + (unsigned)((4 * (s) + 2) < (pk)) + (unsigned)((4 * (s) + 3) < (pk)) + (unsigned)((4 * (s) + 4) < (pk)))
#define TOPO_NODE_OK(s, P) (SN[s].havechild == NCHILD(s, g_pkgs) + g_cnt[P] && SN[s].childnotready.v == SN[s].havechild && SN[s].parentsense.v == 0 && \\
   SN[s].parentpointer == ((s) == 0 ? (struct topo_node*)0 : &SN[((s) - 1) / 4]) && \\
   SN[s].childpointers[0] == ((2 * (s) + 1) >= g_pkgs ? (struct topo_node*)0 : &SN[2 * (s) + 1]) && SN[s].childpointers[1] == ((2 * (s) + 2) >= g_pkgs ? (struct topo_node*)0 : &SN[2 * (s) + 2]))
"""
UNITS.append(Unit(
    name='Topo_reinit', src=TOPO, within=TW, anchor=r'void _reinit\(unsigned P\)', proto='void Topo_reinit(unsigned P)',
    contract="""__CPROVER_requires(P >= 1 && P <= GV_MAXT && g_s < GV_MAXT && g_t < GV_MAXT && g_pkgs == T_cms[P - 1] + 1 && g_pkgs <= P)
__CPROVER_requires(g_cnt[0] == 0 && __CPROVER_forall { unsigned q; (q < GV_MAXT) ==> g_cnt[q + 1] == g_cnt[q] + ((T_socket[q] == g_s && T_leader[q] != q) ? 1u : 0u) })
/* an arbitrary socket g_s below the number of sockets in use: arrival count = child sockets in the 4-ary tree + the non-leader threads of the socket among the P participants */
__CPROVER_ensures(g_s < g_pkgs ==> TOPO_NODE_OK(g_s, P))
__CPROVER_ensures(g_t < P ==> SENSE[g_t] == 1)
__CPROVER_assigns(__CPROVER_object_whole(SN), __CPROVER_object_whole(SENSE))""",
    prelude=['#define GV_CELLS_PLAIN\n#include "gv_cells.h"\n#define GV_MAXT 16u\n', TOPO_T, TOPO_RT], lower=TOPO_REINIT_RULES,
    loops={1: '__CPROVER_assigns(i, __CPROVER_object_whole(SN))\n__CPROVER_loop_invariant(i <= pkgs && pkgs == g_pkgs && ((g_s < i) ==> TOPO_NODE_OK(g_s, P)))\n__CPROVER_decreases(pkgs - i)',
           2: '__CPROVER_assigns(j, __CPROVER_object_whole(SN))\n__CPROVER_loop_invariant(0 <= j && j <= 4 && i < pkgs && pkgs == g_pkgs && n == &SN[i] && ((g_s < i) ==> TOPO_NODE_OK(g_s, P)) && n->childnotready.v == n->havechild && n->havechild == (unsigned)(j > 0 && (4 * i + 1) < pkgs) + (unsigned)(j > 1 && (4 * i + 2) < pkgs) + (unsigned)(j > 2 && (4 * i + 3) < pkgs) + (unsigned)(j > 3 && (4 * i + 4) < pkgs))\n__CPROVER_decreases(4 - j)',
           3: '__CPROVER_assigns(j, __CPROVER_object_whole(SN))\n__CPROVER_loop_invariant(j <= P && i < pkgs && pkgs == g_pkgs && n == &SN[i] && ((g_s < i) ==> TOPO_NODE_OK(g_s, P)) && n->childnotready.v == n->havechild && (i == g_s ==> n->havechild == NCHILD(i, pkgs) + g_cnt[j]) && n->havechild <= 4 + j)\n__CPROVER_decreases(P - j)',
           4: '__CPROVER_assigns(i, __CPROVER_object_whole(SENSE))\n__CPROVER_loop_invariant(i <= P && ((g_t < i) ==> SENSE[g_t] == 1))\n__CPROVER_decreases(P - i)'},
    fallback_unwind=18, no_flags=['--conversion-check'], inst='participants <= 16', timeout=1200, reach_unwind=18, witness='P == 3 && T_socket[0] == 0 && T_socket[1] == 0 && T_socket[2] == 1 && T_leader[0] == 0 && T_leader[1] == 0 && T_leader[2] == 2 && T_cms[2] == 1 && g_s == 0 && g_t == 1',
    says='TopoBarrier tables for every participant count <= 16 and ANY thread-to-socket table: for an arbitrary socket the arrival count is (child sockets in the 4-ary tree) + (non-leader participants on the socket), counter == count, parentsense 0, arrival parent = socket (s-1)/4, wake-up children = sockets 2s+1, 2s+2; every participant\'s sense word is 1 -- whatever the previous state'))

TOPO_T1 = """
/* the step contract looks at the caller's socket node ME, the parent socket's node PN and the two wake-up children C0/C1 */
struct topo_node { struct topo_node* parentpointer; struct topo_node* childpointers[2]; unsigned havechild; sc_u childnotready; sc_u parentsense; };
struct topo_node ME, PN, C0, C1; unsigned MYSENSE, g_tid, g_s0; bool g_leader, g_haspar, g_hasc0, g_hasc1;
#define TSOCK(t) 0u
#define TLEAD(t) (g_leader ? (t) : (t) + 1u)
static inline struct topo_node* sn_at(unsigned i) { return &ME; }
static inline unsigned* sense_at(unsigned i) { __CPROVER_assert(i == g_tid, "own sense word only"); return &MYSENSE; }
static inline void asmPause(void) {}
"""
UNITS.append(Unit(
    name='Topo_wait', src=TOPO, within=TW, anchor=r'virtual void wait\(\)', proto='void Topo_wait(unsigned tid)',
    contract="""__CPROVER_requires(tid == g_tid && g_seq == 0 && g_s0 == MYSENSE && (g_tid == 0 ==> (g_leader && !g_haspar)) && (!g_leader ==> g_tid != 0))
__CPROVER_requires(GV_CELL_CLEAN(ME.childnotready) && GV_CELL_CLEAN(ME.parentsense) && GV_CELL_CLEAN(PN.childnotready) && GV_CELL_CLEAN(PN.parentsense) && GV_CELL_CLEAN(C0.parentsense) && GV_CELL_CLEAN(C1.parentsense) && GV_CELL_CLEAN(C0.childnotready) && GV_CELL_CLEAN(C1.childnotready))
/* leader: saw the socket's arrival counter at 0, re-armed it to havechild, then (with a parent) decremented the parent's counter exactly once */
__CPROVER_ensures(g_leader ==> (ME.childnotready.lastr == 0 && ME.childnotready.rseq > 0 && ME.childnotready.nw == 1 && ME.childnotready.lastw == ME.havechild && ME.childnotready.wseq > ME.childnotready.rseq))
__CPROVER_ensures((g_leader && g_haspar) ? (PN.childnotready.nw == 1 && PN.childnotready.lastw == PN.childnotready.lastr - 1u && PN.childnotready.wseq > ME.childnotready.wseq) : PN.childnotready.nw == 0)
/* non-leader: decremented its socket's counter exactly once */
__CPROVER_ensures(!g_leader ==> (ME.childnotready.nw == 1 && ME.childnotready.lastw == ME.childnotready.lastr - 1u))
/* everybody but thread 0 left only after reading its socket's parentsense equal to its own sense, after its arrival was published */
__CPROVER_ensures(g_tid != 0 ? (ME.parentsense.lastr == g_s0 && ME.parentsense.rseq > ME.childnotready.wseq && (g_haspar ==> ME.parentsense.rseq > PN.childnotready.wseq)) : ME.parentsense.rseq == 0)
/* wake-up: a leader tells each existing child socket once (the sense of this phase) after its own release; thread 0 also releases its own socket; nobody else writes a parentsense */
__CPROVER_ensures((g_leader && g_hasc0) ? (C0.parentsense.nw == 1 && C0.parentsense.lastw == g_s0 && C0.parentsense.wseq > ME.parentsense.rseq && C0.parentsense.wseq > ME.childnotready.wseq) : C0.parentsense.nw == 0)
__CPROVER_ensures((g_leader && g_hasc1) ? (C1.parentsense.nw == 1 && C1.parentsense.lastw == g_s0 && C1.parentsense.wseq > ME.parentsense.rseq && C1.parentsense.wseq > ME.childnotready.wseq) : C1.parentsense.nw == 0)
__CPROVER_ensures(g_tid == 0 ? (ME.parentsense.nw == 1 && ME.parentsense.lastw == g_s0 && ME.parentsense.wseq > ME.childnotready.wseq) : ME.parentsense.nw == 0)
__CPROVER_ensures(PN.parentsense.nw == 0 && C0.childnotready.nw == 0 && C1.childnotready.nw == 0)
/* own sense advanced for the next phase */
__CPROVER_ensures(MYSENSE == g_s0 + 1u)
__CPROVER_assigns(g_seq, MYSENSE, __CPROVER_object_whole(&ME), __CPROVER_object_whole(&PN), __CPROVER_object_whole(&C0), __CPROVER_object_whole(&C1))""",
    prelude=['#include "gv_cells.h"\n#define GV_MAXT 16u\n', TOPO_T1], lower=TOPO_WAIT_TM,
    harness_pre='ME.parentpointer = g_haspar ? &PN : (struct topo_node*)0; ME.childpointers[0] = g_hasc0 ? &C0 : (struct topo_node*)0; ME.childpointers[1] = g_hasc1 ? &C1 : (struct topo_node*)0;',
    loops={1: '__CPROVER_assigns(g_seq, __CPROVER_object_upto((char*)&ME.childnotready, sizeof(ME.childnotready)))\n__CPROVER_loop_invariant(n == &ME && s_p == &MYSENSE && ME.childnotready.nw == 0 && ME.childnotready.wseq == 0)',
           2: '__CPROVER_assigns(g_seq, __CPROVER_object_upto((char*)&ME.parentsense, sizeof(ME.parentsense)))\n__CPROVER_loop_invariant(n == &ME && s_p == &MYSENSE && g_seq >= __CPROVER_loop_entry(g_seq) && ME.parentsense.nw == 0)'},
    fallback_unwind=6, no_flags=['--conversion-check'], timeout=600,
    says='one TopoBarrier wait() for a leader / non-leader / thread 0: arrival published (socket counter re-armed by the leader before it tells the parent socket), release observed on the socket\'s parentsense, wake-up children told once with the sense of this phase, own sense advanced -- in that order'))

TOPO_SC_T = """
#include "gv_sc.h"
bool nondet_bool(void);
""" + TOPO_T + "void Topo_wait_sc(unsigned tid);\n"
UNITS.append(Unit(name='Topo_reinit_sc', kind='assumed', src=TOPO, within=TW, anchor=r'void _reinit\(unsigned P\)', proto='void Topo_reinit_sc(unsigned P)', contract='', lower=TOPO_REINIT_RULES))
def topo_macros(socks):
    """the fixed topology of one bounded run as constant expressions (no shared memory traffic for the tables)"""
    lead, cms = [], []
    for t, k in enumerate(socks):
        lead.append(lead[t - 1] if t and socks[t - 1] == k else t)
        cms.append(max(socks[:t + 1]))
    def tab(vals):
        e = str(vals[-1])
        for t in range(len(vals) - 2, -1, -1):
            e = '((t) == %d ? %du : %s)' % (t, vals[t], e if t < len(vals) - 2 else '%du' % vals[-1])
        return e
    return '#define TSOCK(t) %s\n#define TLEAD(t) %s\n#define TCMS(t) %s\n' % (tab(list(socks)), tab(lead), tab(cms))
TOPO_INIT = ''.join('  __CPROVER_assert(TOPO_OK1(%du), "harness topology is a valid one");\n' % t for t in range(4))
for (socks, PH_, tier_) in (((0, 1), 3, 'quick'), ((0, 0, 1), 2, 'quick'), ((0, 1, 1), 2, 'quick'), ((0, 0, 0), 2, 'thorough'), ((0, 1, 2), 2, 'thorough'), ((0, 0, 1), 3, 'thorough'), ((0, 0, 1, 1), 2, 'thorough')):
    P_ = len(socks)
    UNITS.append(Unit(
        name='Topo_phases_bounded_%s_x%d' % (''.join(map(str, socks)), PH_), kind='bounded', unwind=6, dfcc=False, tier=tier_,
        bound_desc='%d threads on sockets %s x %d phases, sequentially consistent interleavings' % (P_, list(socks), PH_),
        src=TOPO, within=TW, anchor=r'virtual void wait\(\)', proto='void Topo_wait_sc(unsigned tid)', contract='',
        prelude=sc_prelude(P_, PH_, topo_macros(socks) + TOPO_SC_T), lower=TOPO_WAIT_SC, inline=['Topo_reinit_sc'],
        reach=True, flags=['--no-standard-checks'], no_flags=SC_NOFLAGS, timeout=2400, reach_timeout=900,
        says='BOUNDED: %d participants on sockets %s, %d consecutive phases on the tables built by the extracted _reinit: phase separation, no thread waits forever, end reachable' % (P_, list(socks), PH_),
        **sc_harness(P_, PH_, ''.join('  __CPROVER_assert(TOPO_OK1(%du), "harness topology is a valid one");\n' % t for t in range(P_)) + '  Topo_reinit_sc(SC_P);\n', 'Topo_wait_sc(tid)')))


# ---- 'simple' barrier: two one-way condition-variable barriers back to back ---------------------------------
SIM = 'libgalois/src/Barrier_Simple.cpp'
OWW = r'class OneWayBarrier\b'
SBW = r'class SimpleBarrier\b'
OW_FIELDS = rx(r'(?<![\w.>])(count|total|left)(?![\w(])', r'self->\1', 2)
# thread-modular monitor view: the mutex protects count/total/left; while this thread is blocked in cond.wait the other
# participants run their critical sections (mon_wait = environment step under the rely below)
OW_TM_T = """
struct OW { unsigned count, total, left; bool held; };
unsigned nondet_unsigned(void);
unsigned g_waits; bool g_entered;
/* monitor invariant while the mutex is free, for `total` participants that use the barrier once per phase
   (SimpleBarrier: nobody re-enters before everybody has left, because the other one-way barrier is in between) */
#define OW_INV(b) ((b)->total >= 1 && (b)->count <= (b)->total && (b)->left <= (b)->total && ((b)->left > 0 ==> (b)->count == (b)->total) && (b)->left < (b)->total)
static inline void mon_lock(struct OW* b) { __CPROVER_assert(!b->held, "mutex not held by this thread yet"); b->held = 1; }
static inline void mon_unlock(struct OW* b) { __CPROVER_assert(b->held, "unlock of a held mutex"); b->held = 0; }
/* cond.wait(lock): releases the mutex, blocks, re-acquires.  RELY while this thread is inside (arrived, not left):
   others only arrive (count grows, never beyond total) or leave (left grows; it cannot reach total without this thread,
   so nobody resets); total is not touched */
static inline void mon_wait(struct OW* b)
{
  __CPROVER_assert(b->held, "cond.wait with the mutex held");
  unsigned c = nondet_unsigned(), l = nondet_unsigned();
  __CPROVER_assume(c >= b->count && c <= b->total && l >= b->left && l < b->total && (l > 0 ==> c == b->total));
  b->count = c; b->left = l; g_waits++;
}
static inline void notify_all(void) {}
"""
OW_WAIT_TM = [rx(r'std::unique_lock<std::mutex> tmp\(lock\);', 'mon_lock(self);', 1, 1),
              rx(r'cond\.wait\(tmp, \[this\]\(\) \{ return ([^;]+); \}\);', r'while (!(\1)) { mon_wait(self); }', 1, 1),
              rx(r'cond\.notify_all\(\);', 'notify_all();', 1, 1), OW_FIELDS, rx(r'\A(.*\S)\s*\Z', r'\1\n    mon_unlock(self);   /* ~unique_lock */\n', 1, 1, flags=re.S)]
UNITS.append(Unit(
    name='OneWayBarrier_wait', src=SIM, within=OWW, anchor=r'virtual void wait\(\)', proto='void OneWayBarrier_wait(struct OW* self)',
    contract="""__CPROVER_requires(__CPROVER_is_fresh(self, sizeof(*self)) && !self->held && OW_INV(self) && self->left == 0 && self->count < self->total && self->total <= 0x7fffffff && g_waits == 0)
/* returns only with everybody arrived; the LAST thread to leave (and only it) re-arms count and left; the mutex is released; total untouched */
__CPROVER_ensures(!self->held && self->total == __CPROVER_old(self->total) && self->left < self->total && (self->left == 0 ? self->count == 0 : self->count == self->total))
__CPROVER_assigns(__CPROVER_object_whole(self), g_waits)""",
    prelude=[OW_TM_T], lower=OW_WAIT_TM,
    loops={1: '__CPROVER_assigns(self->count, self->left, g_waits)\n__CPROVER_loop_invariant(self->held && self->count >= 1 && self->count <= self->total && self->left < self->total && (self->left > 0 ==> self->count == self->total))'},
    fallback_unwind=4, no_flags=['--conversion-check'],
    replay=dict(prog='simple_barrier', args=[], lib=True, sources=['libgalois/src/Barrier_Simple.cpp']),
    says='OneWayBarrier::wait as a monitor step (after the fix): the caller arrives under the mutex, leaves only when count >= total was true under the mutex, and count/left are reset only by the last thread to leave -- so a notified thread that has not yet re-checked the predicate still finds it true; the monitor invariant is re-established and the mutex released'))
UNITS.append(Unit(
    name='OneWayBarrier_reinit', src=SIM, within=OWW, anchor=r'virtual void reinit\(unsigned val\)', proto='void OneWayBarrier_reinit(struct OW* self, unsigned val)',
    contract="""__CPROVER_requires(__CPROVER_is_fresh(self, sizeof(*self)))
__CPROVER_ensures(self->count == 0 && self->left == 0 && self->total == val && self->held == __CPROVER_old(self->held))
__CPROVER_assigns(self->count, self->left, self->total)""",
    prelude=[OW_TM_T], lower=[OW_FIELDS],
    says='re-initialisation to any participant count: empty barrier, whatever the previous state'))
SB_T = """
struct OW { unsigned count, total, left; };
struct OW B1, B2;
unsigned g_log[4], g_nlog; bool g_reinit_in_wait;
void OW_wait_stub(struct OW* b) { if (g_nlog < 4) g_log[g_nlog] = (b == &B1 ? 1u : b == &B2 ? 2u : 3u); g_nlog++; }
void OW_reinit_stub(struct OW* b, unsigned v) { g_reinit_in_wait = 1; }
"""
UNITS.append(Unit(
    name='SimpleBarrier_wait', src=SIM, within=SBW, anchor=r'virtual void wait\(\)', proto='void SimpleBarrier_wait(unsigned tid)',
    contract="""__CPROVER_requires(g_nlog == 0 && !g_reinit_in_wait)
/* exactly: the first one-way barrier, then the second; no thread resets a one-way barrier from outside while others may be inside it */
__CPROVER_ensures(g_nlog == 2 && g_log[0] == 1 && g_log[1] == 2 && !g_reinit_in_wait)
__CPROVER_assigns(g_nlog, g_reinit_in_wait, __CPROVER_object_whole(g_log))""",
    prelude=[SB_T], lower=[rx(r'barrier([12])\.wait\(\);', r'OW_wait_stub(&B\1);', 2, 2), rx(r'barrier([12])\.reinit\([^)]*\);', r'OW_reinit_stub(&B\1, 0);', 0), rx(r'galois::substrate::ThreadPool::getTID\(\)', 'tid', 0)],
    replay=dict(prog='simple_barrier', args=[], lib=True, sources=['libgalois/src/Barrier_Simple.cpp']),
    says='SimpleBarrier::wait is the two one-way barriers back to back and nothing else (a reset by one thread outside the mutex, as before the fix, is a violation)'))

SIM_SC_T = """
#include "gv_sc.h"
struct OW { sc_mutex lock; unsigned count, total, left; };
struct OW OWB[2];
void OneWay_wait_sc(struct OW* self, unsigned tid);
void OneWay_reinit_sc(struct OW* self, unsigned val);
void Simple_wait_sc(unsigned tid);
static inline void notify_all(void) {}
"""
OW_WAIT_SC = [rx(r'std::unique_lock<std::mutex> tmp\(lock\);', 'sc_lock(&self->lock);', 1, 1),
              rx(r'cond\.wait\(tmp, \[this\]\(\) \{ return ([^;]+); \}\);', r'sc_cond_wait(tid, &self->lock, \1);', 1, 1),
              rx(r'cond\.notify_all\(\);', 'notify_all();', 1, 1), OW_FIELDS, rx(r'\A(.*\S)\s*\Z', r'\1\n    sc_unlock(&self->lock);   /* ~unique_lock */\n', 1, 1, flags=re.S)]
UNITS.append(Unit(name='OneWay_wait_sc', kind='assumed', src=SIM, within=OWW, anchor=r'virtual void wait\(\)', proto='void OneWay_wait_sc(struct OW* self, unsigned tid)', contract='', lower=OW_WAIT_SC))
UNITS.append(Unit(name='OneWay_reinit_sc', kind='assumed', src=SIM, within=OWW, anchor=r'virtual void reinit\(unsigned val\)', proto='void OneWay_reinit_sc(struct OW* self, unsigned val)', contract='', lower=[OW_FIELDS]))
UNITS.append(Unit(name='Simple_reinit_sc', kind='assumed', src=SIM, within=SBW, anchor=r'virtual void reinit\(unsigned val\)', proto='void Simple_reinit_sc(unsigned val)', contract='',
                  lower=[rx(r'barrier([12])\.reinit\(val\);', lambda m: 'OneWay_reinit_sc(&OWB[%d], val);' % (int(m.group(1)) - 1), 2, 2), rx(r'(?<![\w.>])total = val;', '', 0)]))
for (P_, PH_, tier_) in ((2, 2, 'quick'),):   # 2x3 and 3x2 did not finish in 40 minutes
    UNITS.append(Unit(
        name='Simple_phases_bounded_%dx%d' % (P_, PH_), kind='bounded', unwind=6, dfcc=False, bound_desc='%d threads x %d phases, sequentially consistent interleavings, spurious wake-ups allowed, notifications not modelled' % (P_, PH_), tier=tier_,
        src=SIM, within=SBW, anchor=r'virtual void wait\(\)', proto='void Simple_wait_sc(unsigned tid)', contract='',
        prelude=sc_prelude(P_, PH_, SIM_SC_T), lower=[rx(r'barrier([12])\.wait\(\);', lambda m: 'OneWay_wait_sc(&OWB[%d], tid);' % (int(m.group(1)) - 1), 2, 2),
                                                      rx(r'barrier([12])\.reinit\(total\);', lambda m: 'OneWay_reinit_sc(&OWB[%d], SC_P);' % (int(m.group(1)) - 1), 0), rx(r'galois::substrate::ThreadPool::getTID\(\)', 'tid', 0)],
        inline=['OneWay_wait_sc', 'OneWay_reinit_sc', 'Simple_reinit_sc'],
        reach=True, flags=['--no-standard-checks'], no_flags=SC_NOFLAGS, timeout=2400, reach_timeout=900,
        says='BOUNDED: %d participants, %d consecutive phases of the extracted SimpleBarrier (mutex-protected sections = monitor steps, condition wait = blocked until the predicate holds): phase separation, no thread waits forever, end reachable' % (P_, PH_),
        **sc_harness(P_, PH_, '  Simple_reinit_sc(SC_P);\n', 'Simple_wait_sc(tid)')))


EXPLANATION = ('Five barriers (counting, MCS tree, dissemination, topology-aware, condition-variable "simple"): _reinit/reinit and wait() are extracted from /repo on every run and lowered to C twice: '
               '(1) with the thread-modular cell stub (gv_cells.h / gv_atomic.h) they are PROVED as per-call contracts -- tables for every participant count within the configuration bound, and every wait() as a step: '
               'arrival published, release observed, wake-up sent, phase state re-armed, in that order; '
               '(2) with CBMC threads (gv_sc.h) the same bodies are run in BOUNDED configurations for phase separation, "no thread waits forever" and reuse over consecutive phases.')
NOT_DECIDED = ('the global property for unbounded participants / phases / interleavings (only per-call steps are proved; the runs are bounded); weak memory (runs are sequentially consistent); the pthread barrier '
               '(external pthread_barrier_wait); notification semantics of the condition variable; re-initialisation while threads are inside a barrier; barrier selection in Substrate.cpp.')
ASSUMPTIONS = ['interference stubs: gv_atomic.h / gv_cells.h (environment may rewrite a shared word before every atomic operation; ghost clock does not wrap) for the step contracts',
               'gv_sc.h for the bounded runs: CBMC SC interleavings, atomic operations indivisible, spin loop / condition wait = blocked until the predicate holds, deadlock = every unfinished thread blocked on a false predicate',
               'std::vector<CacheLineStorage<T>> / PerThreadStorage / PerSocketStorage = arrays indexed by thread / socket, within <= 16 participants (8 for the dissemination tables)',
               'OneWayBarrier monitor rely: participants use a one-way barrier once per phase and nobody re-enters before everybody left (what SimpleBarrier\'s second one-way barrier provides; checked only by the bounded run)',
               'topology tables are arbitrary for Topo_reinit; the bounded runs use fixed socket assignments']
