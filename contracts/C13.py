"""C13 -- work-division routines return ordered, disjoint pieces that exactly
cover the input.  Contracts on the real functions of gstl.h, Range.h,
GraphHelpers.h/.cpp, FileGraph.cpp (DESIGN.md 6, C13)."""
from gv.unit import Unit
from gv.lower import (bind, ren, members, refs, call, fcall, index, stdfn, mkpair, casts,
                      drop, dropcall, rx)

GSTL = 'libgalois/include/galois/gstl.h'
RANGE = 'libgalois/include/galois/runtime/Range.h'
GH_H = 'libgalois/include/galois/graphs/GraphHelpers.h'
GH_C = 'libgalois/src/GraphHelpers.cpp'
FG_C = 'libgalois/src/FileGraph.cpp'

UNITS = []

# ---------------------------------------------------------------------------
# block_range, integral overload  (gstl.h)
#   pieces ordered / inside / first starts at b / last ends at e   (this unit)
#   piece(id).second == piece(id+1).first                          (lemma unit)
# => ordered, pairwise disjoint, exact cover.

BR_ANCHOR_INT = r'std::pair<IntTy, IntTy>\s+block_range\(IntTy b, IntTy e, unsigned id,\s*unsigned num\)'
BR_ANCHOR_IT = r'std::pair<IterTy, IterTy>\s+block_range\(IterTy b, IterTy e, unsigned id,\s*unsigned num\)'


def br_contract(T, bound):
    return '''
__CPROVER_requires(b <= e && num >= 1 && id < num)
__CPROVER_requires(%s)
__CPROVER_ensures(b <= __CPROVER_return_value.first && __CPROVER_return_value.first <= __CPROVER_return_value.second && __CPROVER_return_value.second <= e)
__CPROVER_ensures(__CPROVER_return_value.first - b == br_spec_lo((gv_u128)(e - b), id, num))
__CPROVER_ensures(__CPROVER_return_value.second - b == br_spec_lo((gv_u128)(e - b), id + 1u, num))
__CPROVER_assigns()
''' % bound


# the spec: piece id of num over a range of length d starts at
# min(ceil(d/num) * id, d) -- in 128-bit arithmetic so that a wrapped machine
# result disagrees with it.  (max(.,1) is irrelevant to the cut points: when
# ceil(d/num)==0 then d==0.)
BR_SPEC = '''
static inline gv_u128 br_spec_lo(gv_u128 d, gv_u128 id, gv_u128 num)
{
  gv_u128 per = (d + num - 1) / num;
  gv_u128 x = per * id;
  return x < d ? x : d;
}
'''

for T, S, bound in [
        ('uint64_t', 'u64', '(e - b) <= ((uint64_t)1 << 62)'),
        ('uint32_t', 'u32', '(uint64_t)(e - b) + (uint64_t)num <= (uint64_t)UINT32_MAX')]:
    # (a signed IntTy is not instantiated anywhere in /repo -- every integral
    # call site passes size_t/uint64_t -- and IntTy=int does not even compile:
    # std::max(unsigned, int).  int64_t timed out on every back end: not claimed.)
    UNITS.append(Unit(
        name='block_range_' + S, src=GSTL, anchor=BR_ANCHOR_INT,
        proto='struct pair_%s block_range_%s(%s b, %s e, unsigned id, unsigned num)' % (S, S, T, T),
        contract=br_contract(T, bound), prelude=BR_SPEC,
        lower=[bind('IntTy', T, 5), stdfn('std::max', 'gv_max_' + S), stdfn('std::min', 'gv_min_' + S, 2),
               mkpair('std::make_pair', 'struct pair_' + S)],
        backend='ib', inst='IntTy=%s' % T,
        says='contiguous piece inside [b,e); first piece starts at b, last ends at e; cut points equal the 128-bit spec (no wrap-around)',
        replay=dict(prog='block_range', args=['b', 'e', 'id', 'num'], cxxflags=['-DIT=' + T]),
    ))

# iterator overload, proved for the random-access counting-iterator
# instantiation (what galois::iterate(int,int) produces): distance/advance are
# integer subtraction/addition.
UNITS.append(Unit(
    name='block_range_iter', src=GSTL, anchor=BR_ANCHOR_IT,
    proto='struct pair_u64 block_range_iter(uint64_t b, uint64_t e, unsigned id, unsigned num)',
    contract=br_contract('uint64_t', '(e - b) <= ((uint64_t)1 << 62)'), prelude=[BR_SPEC, '''
static inline size_t gv_distance(uint64_t a, uint64_t b) { return b - a; }
#define gv_advance(it, n) ((it) += (n))
'''],
    lower=[stdfn('std::max', 'gv_max_u64'), stdfn('std::min', 'gv_min_u64', 2),
           stdfn('std::distance', 'gv_distance'), stdfn('std::advance', 'gv_advance', 2),
           mkpair('std::make_pair', 'struct pair_u64')],
    backend='ib', inst='IterTy=boost::counting_iterator<uint64_t> (distance = subtraction, advance = addition)',
    says='same as the integral overload, for random-access integer iterators',
    replay=dict(prog='block_range', args=['b', 'e', 'id', 'num'], cxxflags=['-DIT=uint64_t', '-DITER']),
))

# ---- lemmas ---------------------------------------------------------------
# (i) pure spec lemma, proved once (a "lemma function": empty body, contract
#     enforced): the 128-bit cut-point function starts at 0, ends at d.
UNITS.append(Unit(
    name='lemma_br_spec', kind='contract', body_override='', prelude=BR_SPEC,
    proto='void lemma_br_spec(gv_u128 d, gv_u128 k, gv_u128 num)',
    contract='''
__CPROVER_requires(num >= 1 && k <= num && d <= UINT64_MAX && num <= UINT32_MAX)
__CPROVER_ensures(br_spec_lo(d, 0, num) == 0)
__CPROVER_ensures(k == num ==> br_spec_lo(d, k, num) == d)
__CPROVER_ensures(br_spec_lo(d, k, num) <= d)
__CPROVER_assigns()
''', backend='ib', witness='d == 10 && k == 3 && num == 3',
    says='spec function: cut 0 is the start, cut num is the end (ceil(d/num)*num >= d)'))

# (ii) lemmas over the CONTRACT of block_range (callee replaced by its
# contract, never its body).  Kept in two small units: the int-blasting back
# end is fast on each and gets lost when the facts are mixed.
BOUNDS = dict(u64='(e - b) <= ((uint64_t)1 << 62)', iter='(e - b) <= ((uint64_t)1 << 62)',
              u32='(uint64_t)(e - b) + (uint64_t)num <= (uint64_t)UINT32_MAX',
              i64='b >= -((int64_t)1 << 61) && e <= ((int64_t)1 << 61)')
for S, T in [('u64', 'uint64_t'), ('u32', 'uint32_t'), ('iter', 'uint64_t')]:
    P = 'u64' if S == 'iter' else S
    D = dict(T=T, S=S, P=P, B=BOUNDS[S])
    UNITS.append(Unit(
        name='lemma_block_range_ends_' + S, kind='lemma', uses=['lemma_br_spec', 'block_range_' + S],
        harness='''
  %(T)s b, e; unsigned id, num;
  __CPROVER_assume(num >= 1 && id < num && b <= e && (%(B)s));
  GV_WITNESS(b == 3 && e == 13 && num == 4 && id == 3);
  lemma_br_spec((gv_u128)(e - b), id + 1u, num);
  struct pair_%(P)s p = block_range_%(S)s(b, e, id, num);
  if (id == 0) __CPROVER_assert(p.first == b, "first piece starts at the beginning of the input");
  if (id + 1u == num) __CPROVER_assert(p.second == e, "last piece ends at the end of the input");
''' % D, backend='ib',
        says='exact cover: the first piece starts at b and the last piece ends at e'))
    UNITS.append(Unit(
        name='lemma_block_range_adjacent_' + S, kind='lemma', uses=['block_range_' + S],
        harness='''
  %(T)s b, e; unsigned id, num;
  __CPROVER_assume(num >= 2 && id < num - 1u && b <= e && (%(B)s));
  GV_WITNESS(b == 3 && e == 13 && num == 4 && id == 1);
  struct pair_%(P)s p = block_range_%(S)s(b, e, id, num);
  struct pair_%(P)s q = block_range_%(S)s(b, e, id + 1u, num);
  __CPROVER_assert(p.second == q.first, "adjacent pieces share their boundary: piece(id).end == piece(id+1).begin");
  __CPROVER_assert(p.first <= q.first && p.second <= q.second, "pieces appear in order");
''' % D, backend='ib',
        says='pairwise disjoint and in order: consecutive pieces share their boundary'))

# ---------------------------------------------------------------------------
# Edge-balanced node division by prefix sum (GraphHelpers.h)
#
# The prefix sum is an abstract template parameter with operator[] in the
# source; it is lowered to a lookup function (rule L-lookup) whose contract is
# the ASSUMPTION on the input: with
#     EB(k) = edgePrefixSum[k-1+nodeOffset] - edgeOffset   (edges before node k)
#     W(k)  = EB(k) * edgeWeight + k * nodeWeight           (weight before node k)
# W is non-decreasing in k.  Universally quantified facts are carried by ghost
# probes (never read or written by the code, hence arbitrary):
#   * a TARGET probe  g_T  with  g_L = LEAST(g_T) = least k in [0,N] such that
#     k == N or W(k) >= g_T,  g_EL = EB(g_L),  g_ELM1 = EB(g_L - 1).
#     PROBE_OK states exactly this (nonlinear, ghost side only).  The lookup
#     contract gives the two linear monotonicity facts relative to it.
#   * a NODE probe g_k with g_Ek = EB(g_k) (for the returned edge ranges).
# Every contract below compares its targets with g_T in both directions, so
# "result == LEAST(target)" holds for whatever target a caller is interested
# in: a lemma instantiates g_T with that target (no uninterpreted functions:
# the int-blasting back end is slow on them).
PS = '''
typedef struct PS PS;   /* any container with operator[] */
uint64_t g_N;    /* number of nodes in the range being divided   */
uint64_t g_E;    /* number of edges in that range                */
uint64_t g_no;   /* nodeOffset: where the range starts in the prefix sum */
uint64_t g_eo;   /* edgeOffset: edges before the range           */
uint64_t g_nw, g_ew; /* node / edge weight                       */
uint64_t g_T, g_L, g_EL, g_ELM1;   /* target probe */
uint64_t g_k, g_Ek;                /* node probe   */
#define CLAMP(x, lo, hi) ((x) < (lo) ? (lo) : ((x) > (hi) ? (hi) : (x)))
/* sizes for which nothing wraps: nodes, edges <= 2^40, weights <= 2^20 */
#define PS_BOUNDS (g_N <= ((uint64_t)1 << 40) && g_E <= ((uint64_t)1 << 40) && g_no <= ((uint64_t)1 << 40) && \\
                   g_eo <= ((uint64_t)1 << 40) && g_nw <= (1u << 20) && g_ew <= (1u << 20) && (g_nw != 0 || g_ew != 0))
#define PROBE_OK (g_L <= g_N && g_EL <= g_E && g_ELM1 <= g_E && g_ELM1 <= g_EL && \\
                  (g_L < g_N ==> g_EL * g_ew + g_L * g_nw >= g_T) && \\
                  (g_L > 0 ==> g_ELM1 * g_ew + (g_L - 1) * g_nw < g_T) && \\
                  (g_L == 0 ==> g_EL == 0) && g_k <= g_N && g_Ek <= g_E && (g_k == 0 ==> g_Ek == 0))
/* total weight as the code computes it; every W(k), k < N, is below it */
#define TOTALW (g_N * g_nw + (g_E + 1) * g_ew)
'''

UNITS.append(Unit(
    name='ps_at', kind='assumed', prelude=PS,
    proto='uint64_t ps_at(const PS* ps, uint64_t i, uint64_t k)',
    contract='''
__CPROVER_requires(k <= g_N && i + 1 == k + g_no)
__CPROVER_ensures(__CPROVER_return_value >= g_eo && __CPROVER_return_value - g_eo <= g_E)
__CPROVER_ensures(k < g_L ==> __CPROVER_return_value - g_eo <= g_ELM1)
__CPROVER_ensures(k >= g_L ==> __CPROVER_return_value - g_eo >= g_EL)
__CPROVER_ensures(k == g_k ==> __CPROVER_return_value - g_eo == g_Ek)
__CPROVER_ensures(k == g_N ==> __CPROVER_return_value - g_eo == g_E)
__CPROVER_assigns()
''',
    says='ASSUMED lookup contract of the abstract prefix sum: edgePrefixSum[i] - edgeOffset = EB(k) for k = i+1-nodeOffset (ghost argument, checked at each call), EB non-decreasing (relative to the probes), EB(N) = E'))

UNITS.append(Unit(
    name='findIndexPrefixSum', src=GH_H,
    anchor=r'size_t findIndexPrefixSum\(size_t nodeWeight, size_t edgeWeight,',
    proto='size_t findIndexPrefixSum(size_t nodeWeight, size_t edgeWeight, size_t targetWeight, uint64_t lb, uint64_t ub, const PS* edgePrefixSum, uint64_t edgeOffset, uint64_t nodeOffset)',
    contract='''
__CPROVER_requires(PS_BOUNDS && PROBE_OK && nodeWeight == g_nw && edgeWeight == g_ew && edgeOffset == g_eo && nodeOffset == g_no)
__CPROVER_requires(lb <= ub && ub <= g_N)
__CPROVER_ensures(lb <= __CPROVER_return_value && __CPROVER_return_value <= ub)
__CPROVER_ensures(targetWeight <= g_T ==> __CPROVER_return_value <= CLAMP(g_L, lb, ub))
__CPROVER_ensures(targetWeight >= g_T ==> __CPROVER_return_value >= CLAMP(g_L, lb, ub))
__CPROVER_ensures(targetWeight >= TOTALW ==> __CPROVER_return_value == ub)
__CPROVER_assigns()
''',
    prelude=PS, uses=['ps_at'],
    lower=[rx(r'edgePrefixSum\[([^\]]+)\]', r'ps_at(edgePrefixSum, \1, /*ghost k = index + 1 - nodeOffset */ (\1) + 1 - nodeOffset)')],
    ghost_prefix='const uint64_t lb0 = lb, ub0 = ub;',
    loops={1: '''
__CPROVER_assigns(lb, ub)
__CPROVER_loop_invariant(lb0 <= lb && lb <= ub && ub <= ub0)
__CPROVER_loop_invariant(targetWeight <= g_T ==> (lb == lb0 || lb <= g_L))
__CPROVER_loop_invariant(targetWeight >= g_T ==> (ub == ub0 || g_L <= ub))
__CPROVER_loop_invariant(targetWeight >= TOTALW ==> ub == ub0)
__CPROVER_decreases(ub - lb)
'''},
    backend='ib', witness='g_N == 4 && g_E == 6 && g_no == 0 && g_eo == 0 && g_nw == 0 && g_ew == 1 && g_T == 3 && g_L == 2 && g_EL == 3 && g_ELM1 == 2 && g_k == 0 && g_Ek == 0 && lb == 0 && ub == 4 && targetWeight == 3',
    small='g_N <= 8 && g_E <= 8 && g_no <= 2 && g_eo <= 4 && g_nw <= 1 && g_ew <= 1 && targetWeight <= 16 && g_T <= 16',
    inst='PrefixSumType = any container whose operator[] satisfies the monotone lookup contract ps_at',
    says='binary search returns the least node index whose prefix weight reaches the target, clamped to [lb, ub] (stated against an arbitrary probe target in both directions); a target above the total weight returns ub; terminates',
    trusted=['abstract lookup contract ps_at (assumed): the prefix sum is monotone; sizes <= 2^40, weights <= 2^20'],
))

# ---------------------------------------------------------------------------
# determine_block_division (GraphHelpers.cpp): in-place prefix sum of the
# scale factors (or 1,2,..,n when none are given); returns the last entry.
VEC = '#include "gv_vec.h"\nsize_t gp; /* ghost probe index into the vector */\nuint32_t g_oldp; /* entry value of element gp */\n'
UNITS.append(Unit(
    name='determine_block_division', src=GH_C,
    anchor=r'uint32_t determine_block_division\(uint32_t numDivisions,',
    proto='uint32_t determine_block_division(uint32_t numDivisions, struct gv_vec_u32* scaleFactor)',
    contract='''
__CPROVER_requires(GV_VEC_VALID(scaleFactor, 1u << 16))
__CPROVER_requires(scaleFactor->size == 0 ? numDivisions <= scaleFactor->cap : (scaleFactor->size == numDivisions && numDivisions >= 1))
__CPROVER_requires(gp < scaleFactor->size ==> g_oldp == scaleFactor->data[gp])
__CPROVER_ensures(scaleFactor->size == numDivisions)
__CPROVER_ensures(numDivisions >= 1 ==> __CPROVER_return_value == scaleFactor->data[numDivisions - 1])
__CPROVER_ensures(numDivisions == 0 ==> __CPROVER_return_value == 0)
__CPROVER_ensures((__CPROVER_old(scaleFactor->size) == 0 && gp < numDivisions) ==> scaleFactor->data[gp] == gp + 1)
__CPROVER_ensures((__CPROVER_old(scaleFactor->size) != 0 && gp < numDivisions) ==> (uint32_t)(scaleFactor->data[gp] - (gp > 0 ? scaleFactor->data[gp - 1] : 0)) == g_oldp)
__CPROVER_assigns(scaleFactor->size, __CPROVER_object_whole(scaleFactor->data))
''',
    prelude=VEC,
    lower=[refs(['scaleFactor'], 5),
           call(r'\(\*scaleFactor\)', 'empty', 'gv_vec_u32_empty'),
           call(r'\(\*scaleFactor\)', 'push_back', 'gv_vec_u32_push_back'),
           call(r'\(\*scaleFactor\)', 'size', 'gv_vec_u32_size'),
           index(r'\(\*scaleFactor\)', 'GV_AT_U32', 2)],
    loops={1: '''
__CPROVER_assigns(i, scaleFactor->size, __CPROVER_object_whole(scaleFactor->data))
__CPROVER_loop_invariant(i <= numDivisions && scaleFactor->size == i && numDivisions <= scaleFactor->cap)
__CPROVER_loop_invariant(gp < i ==> scaleFactor->data[gp] == gp + 1)
__CPROVER_loop_invariant(i > 0 ==> scaleFactor->data[i - 1] == i)
__CPROVER_decreases(numDivisions - i)
''', 2: '''
__CPROVER_assigns(i, numBlocks, __CPROVER_object_whole(scaleFactor->data))
__CPROVER_loop_invariant(i <= numDivisions && scaleFactor->size == numDivisions)
__CPROVER_loop_invariant(numBlocks == (i == 0 ? 0 : scaleFactor->data[i - 1]))
__CPROVER_loop_invariant(gp < i ==> (uint32_t)(scaleFactor->data[gp] - (gp > 0 ? scaleFactor->data[gp - 1] : 0)) == g_oldp)
__CPROVER_loop_invariant((gp >= i && gp < numDivisions) ==> scaleFactor->data[gp] == g_oldp)
__CPROVER_decreases(numDivisions - i)
'''},
    backend='sat',
    inst='std::vector<unsigned> modelled by stubs/gv_vec.h (data pointer, size, capacity)',
    says='scale factors become their prefix sum (difference form, modulo 2^32) or 1..n when empty; the return value is the last entry = number of blocks',
    trusted=['stubs/gv_vec.h: std::vector element access/size/push_back semantics, no reallocation'],
))

# ---------------------------------------------------------------------------
# divideNodesBinarySearch (GraphHelpers.h): piece `id` of `total`.
#
# Abstract view of the (by-value) scale-factor vector after
# determine_block_division turned it into a prefix sum: ghost g_bl / g_bu are
# the entries id-1 / id, g_nb the last entry (= number of blocks).  This view
# is ASSUMED here and PROVED of the real array code in determine_block_division
# (prefix sum in difference form, return value = last entry).
#
# Nonlinear arithmetic: cvc5's nonlinear engine proves each product/division
# fact in isolation in well under a second but gets lost when the facts sit
# inside the whole function.  The two nonlinear expressions of the body are
# therefore OUTLINED (rule O-outline): `(weight + numBlocks - 1) / numBlocks`
# becomes gv_ceil_div(weight, numBlocks) and `blockWeight * blockX` becomes
# gv_mul_target(blockWeight, blockX).  Each outlined function has the
# expression itself as its body, is proved to return exactly that expression,
# and carries the monotonicity / ceil-div facts as further postconditions; the
# enclosing function is then verified against those contracts.
SF = '''
typedef struct SF SF;
uint64_t g_total, g_id;        /* number of divisions, the division asked for */
uint32_t g_nb, g_bl, g_bu;     /* numBlocks, scaleFactor[id-1] (0 for id 0), scaleFactor[id] */
uint32_t g_B;                  /* block probe: the target probe g_T is the weight of g_B blocks */
uint64_t g_bw;                 /* weight of one block = ceil(TOTALW / numBlocks) */
#define CEILDIV_FACTS ((gv_u128)g_bw * g_nb >= TOTALW && (gv_u128)g_bw * g_nb <= (gv_u128)TOTALW + g_nb - 1 && g_bw <= TOTALW)
#define SF_OK (g_total >= 1 && g_id < g_total && g_nb >= 1 && g_bl <= g_bu && g_bu <= g_nb && \\
               (g_id == 0 ==> g_bl == 0) && (g_id + 1 == g_total ==> g_bu == g_nb) && g_B <= g_nb && \\
               g_bw == (TOTALW + g_nb - 1) / g_nb && g_T == g_bw * g_B && CEILDIV_FACTS)
struct graph_range { struct pair_u64 first, second; };
#define GV_ID(x) (x)
/* ghost view of the scale-factor vector (ASSUMED; the real array code is
   proved in determine_block_division).  Inline getters rather than contracts
   so that the solver sees definitions, not assumed equalities. */
static inline uint32_t dbd_abs(size_t total, SF* scaleFactor)
{ __CPROVER_assert(total == g_total, "ghost view: number of divisions"); return g_nb; }
static inline uint32_t sf_at(SF* scaleFactor, size_t i)
{ __CPROVER_assert(i < g_total && (i == g_id || i + 1 == g_id), "ghost view: only entries id-1 and id are read");
  return i == g_id ? g_bu : g_bl; }
'''

UNITS.append(Unit(
    name='gv_ceil_div', kind='contract', prelude=[PS, SF],
    proto='uint64_t gv_ceil_div(uint64_t weight, uint32_t numBlocks)',
    body_override='return (weight + numBlocks - 1) / numBlocks;',
    contract='''
__CPROVER_requires(PS_BOUNDS && numBlocks >= 1 && weight == TOTALW && numBlocks == g_nb && g_bw == (TOTALW + g_nb - 1) / g_nb)
__CPROVER_ensures(__CPROVER_return_value == (weight + numBlocks - 1) / numBlocks)
__CPROVER_ensures(__CPROVER_return_value == g_bw)
__CPROVER_assigns()
''', backend='ib', witness='g_N == 4 && g_E == 6 && g_nw == 0 && g_ew == 1 && g_no == 0 && g_eo == 0 && g_nb == 2',
    harness_pre='weight = TOTALW; g_nb = numBlocks;',
    says='outlined expression (weight + numBlocks - 1) / numBlocks of divideNodesBinarySearch: returns exactly that'))

UNITS.append(Unit(
    name='lemma_ceil_div', kind='contract', prelude=[PS, SF],
    proto='void lemma_ceil_div(void)', body_override='',
    contract='''
__CPROVER_requires(PS_BOUNDS && g_nb >= 1 && g_bw == (TOTALW + g_nb - 1) / g_nb)
__CPROVER_ensures(CEILDIV_FACTS)
__CPROVER_assigns()
''', backend='ib', witness='g_N == 4 && g_E == 6 && g_nw == 0 && g_ew == 1 && g_no == 0 && g_eo == 0 && g_nb == 2',
    says='lemma function: ceil(w/n)*n lies in [w, w+n-1] and ceil(w/n) <= w for the block weight (no wrap-around at sizes <= 2^40, weights <= 2^20)'))

UNITS.append(Unit(
    name='gv_mul_target', kind='contract', prelude=[PS, SF],
    proto='uint64_t gv_mul_target(uint64_t blockWeight, uint32_t block)',
    body_override='return blockWeight * block;',
    contract='''
__CPROVER_requires(PS_BOUNDS && g_nb >= 1 && blockWeight == g_bw && block <= g_nb && g_B <= g_nb && g_T == g_bw * g_B && CEILDIV_FACTS)
__CPROVER_ensures(__CPROVER_return_value == blockWeight * block)
__CPROVER_ensures((gv_u128)__CPROVER_return_value == (gv_u128)blockWeight * (gv_u128)block)
__CPROVER_ensures(block <= g_B ==> __CPROVER_return_value <= g_T)
__CPROVER_ensures(block >= g_B ==> __CPROVER_return_value >= g_T)
__CPROVER_ensures(block == g_nb ==> __CPROVER_return_value >= TOTALW)
__CPROVER_assigns()
''', backend='ib', witness='g_N == 4 && g_E == 6 && g_nw == 0 && g_ew == 1 && g_no == 0 && g_eo == 0 && g_nb == 2 && g_B == 1 && block == 1',
    says='outlined expression blockWeight * block of divideNodesBinarySearch: returns exactly that, without wrap-around, monotone in the block count (relative to the block probe), and all blocks together weigh at least the total'))

DNBS_CONTRACT = '''
__CPROVER_requires(PS_BOUNDS && PROBE_OK && SF_OK)
__CPROVER_requires(numNodes == g_N && numEdges == g_E && nodeWeight == g_nw && edgeWeight == g_ew && edgeOffset == g_eo && nodeOffset == g_no && id == g_id && total == g_total)
__CPROVER_ensures(__CPROVER_return_value.first.first <= __CPROVER_return_value.first.second && __CPROVER_return_value.first.second <= g_N)
__CPROVER_ensures((g_N > 0 && g_bl == 0) ==> __CPROVER_return_value.first.first == 0)
__CPROVER_ensures((g_N > 0 && g_bl > 0 && g_bl <= g_B) ==> __CPROVER_return_value.first.first <= g_L)
__CPROVER_ensures((g_N > 0 && g_bl > 0 && g_bl >= g_B) ==> __CPROVER_return_value.first.first >= g_L)
__CPROVER_ensures((g_N > 0 && g_bu <= g_B) ==> __CPROVER_return_value.first.second <= CLAMP(g_L, __CPROVER_return_value.first.first, g_N))
__CPROVER_ensures((g_N > 0 && g_bu >= g_B) ==> __CPROVER_return_value.first.second >= CLAMP(g_L, __CPROVER_return_value.first.first, g_N))
__CPROVER_ensures((g_N > 0 && g_bu == g_nb) ==> __CPROVER_return_value.first.second == g_N)
__CPROVER_ensures(g_N == 0 ==> (__CPROVER_return_value.first.first == 0 && __CPROVER_return_value.first.second == 0 && __CPROVER_return_value.second.first == 0 && __CPROVER_return_value.second.second == 0))
__CPROVER_ensures((g_N > 0 && __CPROVER_return_value.first.first == __CPROVER_return_value.first.second) ==> (__CPROVER_return_value.second.first == g_E && __CPROVER_return_value.second.second == g_E))
__CPROVER_ensures((g_N > 0 && __CPROVER_return_value.first.first != __CPROVER_return_value.first.second && __CPROVER_return_value.first.first == g_k) ==> __CPROVER_return_value.second.first == g_Ek)
__CPROVER_ensures((g_N > 0 && __CPROVER_return_value.first.first != __CPROVER_return_value.first.second && __CPROVER_return_value.first.second == g_k) ==> __CPROVER_return_value.second.second == g_Ek)
__CPROVER_assigns()
'''
for NT, S in [('uint64_t', 'u64'), ('uint32_t', 'u32')]:
    UNITS.append(Unit(
        name='divideNodesBinarySearch_' + S, src=GH_H, anchor=r'auto divideNodesBinarySearch\(',
        proto='struct graph_range divideNodesBinarySearch_%s(%s numNodes, uint64_t numEdges, size_t nodeWeight, size_t edgeWeight, size_t id, size_t total, const PS* edgePrefixSum, SF* scaleFactor, uint64_t edgeOffset, uint64_t nodeOffset)' % (S, NT),
        contract=DNBS_CONTRACT, prelude=[PS, SF],
        uses=['findIndexPrefixSum', 'ps_at', 'gv_ceil_div', 'gv_mul_target'],
        trusted=['ghost view of the scale-factor vector (dbd_abs/sf_at inline getters in the prelude): entries id-1, id and the last entry of the prefix-summed vector'],
        lower=[rx(r'typedef [^;]*;', '', 5),
               bind('NodeType', NT, 0),
               rx(r'\b(?:edge_)?iterator\(', 'GV_ID(', 8),
               mkpair('NodeRange', 'struct pair_u64', 2), mkpair('EdgeRange', 'struct pair_u64', 2),
               mkpair('GraphRange', 'struct graph_range', 2),
               ren('internal::determine_block_division', 'dbd_abs'),
               ren('internal::findIndexPrefixSum', 'findIndexPrefixSum', 2),
               index('scaleFactor', 'sf_at', 2),
               rx(r'\(weight \+ numBlocks - 1\) / numBlocks', 'gv_ceil_div(weight, numBlocks)', 1, 1),
               rx(r'blockWeight \* (blockLower|blockUpper)', r'gv_mul_target(blockWeight, \1)', 2, 2),
               rx(r'edgePrefixSum\[([^\]]+)\]', r'ps_at(edgePrefixSum, \1, /*ghost k = index + 1 - nodeOffset */ (\1) + 1 - nodeOffset)', 2)],
        harness_pre='g_N = numNodes; g_E = numEdges; g_nw = nodeWeight; g_ew = edgeWeight; g_eo = edgeOffset; g_no = nodeOffset; g_id = id; g_total = total;',
        backend='ib', timeout=400,
        witness='g_N == 4 && g_E == 6 && g_no == 0 && g_eo == 0 && g_nw == 0 && g_ew == 1 && g_T == 4 && g_L == 2 && g_EL == 4 && g_ELM1 == 2 && g_k == 2 && g_Ek == 4 && g_total == 2 && g_id == 0 && g_nb == 2 && g_bl == 0 && g_bu == 1 && g_B == 1 && g_bw == 4',
        inst='NodeType=%s, PrefixSumType = any container satisfying ps_at; scale-factor vector through its ghost view' % NT,
        says='piece id is [LEAST(blockWeight*scale[id-1]), LEAST(blockWeight*scale[id])) (stated against an arbitrary probe in both directions), inside [0,numNodes); first piece starts at 0, last piece ends at numNodes; edge range = prefix-sum values at the node bounds',
    ))

# lemmas over the CONTRACT of divideNodesBinarySearch: the pieces for
# id = 0..total-1 are in order, share their boundaries and cover [0,numNodes).
DNBS_SETUP = '''
  uint64_t numEdges, nodeWeight, edgeWeight, id, total, edgeOffset, nodeOffset; %(NT)s numNodes;
  const PS* ps; SF* sf;
  uint32_t a, b, c;  /* prefix-summed scale factors: entries id-1, id, id+1 */
  g_N = numNodes; g_E = numEdges; g_nw = nodeWeight; g_ew = edgeWeight; g_eo = edgeOffset; g_no = nodeOffset; g_total = total;
  __CPROVER_assume(PS_BOUNDS && g_nb >= 1 && total >= 1 && id < total);
  g_bw = (TOTALW + g_nb - 1) / g_nb;
  lemma_ceil_div();
'''
for NT, S in [('uint64_t', 'u64'), ('uint32_t', 'u32')]:
    UNITS.append(Unit(
        name='lemma_dnbs_adjacent_' + S, kind='lemma', prelude=[PS, SF],
        uses=['lemma_ceil_div', 'divideNodesBinarySearch_' + S],
        harness=DNBS_SETUP % dict(NT=NT) + '''
  __CPROVER_assume(id + 1 < total && a <= b && b <= c && c <= g_nb && (id == 0 ==> a == 0) && (id + 2 == total ==> c == g_nb));
  GV_WITNESS(numNodes == 4 && numEdges == 6 && nodeWeight == 0 && edgeWeight == 1 && edgeOffset == 0 && nodeOffset == 0 && total == 2 && id == 0 && g_nb == 2 && a == 0 && b == 1 && c == 2 && g_L == 2 && g_EL == 4 && g_ELM1 == 2 && g_k == 2 && g_Ek == 4);
  g_B = b; g_T = g_bw * g_B;          /* probe = the boundary shared by pieces id and id+1 */
  __CPROVER_assume(PROBE_OK);
  g_id = id; g_bl = a; g_bu = b;
  struct graph_range p = divideNodesBinarySearch_%(S)s(numNodes, numEdges, nodeWeight, edgeWeight, id, total, ps, sf, edgeOffset, nodeOffset);
  g_id = id + 1; g_bl = b; g_bu = c;
  struct graph_range q = divideNodesBinarySearch_%(S)s(numNodes, numEdges, nodeWeight, edgeWeight, id + 1, total, ps, sf, edgeOffset, nodeOffset);
  __CPROVER_assert(p.first.second == q.first.first, "node pieces id and id+1 share their boundary");
  __CPROVER_assert(p.first.first <= q.first.first && p.first.second <= q.first.second, "node pieces appear in order");
  /* prophecy on the node probe: it is never read by the code, so the edge-range posts hold for it whatever it is */
  __CPROVER_assume(g_k == p.first.second);
  if (p.first.first != p.first.second && q.first.first != q.first.second)
    __CPROVER_assert(p.second.second == q.second.first, "edge ranges of consecutive non-empty pieces share their boundary");
''' % dict(S=S), backend='ib', timeout=400,
        says='pairwise disjoint, in order: piece(id).end == piece(id+1).begin for nodes and (non-empty pieces) edges'))
    UNITS.append(Unit(
        name='lemma_dnbs_ends_' + S, kind='lemma', prelude=[PS, SF],
        uses=['lemma_ceil_div', 'divideNodesBinarySearch_' + S],
        harness=DNBS_SETUP % dict(NT=NT) + '''
  __CPROVER_assume(a <= b && b <= g_nb && (id == 0 ==> a == 0) && (id + 1 == total ==> b == g_nb) && g_B <= g_nb);
  GV_WITNESS(numNodes == 4 && numEdges == 6 && nodeWeight == 0 && edgeWeight == 1 && edgeOffset == 0 && nodeOffset == 0 && total == 2 && id == 1 && g_nb == 2 && a == 1 && b == 2 && g_B == 1 && g_L == 2 && g_EL == 4 && g_ELM1 == 2 && g_k == 2 && g_Ek == 4);
  g_T = g_bw * g_B;
  __CPROVER_assume(PROBE_OK);
  g_id = id; g_bl = a; g_bu = b;
  struct graph_range p = divideNodesBinarySearch_%(S)s(numNodes, numEdges, nodeWeight, edgeWeight, id, total, ps, sf, edgeOffset, nodeOffset);
  if (id == 0) __CPROVER_assert(p.first.first == 0, "first piece starts at node 0");
  if (id + 1 == total) __CPROVER_assert(p.first.second == numNodes, "last piece ends at numNodes");
  __CPROVER_assert(p.first.first <= p.first.second && p.first.second <= numNodes, "piece inside [0,numNodes)");
''' % dict(S=S), backend='ib', timeout=400,
        says='exact cover: first piece starts at 0, last piece ends at numNodes'))

# ---------------------------------------------------------------------------
# unitRangeCornerCaseHandle (GraphHelpers.cpp)
VEC32 = 'uint32_t gq; /* ghost probe index (32-bit) */\n'
RANGES_POST = '''(%(r)s->data[0] == beginNode && %(r)s->data[unitsToSplit] == endNode && \\
   (gq < unitsToSplit ==> %(r)s->data[gq] <= %(r)s->data[gq + 1]) && \\
   (gq <= unitsToSplit ==> (beginNode <= %(r)s->data[gq] && %(r)s->data[gq] <= endNode)))'''
UNITS.append(Unit(
    name='unitRangeCornerCaseHandle', src=GH_C,
    anchor=r'bool unitRangeCornerCaseHandle\(uint32_t unitsToSplit, uint32_t beginNode,',
    proto='bool unitRangeCornerCaseHandle(uint32_t unitsToSplit, uint32_t beginNode, uint32_t endNode, struct gv_vec_u32* returnRanges)',
    contract='''
__CPROVER_requires(GV_VEC_VALID(returnRanges, ((size_t)1 << 16) + 1) && unitsToSplit >= 1 && returnRanges->size == (size_t)unitsToSplit + 1 && beginNode <= endNode)
__CPROVER_ensures(__CPROVER_return_value ==> ''' + (RANGES_POST % dict(r='returnRanges')) + ''')
__CPROVER_ensures(!__CPROVER_return_value ==> (beginNode != endNode && unitsToSplit != 1 && unitsToSplit <= endNode - beginNode))
__CPROVER_ensures(returnRanges->size == (size_t)unitsToSplit + 1)
__CPROVER_assigns(__CPROVER_object_whole(returnRanges->data))
''',
    prelude=[VEC, VEC32],
    lower=[refs(['returnRanges'], 7), index(r'\(\*returnRanges\)', 'GV_AT_U32', 7)],
    loops={1: '''
__CPROVER_assigns(i, __CPROVER_object_whole(returnRanges->data))
__CPROVER_loop_invariant(i <= unitsToSplit && returnRanges->data[0] == beginNode)
__CPROVER_loop_invariant(gq <= i ==> returnRanges->data[gq] == beginNode)
__CPROVER_loop_invariant(gq + 1 <= i ==> returnRanges->data[gq + 1] == beginNode)
__CPROVER_loop_invariant(returnRanges->data[i] == beginNode)
__CPROVER_decreases(unitsToSplit - i)
''', 2: '''
__CPROVER_assigns(i, current_node, __CPROVER_object_whole(returnRanges->data))
__CPROVER_loop_invariant(i <= totalNodes && current_node == beginNode + i && returnRanges->data[0] == beginNode)
__CPROVER_loop_invariant(gq <= i ==> returnRanges->data[gq] == beginNode + gq)
__CPROVER_loop_invariant(gq + 1 <= i ==> returnRanges->data[gq + 1] == beginNode + gq + 1)
__CPROVER_loop_invariant(returnRanges->data[i] == beginNode + i)
__CPROVER_decreases(totalNodes - i)
''', 3: '''
__CPROVER_assigns(i, __CPROVER_object_whole(returnRanges->data))
__CPROVER_loop_invariant(totalNodes <= i && i <= unitsToSplit && returnRanges->data[0] == beginNode)
__CPROVER_loop_invariant(gq <= totalNodes ==> returnRanges->data[gq] == beginNode + gq)
__CPROVER_loop_invariant((totalNodes < gq && gq <= i) ==> returnRanges->data[gq] == endNode)
__CPROVER_loop_invariant(gq + 1 <= totalNodes ==> returnRanges->data[gq + 1] == beginNode + gq + 1)
__CPROVER_loop_invariant((totalNodes < gq + 1 && gq + 1 <= i) ==> returnRanges->data[gq + 1] == endNode)
__CPROVER_loop_invariant(returnRanges->data[i] == endNode)
__CPROVER_decreases(unitsToSplit - i)
'''},
    backend='sat',
    inst='std::vector<uint32_t> modelled by stubs/gv_vec.h',
    says='corner cases (no nodes, one unit, more units than nodes): the unit offsets start at beginNode, never decrease, stay inside [beginNode,endNode] and end at endNode',
    replay=dict(prog='unit_corner', args=['unitsToSplit', 'beginNode', 'endNode'], sources=['libgalois/src/GraphHelpers.cpp']),
    trusted=['stubs/gv_vec.h'],
))

# ---------------------------------------------------------------------------
# determineUnitRanges* (GraphHelpers.h): per-thread unit offsets.
#
# Here divideNodesBinarySearch is replaced by its CUT VIEW: piece id is
# [CUT(id), CUT(id+1)) for one (uninterpreted, i.e. arbitrary but fixed) cut
# function with CUT(0) = 0, CUT non-decreasing, CUT(total) = numNodes.  This
# view is an ASSUMED contract; it is the logical consequence of what is proved
# above for the real function: (i) it has an empty frame and is deterministic,
# (ii) lemma_dnbs_adjacent: piece(id).end == piece(id+1).begin, (iii)
# lemma_dnbs_ends: first piece starts at 0, last ends at numNodes, each piece
# is ordered.  Define CUT(j) := piece(j).begin for j < total, CUT(total) :=
# numNodes.  (The step from the lemmas to this contract is the one hand-made
# step; the callers' argument agreement with the proved contract -- offsets,
# edge counts taken from the same prefix sum, edge weight 1, empty scale
# factor -- is checked as the precondition of the cut view at the call.)
CUTV = '''
#include "gv_vec.h"
typedef struct PS PS;
uint32_t gq;   /* ghost probe index into the result */
#define GV_MAXU 65536u   /* units <= 2^16 */
const uint32_t* g_cut;  /* ghost: the cut function as a read-only array (calls are not allowed in loop invariants) */
uint64_t __CPROVER_uninterpreted_psv(uint64_t i);   /* the prefix-sum values: prefixSum[i] */
#define CUT(j) g_cut[j]
#define PSV(i) __CPROVER_uninterpreted_psv(i)
uint64_t g_psn;  /* number of entries of the prefix sum */
static inline uint64_t ps_get(const PS* ps, uint64_t i)
{ __CPROVER_assert(i < g_psn, "prefix-sum index in range"); return PSV(i); }
static inline uint64_t ps_size(const PS* ps) { return g_psn; }
static inline void gv_vec_u32_resize(struct gv_vec_u32* v, size_t n)
{ __CPROVER_assert(n <= v->cap, "harness provides capacity"); v->size = n; }
struct SFempty { int unused; };
#define GV_DEREF(x) (x)
'''
UNITS.append(Unit(
    name='dnbs_cut_u32', kind='assumed', prelude=[CUTV],
    proto='struct pair_u32 dnbs_cut_u32(uint32_t numNodes, uint64_t numEdges, size_t nodeWeight, size_t edgeWeight, size_t id, size_t total, const PS* edgePrefixSum, struct SFempty* scaleFactor, uint64_t edgeOffset, uint64_t nodeOffset)',
    contract='''
__CPROVER_requires(numNodes >= 1 && total >= 1 && total <= GV_MAXU && id < total && edgeWeight == 1 && nodeOffset + numNodes <= g_psn)
__CPROVER_requires(edgeOffset == (nodeOffset != 0 ? PSV(nodeOffset - 1) : 0) && numEdges == PSV(nodeOffset + numNodes - 1) - edgeOffset)
__CPROVER_ensures(__CPROVER_return_value.first == CUT(id) && __CPROVER_return_value.second == CUT(id + 1))
__CPROVER_ensures(CUT(id) <= CUT(id + 1) && CUT(id + 1) <= numNodes)
__CPROVER_ensures(id == 0 ==> CUT(id) == 0)
__CPROVER_ensures(id + 1 == total ==> CUT(id + 1) == numNodes)
__CPROVER_assigns()
''',
    says='ASSUMED cut view of divideNodesBinarySearch<.,uint32_t>(..).first, justified by lemma_dnbs_adjacent_u32 + lemma_dnbs_ends_u32 + determinism (see comment)'))

UR_POST = '''(returnRanges->data[0] == beginNode && returnRanges->data[unitsToSplit] == endNode && \\
   (gq < unitsToSplit ==> returnRanges->data[gq] <= returnRanges->data[gq + 1]) && \\
   (gq <= unitsToSplit ==> (beginNode <= returnRanges->data[gq] && returnRanges->data[gq] <= endNode)))'''
UR_LOOP = '''
__CPROVER_assigns(i, __CPROVER_object_whole(returnRanges->data))
__CPROVER_loop_invariant(i <= unitsToSplit && returnRanges->data[0] == beginNode)
__CPROVER_loop_invariant(i > 0 ==> returnRanges->data[i] == beginNode + g_cut[i])
__CPROVER_loop_invariant(i == unitsToSplit ==> returnRanges->data[i] == endNode)
__CPROVER_loop_invariant(beginNode <= returnRanges->data[i] && returnRanges->data[i] <= endNode)
__CPROVER_loop_invariant(gq < i ==> returnRanges->data[gq] <= returnRanges->data[gq + 1])
__CPROVER_loop_invariant(gq <= i ==> (beginNode <= returnRanges->data[gq] && returnRanges->data[gq] <= endNode))
__CPROVER_decreases(unitsToSplit - i)
'''

UR_REQ = '__CPROVER_is_fresh(g_cut, ((size_t)GV_MAXU + 2) * sizeof(uint32_t)) && GV_VEC_VALID(returnRanges, (size_t)GV_MAXU + 1) && unitsToSplit >= 1 && unitsToSplit <= GV_MAXU && returnRanges->size == (size_t)unitsToSplit + 1 && beginNode < endNode && endNode <= g_psn'
UNITS.append(Unit(
    name='determineUnitRangesLoopPrefixSum', src=GH_H,
    anchor=r'void determineUnitRangesLoopPrefixSum\(VectorTy& prefixSum,',
    proto='void determineUnitRangesLoopPrefixSum(const PS* prefixSum, uint32_t unitsToSplit, uint32_t beginNode, uint32_t endNode, struct gv_vec_u32* returnRanges, uint32_t nodeAlpha)',
    contract='''
__CPROVER_requires(''' + UR_REQ + ''')
__CPROVER_ensures(''' + UR_POST + ''')
__CPROVER_assigns(__CPROVER_object_whole(returnRanges->data))
''',
    prelude=[CUTV], uses=['dnbs_cut_u32'],
    lower=[refs(['returnRanges'], 7), index(r'\(\*returnRanges\)', 'GV_AT_U32', 7),
           index('prefixSum', 'ps_get', 4),
           rx(r'std::vector<unsigned int> dummyScaleFactor;', 'struct SFempty dummyScaleFactor_obj; struct SFempty* dummyScaleFactor = &dummyScaleFactor_obj;'),
           rx(r'auto nodeSplits\s*=\s*divideNodesBinarySearch<VectorTy, uint32_t>', 'struct pair_u32 nodeSplits = dnbs_cut_u32'),
           rx(r'\)\s*\.first;', ');', 1, 1),
           rx(r'\*\(nodeSplits\.(first|second)\)', r'GV_DEREF(nodeSplits.\1)', 2, 2),
           dropcall('galois::gDebug')],
    loops={1: UR_LOOP},
    backend='smt', timeout=600,
    inst='VectorTy = any container with operator[] (values through the uninterpreted function PSV); divideNodesBinarySearch through its cut view',
    says='unit offsets start at beginNode, never decrease, end at endNode; the code\'s own (compiled-out) assertion that consecutive pieces agree is proved',
    trusted=['dnbs_cut_u32 (assumed cut view, justified by the proved lemmas)', 'stubs/gv_vec.h'],
))

TOP_LOWER = [rx(r'std::vector<uint32_t> (returnRanges|nodeRanges);', '', 1, 1),
             rx(r'return (returnRanges|nodeRanges);', 'return;', 1)]
UNITS.append(Unit(
    name='determineUnitRangesFromPrefixSum_range', src=GH_H,
    anchor=r'determineUnitRangesFromPrefixSum\(uint32_t unitsToSplit, VectorTy& edgePrefixSum,\s*uint32_t beginNode, uint32_t endNode,',
    proto='void determineUnitRangesFromPrefixSum_range(uint32_t unitsToSplit, const PS* edgePrefixSum, uint32_t beginNode, uint32_t endNode, uint32_t nodeAlpha, struct gv_vec_u32* returnRanges)',
    contract='''
__CPROVER_requires(__CPROVER_is_fresh(g_cut, ((size_t)GV_MAXU + 2) * sizeof(uint32_t)) && GV_VEC_VALID(returnRanges, (size_t)GV_MAXU + 1) && returnRanges->cap == (size_t)GV_MAXU + 1)
__CPROVER_requires(unitsToSplit >= 1 && unitsToSplit <= GV_MAXU && beginNode <= endNode && endNode <= g_psn)
__CPROVER_ensures(returnRanges->size == (size_t)unitsToSplit + 1)
__CPROVER_ensures(''' + UR_POST + ''')
__CPROVER_assigns(returnRanges->size, __CPROVER_object_whole(returnRanges->data))
''',
    prelude=[VEC, VEC32, CUTV], uses=['unitRangeCornerCaseHandle', 'determineUnitRangesLoopPrefixSum'],
    lower=TOP_LOWER + [call('returnRanges', 'resize', 'gv_vec_u32_resize', addr=False),
                       ren('internal::unitRangeCornerCaseHandle', 'unitRangeCornerCaseHandle'),
                       ren('internal::determineUnitRangesLoopPrefixSum', 'determineUnitRangesLoopPrefixSum'),
                       dropcall('internal::unitRangeSanity')],
    backend='smt', timeout=600,
    inst='VectorTy abstract; result vector returned through an out-parameter (rule R-out)',
    says='per-thread unit offsets over a node sub-range: start at beginNode, never decrease, end at endNode, for every unit count >= 1 including more units than nodes and empty ranges',
    trusted=['unitRangeSanity call dropped (debug-only assertions; its conditions are this postcondition)'],
))


def _sub(text, **kw):
    import re as _re
    for k, v in kw.items():
        text = _re.sub(r'(?<![\w>.])' + k + r'(?![\w])', v, text)
    return text


UNITS.append(Unit(
    name='determineUnitRangesFromPrefixSum_whole', src=GH_H,
    anchor=r'std::vector<uint32_t> determineUnitRangesFromPrefixSum\(uint32_t unitsToSplit,\s*VectorTy& edgePrefixSum,\s*uint32_t nodeAlpha = 0\)',
    proto='void determineUnitRangesFromPrefixSum_whole(uint32_t unitsToSplit, const PS* edgePrefixSum, uint32_t nodeAlpha, struct gv_vec_u32* nodeRanges)',
    contract=_sub('''
__CPROVER_requires(__CPROVER_is_fresh(g_cut, ((size_t)GV_MAXU + 2) * sizeof(uint32_t)) && GV_VEC_VALID(returnRanges, (size_t)GV_MAXU + 1) && returnRanges->cap == (size_t)GV_MAXU + 1)
__CPROVER_requires(unitsToSplit >= 1 && unitsToSplit <= GV_MAXU && g_psn <= UINT32_MAX)
__CPROVER_ensures(returnRanges->size == (size_t)unitsToSplit + 1)
__CPROVER_ensures(''' + UR_POST + ''')
__CPROVER_assigns(returnRanges->size, __CPROVER_object_whole(returnRanges->data))
''', returnRanges='nodeRanges', beginNode='0u', endNode='((uint32_t)g_psn)'),
    prelude=[VEC, VEC32, CUTV], uses=['dnbs_cut_u32'],
    lower=TOP_LOWER[:1] + [rx(r'return nodeRanges;', 'return;', 2, 2),
                           call('nodeRanges', 'resize', 'gv_vec_u32_resize', addr=False),
                           call('edgePrefixSum', 'size', 'ps_size', addr=False),
                           index('nodeRanges', 'GV_AT_U32P', 8),
                           index('edgePrefixSum', 'ps_get', 1),
                           rx(r'auto nodeSplits\s*=\s*divideNodesBinarySearch<VectorTy, uint32_t>\(\s*numNodes, numEdges, nodeAlpha, 1, i, unitsToSplit, edgePrefixSum\)\s*\.first;',
                              'struct pair_u32 nodeSplits = dnbs_cut_u32(numNodes, numEdges, nodeAlpha, 1, i, unitsToSplit, edgePrefixSum, /* default arguments: */ 0, 0, 0);', 1, 1),
                           rx(r'\*\(nodeSplits\.(first|second)\)', r'GV_DEREF(nodeSplits.\1)', 2, 2),
                           dropcall('galois::gDebug')],
    loops={1: '''
__CPROVER_assigns(i, __CPROVER_object_whole(nodeRanges->data))
__CPROVER_loop_invariant(i <= unitsToSplit && nodeRanges->data[0] == 0 && nodeRanges->data[i] == 0)
__CPROVER_loop_invariant(gq <= i ==> nodeRanges->data[gq] == 0)
__CPROVER_loop_invariant((gq < UINT32_MAX && gq + 1 <= i) ==> nodeRanges->data[gq + 1] == 0)
__CPROVER_decreases(unitsToSplit - i)
''', 2: _sub(UR_LOOP, returnRanges='nodeRanges', beginNode='0u', endNode='numNodes')},
    backend='smt', timeout=600,
    inst='VectorTy abstract (size() = number of entries); default arguments of divideNodesBinarySearch made explicit',
    says='per-thread unit offsets over a whole prefix sum: start at 0, never decrease, end at the number of nodes; empty prefix sum gives all zeros',
))

# graph-based variants: the graph is used only through edge_begin / edge_end /
# operator[] (= the edge prefix sum: edge_end(n) = PSV(n), edge_begin(n) =
# PSV(n-1) or 0) and size().  That relation is the CSR index arithmetic
# (property C11 covers LC_CSR_Graph's raw_begin/raw_end); ASSUMED here.
GRAPHV = '''
static inline uint64_t g_edge_end(const PS* g, uint64_t n) { __CPROVER_assert(n < g_psn, "node in range"); return PSV(n); }
static inline uint64_t g_edge_begin(const PS* g, uint64_t n) { __CPROVER_assert(n < g_psn, "node in range"); return n != 0 ? PSV(n - 1) : 0; }
'''
UNITS.append(Unit(
    name='determineUnitRangesLoopGraph', src=GH_H,
    anchor=r'void determineUnitRangesLoopGraph\(GraphTy& graph, uint32_t unitsToSplit,',
    proto='void determineUnitRangesLoopGraph(const PS* graph, uint32_t unitsToSplit, uint32_t beginNode, uint32_t endNode, struct gv_vec_u32* returnRanges, uint32_t nodeAlpha)',
    contract='''
__CPROVER_requires(''' + UR_REQ + ''')
__CPROVER_ensures(''' + UR_POST + ''')
__CPROVER_assigns(__CPROVER_object_whole(returnRanges->data))
''',
    prelude=[CUTV, GRAPHV], uses=['dnbs_cut_u32'],
    lower=[dropcall('galois::gDebug'),
           refs(['returnRanges'], 5), index(r'\(\*returnRanges\)', 'GV_AT_U32', 5),
           call('graph', 'edge_end', 'g_edge_end', addr=False), call('graph', 'edge_begin', 'g_edge_begin', addr=False, minimum=2),
           rx(r'\*g_edge_begin\(([^()]*)\)', r'GV_DEREF(g_edge_begin(\1))', 1, 1),
           rx(r'std::vector<unsigned int> dummyScaleFactor;', 'struct SFempty dummyScaleFactor_obj; struct SFempty* dummyScaleFactor = &dummyScaleFactor_obj;'),
           rx(r'auto nodeSplits\s*=\s*divideNodesBinarySearch<GraphTy, uint32_t>', 'struct pair_u32 nodeSplits = dnbs_cut_u32'),
           rx(r'\)\s*\.first;', ');', 1, 1),
           rx(r'\*\(nodeSplits\.(first|second)\)', r'GV_DEREF(nodeSplits.\1)', 2, 2)],
    loops={1: UR_LOOP},
    backend='smt', timeout=600,
    inst='GraphTy = any graph whose edge_begin/edge_end/operator[] are the CSR prefix-sum relation (assumed; C11)',
    says='unit offsets over a graph node range: start at beginNode, never decrease, end at endNode',
    trusted=['graph stub g_edge_begin/g_edge_end: edge_end(n) = prefix sum at n, edge_begin(n) = prefix sum at n-1 (0 for node 0)'],
))
for nm, anchor, rng in [
        ('determineUnitRangesFromGraph_whole', r'std::vector<uint32_t> determineUnitRangesFromGraph\(GraphTy& graph,\s*uint32_t unitsToSplit,\s*uint32_t nodeAlpha = 0\)', False),
        ('determineUnitRangesFromGraph_range', r'determineUnitRangesFromGraph\(GraphTy& graph, uint32_t unitsToSplit,\s*uint32_t beginNode, uint32_t endNode,', True)]:
    if rng:
        proto = 'void %s(const PS* graph, uint32_t unitsToSplit, uint32_t beginNode, uint32_t endNode, uint32_t nodeAlpha, struct gv_vec_u32* returnRanges)' % nm
        post, extra_req = UR_POST, 'beginNode <= endNode && endNode <= g_psn'
        lw = []
    else:
        proto = 'void %s(const PS* graph, uint32_t unitsToSplit, uint32_t nodeAlpha, struct gv_vec_u32* returnRanges)' % nm
        post, extra_req = _sub(UR_POST, beginNode='0u', endNode='((uint32_t)g_psn)'), 'g_psn <= UINT32_MAX'
        lw = [call('graph', 'size', 'ps_size', addr=False)]
    UNITS.append(Unit(
        name=nm, src=GH_H, anchor=anchor, proto=proto,
        contract='''
__CPROVER_requires(__CPROVER_is_fresh(g_cut, ((size_t)GV_MAXU + 2) * sizeof(uint32_t)) && GV_VEC_VALID(returnRanges, (size_t)GV_MAXU + 1) && returnRanges->cap == (size_t)GV_MAXU + 1)
__CPROVER_requires(unitsToSplit >= 1 && unitsToSplit <= GV_MAXU && ''' + extra_req + ''')
__CPROVER_ensures(returnRanges->size == (size_t)unitsToSplit + 1)
__CPROVER_ensures(''' + post + ''')
__CPROVER_assigns(returnRanges->size, __CPROVER_object_whole(returnRanges->data))
''',
        prelude=[VEC, VEC32, CUTV, GRAPHV], uses=['unitRangeCornerCaseHandle', 'determineUnitRangesLoopGraph'],
        lower=TOP_LOWER + lw + [call('returnRanges', 'resize', 'gv_vec_u32_resize', addr=False),
                                ren('internal::unitRangeCornerCaseHandle', 'unitRangeCornerCaseHandle'),
                                ren('internal::determineUnitRangesLoopGraph', 'determineUnitRangesLoopGraph'),
                                dropcall('internal::unitRangeSanity')],
        backend='smt', timeout=600,
        inst='GraphTy abstract; result vector through an out-parameter (rule R-out)',
        says='per-thread unit offsets over a graph: start at the first node, never decrease, end at the last, for every unit count >= 1',
    ))

# ---------------------------------------------------------------------------
# FileGraph::findIndex / divideByEdge (FileGraph.cpp)
FG = '''
struct FileGraph { uint64_t numNodes, numEdges, nodeOffset, edgeOffset; };
struct FileGraph fg;  /* the object the member functions run on (a global: the int-blasting back end is slow on pointers) */
'''
UNITS.append(Unit(
    name='eb_at', kind='assumed', prelude=[PS, FG],
    proto='uint64_t eb_at(uint64_t n, uint64_t k)',
    contract='''
__CPROVER_requires(k <= g_N && n == k + g_no)
__CPROVER_ensures(__CPROVER_return_value <= g_E)
__CPROVER_ensures(k < g_L ==> __CPROVER_return_value <= g_ELM1)
__CPROVER_ensures(k >= g_L ==> __CPROVER_return_value >= g_EL)
__CPROVER_ensures(k == 0 ==> __CPROVER_return_value == 0)
__CPROVER_assigns()
''',
    says='ASSUMED lookup contract of *edge_begin(k + nodeOffset) (local edge index where node k\'s edges begin): non-decreasing in k relative to the target probe, 0 for the first node, at most numEdges'))
UNITS.append(Unit(
    name='FileGraph_findIndex', src=FG_C,
    anchor=r'size_t FileGraph::findIndex\(size_t nodeSize, size_t edgeSize, size_t targetSize,',
    proto='size_t FileGraph_findIndex(size_t nodeSize, size_t edgeSize, size_t targetSize, size_t lb, size_t ub)',
    contract='''
__CPROVER_requires(PS_BOUNDS && PROBE_OK && nodeSize == 0 && edgeSize == 1 && g_nw == 0 && g_ew == 1 && fg.nodeOffset == g_no && g_eo == 0)
__CPROVER_requires(lb <= ub && ub <= g_N)
__CPROVER_ensures(lb <= __CPROVER_return_value && __CPROVER_return_value <= ub)
__CPROVER_ensures(targetSize <= g_T ==> __CPROVER_return_value <= CLAMP(g_L, lb, ub))
__CPROVER_ensures(targetSize >= g_T ==> __CPROVER_return_value >= CLAMP(g_L, lb, ub))
__CPROVER_assigns()
''',
    prelude=[PS, FG], uses=['eb_at'],
    lower=[members(['nodeOffset'], self='fg', arrow='.'),
           rx(r'\*edge_begin\((mid) \+ fg.nodeOffset\)', r'eb_at(\1 + fg.nodeOffset, /*ghost k=*/ \1)', 1, 1)],
    ghost_prefix='const uint64_t lb0 = lb, ub0 = ub;',
    loops={1: '''
__CPROVER_assigns(lb, ub)
__CPROVER_loop_invariant(lb0 <= lb && lb <= ub && ub <= ub0)
__CPROVER_loop_invariant(targetSize <= g_T ==> (lb == lb0 || lb <= g_L))
__CPROVER_loop_invariant(targetSize >= g_T ==> (ub == ub0 || g_L <= ub))
__CPROVER_decreases(ub - lb)
'''},
    backend='ib',
    witness='g_N == 4 && g_E == 6 && g_no == 0 && g_eo == 0 && g_nw == 0 && g_ew == 1 && g_T == 3 && g_L == 2 && g_EL == 3 && g_ELM1 == 2 && g_k == 0 && g_Ek == 0 && lb == 0 && ub == 4 && targetSize == 3',
    says='FileGraph::findIndex, for the weights (nodeSize 0, edgeSize 1) its only callers (divideByEdge) pass: returns the least local node whose first edge index reaches the target, clamped to [lb,ub]; terminates',
    inst='nodeSize == 0, edgeSize == 1 (call-site derived: both calls in divideByEdge; symbolic weights timed out on every back end)',
))
# the edge cut points in machine (64-bit) arithmetic, as the code computes
# them; lemma_de_spec shows they equal the 128-bit block_range spec (no
# wrap-around) for numEdges <= 2^40, total <= 2^32.
DE_SPEC = '''
static inline uint64_t de_spec64(uint64_t E, uint64_t id, uint64_t total)
{
  uint64_t block = (E + total - 1) / total;
  uint64_t x = block * id;
  return x < E ? x : E;
}
'''
UNITS.append(Unit(
    name='lemma_de_spec', kind='contract', body_override='', prelude=[BR_SPEC, DE_SPEC],
    proto='void lemma_de_spec(uint64_t E, uint64_t id, uint64_t total)',
    contract='''
__CPROVER_requires(E <= ((uint64_t)1 << 40) && total >= 1 && total <= UINT32_MAX && id <= total)
__CPROVER_ensures((gv_u128)de_spec64(E, id, total) == br_spec_lo(E, id, total))
__CPROVER_assigns()
''', backend='ib', witness='E == 5 && id == 3 && total == 4',
    says='the 64-bit edge cut point computed by divideByEdge equals the 128-bit block_range spec: no wrap-around'))
UNITS.append(Unit(
    name='FileGraph_divideByEdge', src=FG_C,
    anchor=r'auto FileGraph::divideByEdge\(size_t, size_t, size_t id, size_t total\)',
    proto='struct graph_range FileGraph_divideByEdge(size_t id, size_t total)',
    contract='''
__CPROVER_requires(PS_BOUNDS && PROBE_OK && g_nw == 0 && g_ew == 1 && fg.nodeOffset == g_no && g_eo == 0 && fg.numNodes == g_N && fg.numEdges == g_E)
__CPROVER_requires(total >= 1 && total <= UINT32_MAX && id < total)
__CPROVER_ensures(__CPROVER_return_value.second.first == de_spec64(fg.numEdges, id, total))
__CPROVER_ensures(__CPROVER_return_value.second.second == de_spec64(fg.numEdges, id + 1, total))
__CPROVER_ensures(__CPROVER_return_value.first.first <= __CPROVER_return_value.first.second && __CPROVER_return_value.first.second <= fg.numNodes)
__CPROVER_assigns()
''',
    prelude=[BR_SPEC, DE_SPEC, PS, FG, 'struct graph_range { struct pair_u64 first, second; };\n#define GV_ID(x) (x)\n'],
    uses=['FileGraph_findIndex'],
    lower=[members(['numEdges', 'numNodes'], self='fg', arrow='.', minimum=4), casts(1), stdfn('std::min', 'gv_min_u64'),
           rx(r'(?<![\w])findIndex\(', 'FileGraph_findIndex(', 2, 2),
           dropcall('galois::gInfo'),
           rx(r'\b(?:edge_)?iterator\(', 'GV_ID(', 4),
           mkpair('NodeRange', 'struct pair_u64'), mkpair('EdgeRange', 'struct pair_u64'),
           mkpair('GraphRange', 'struct graph_range')],
    backend='ib', timeout=300, harness_pre='g_nw = 0; g_ew = 1; g_eo = 0;',
    witness='g_N == 4 && g_E == 6 && g_no == 0 && g_eo == 0 && g_T == 3 && g_L == 2 && g_EL == 3 && g_ELM1 == 2 && g_k == 0 && g_Ek == 0 && id == 0 && total == 2',
    says='edge pieces are [cut(id), cut(id+1)) for the 64-bit cut function de_spec64 (adjacent by syntactic identity of the shared cut; = the block_range spec by lemma_de_spec, hence ordered and an exact cover of [0,numEdges) by lemma_br_spec); each node piece is ordered and inside [0,numNodes) (adjacency of the NODE pieces of divideByEdge is not claimed: the probe posts timed out)',
    replay=dict(prog='divide_by_edge', args=['id', 'total', 'g_E'], lib=True, sources=['libgalois/src/FileGraph.cpp'], cxxflags=['-fno-access-control']),
))

# ---------------------------------------------------------------------------
# SpecificRange::block_pair (Range.h): a thread's piece of a global range,
# clipped from a table of per-thread beginnings.
SR = '''
uint32_t g_tid, g_active;      /* ThreadPool::getTID(), runtime::activeThreads */
uint64_t g_x;                  /* ghost probe ELEMENT of the global range */
static inline uint32_t gv_getTID(void) { return g_tid; }
struct SpecificRange { uint64_t global_begin, global_end; const uint32_t* thread_beginnings; };
#define GV_DEREF(x) (x)
#define TB(i) (self->thread_beginnings[i])
'''
UNITS.append(Unit(
    name='SpecificRange_block_pair', src=RANGE, within=r'class SpecificRange\b',
    anchor=r'std::pair<block_iterator, block_iterator> block_pair\(\) const',
    proto='struct pair_u64 SpecificRange_block_pair(const struct SpecificRange* self)',
    contract='''
__CPROVER_requires(__CPROVER_is_fresh(self, sizeof(*self)) && g_active >= 1 && g_active <= 4096 && g_tid < g_active && __CPROVER_is_fresh(self->thread_beginnings, ((size_t)g_active + 1) * sizeof(uint32_t)))
__CPROVER_requires(self->global_begin <= self->global_end && self->global_end <= UINT32_MAX)
__CPROVER_requires(TB(g_tid) <= TB(g_tid + 1) && TB(0) <= TB(g_tid) && TB(g_tid + 1) <= TB(g_active))
__CPROVER_ensures(__CPROVER_return_value.first <= __CPROVER_return_value.second)
__CPROVER_ensures((TB(0) <= self->global_begin && self->global_end <= TB(g_active)) ==> (self->global_begin <= __CPROVER_return_value.first && __CPROVER_return_value.second <= self->global_end))
__CPROVER_ensures((TB(g_tid) <= g_x && g_x < TB(g_tid + 1) && self->global_begin <= g_x && g_x < self->global_end) ==> (__CPROVER_return_value.first <= g_x && g_x < __CPROVER_return_value.second))
__CPROVER_ensures(!(TB(g_tid) <= g_x && g_x < TB(g_tid + 1)) ==> !(__CPROVER_return_value.first <= g_x && g_x < __CPROVER_return_value.second))
__CPROVER_ensures(!(self->global_begin <= g_x && g_x < self->global_end) ==> (!(__CPROVER_return_value.first <= g_x && g_x < __CPROVER_return_value.second) || (TB(g_active) == self->global_end && self->global_begin == 0)))
__CPROVER_assigns()
''',
    prelude=[SR],
    lower=[ren('substrate::ThreadPool::getTID', 'gv_getTID'), ren('runtime::activeThreads', 'g_active'),
           members(['global_begin', 'global_end', 'thread_beginnings'], minimum=8),
           rx(r'\*self->global_(begin|end)', r'GV_DEREF(self->global_\1)', 2, 2),
           bind('iterator', 'uint64_t', 4),
           mkpair('std::make_pair', 'struct pair_u64', 2)],
    backend='sat',
    inst='IterTy = boost::counting_iterator over unsigned integers (values as uint64_t)',
    says='a thread\'s clipped piece is ordered and inside the global range; every element of the global range lies in the piece of exactly the thread whose table interval contains it and in no other thread\'s piece (disjoint + exact cover, given a monotone table spanning the range)',
))

# StandardRange::block_pair / LocalRange::block_pair forward to block_range
# with (thread id, active threads); proved against block_range's CONTRACT.
for cls, a1, a2, mem in [('StandardRange', 'ii', 'ei', ['ii', 'ei']), ('LocalRange', 'begin()', 'end()', None)]:
    lw = [ren('galois::block_range', 'block_range_iter'), ren('substrate::ThreadPool::getTID', 'gv_getTID'), ren('activeThreads', 'g_active')]
    if mem:
        lw.append(members(mem, self='sr', arrow='.', minimum=2))
    else:
        lw += [rx(r'(?<![\w.])begin\(\)', 'sr.ii', 1, 1), rx(r'(?<![\w.])end\(\)', 'sr.ei', 1, 1)]
    UNITS.append(Unit(
        name=cls + '_block_pair', src=RANGE, within=r'class %s\b' % cls,
        anchor=r'std::pair<block_iterator, block_iterator> block_pair\(\) const',
        proto='struct pair_u64 %s_block_pair(void)' % cls,
        contract='''
__CPROVER_requires(sr.ii <= sr.ei && sr.ei - sr.ii <= ((uint64_t)1 << 62) && g_active >= 1 && g_tid < g_active)
__CPROVER_ensures(sr.ii <= __CPROVER_return_value.first && __CPROVER_return_value.first <= __CPROVER_return_value.second && __CPROVER_return_value.second <= sr.ei)
__CPROVER_ensures(__CPROVER_return_value.first - sr.ii == br_spec_lo((gv_u128)(sr.ei - sr.ii), g_tid, g_active))
__CPROVER_ensures(__CPROVER_return_value.second - sr.ii == br_spec_lo((gv_u128)(sr.ei - sr.ii), g_tid + 1u, g_active))
__CPROVER_assigns()
''',
        prelude=[BR_SPEC, '''
uint32_t g_tid, g_active;      /* ThreadPool::getTID(), runtime::activeThreads */
static inline uint32_t gv_getTID(void) { return g_tid; }
struct StdRange { uint64_t ii, ei; } sr;   /* the range object (begin()/end() of the container for LocalRange) */
'''],
        uses=['block_range_iter'], backend='ib', lower=lw,
        witness='sr.ii == 3 && sr.ei == 13 && g_active == 4 && g_tid == 1',
        inst='iterator = random-access integer iterator; container begin()/end() as two integers for LocalRange',
        says='the per-thread piece is block_range(begin, end, tid, activeThreads): by the block_range lemmas the threads\' pieces are disjoint, ordered and cover the range',
    ))

EXPLANATION = ('Every work-division routine named by the property is extracted from /repo, lowered to C and proved against a contract '
               'for all sizes / part counts / weights (sizes <= 2^40..2^62, weights <= 2^20, units <= 2^16); cover, order and adjacency '
               'are lemmas over those contracts.')
NOT_DECIDED = ('libcusp DistributedGraph callers; block_range for signed IntTy (not instantiated in /repo); adjacency of the NODE pieces of '
               'FileGraph::divideByEdge; FileGraph/OfflineGraph/LC_CSR divideByNode argument plumbing (one-line forwards to divideNodesBinarySearch).')
ASSUMPTIONS = ['abstract prefix sum: monotone (lookup contract ps_at / eb_at, ghost probes); sizes <= 2^40, weights <= 2^20',
               'cut view of divideNodesBinarySearch used by determineUnitRanges*: assumed contract dnbs_cut_u32, the logical consequence of the proved lemmas lemma_dnbs_adjacent/ends + determinism (hand-made step)',
               'ghost view of the scale-factor vector inside divideNodesBinarySearch (entries id-1, id, last); determine_block_division proved separately on the real array',
               'template code proved for the listed instantiations only (integer / counting iterators)',
               'std::vector modelled by stubs/gv_vec.h (no reallocation); returned vectors lowered to out-parameters']
