"""C13 -- work-division routines return ordered, disjoint pieces that exactly
cover the input.  Contracts on the real functions of gstl.h, Range.h,
GraphHelpers.h/.cpp, FileGraph.cpp (DESIGN.md 6, C13)."""
from gv.unit import Unit
from gv.lower import (bind, ren, members, refs, call, fcall, index, stdfn, mkpair, casts,
                      drop, dropcall, rx)

GSTL = 'libgalois/include/galois/gstl.h'
RANGE = 'libgalois/include/galois/runtime/Range.h'
GH_H = 'libgalois/include/galois/graphs/GraphHelpers.h'
GH_C = 'libgalois/src/GraphHelpers.cpp'
FG_C = 'libgalois/src/FileGraph.cpp'

UNITS = []

# ---------------------------------------------------------------------------
# block_range, integral overload  (gstl.h)
#   pieces ordered / inside / first starts at b / last ends at e   (this unit)
#   piece(id).second == piece(id+1).first                          (lemma unit)
# => ordered, pairwise disjoint, exact cover.

BR_ANCHOR_INT = r'std::pair<IntTy, IntTy>\s+block_range\(IntTy b, IntTy e, unsigned id,\s*unsigned num\)'
BR_ANCHOR_IT = r'std::pair<IterTy, IterTy>\s+block_range\(IterTy b, IterTy e, unsigned id,\s*unsigned num\)'


def br_contract(T, bound):
    return '''
__CPROVER_requires(b <= e && num >= 1 && id < num)
__CPROVER_requires(%s)
__CPROVER_ensures(b <= __CPROVER_return_value.first && __CPROVER_return_value.first <= __CPROVER_return_value.second && __CPROVER_return_value.second <= e)
__CPROVER_ensures(__CPROVER_return_value.first - b == br_spec_lo((gv_u128)(e - b), id, num))
__CPROVER_ensures(__CPROVER_return_value.second - b == br_spec_lo((gv_u128)(e - b), id + 1u, num))
__CPROVER_assigns()
''' % bound


# the spec: piece id of num over a range of length d starts at
# min(ceil(d/num) * id, d) -- in 128-bit arithmetic so that a wrapped machine
# result disagrees with it.  (max(.,1) is irrelevant to the cut points: when
# ceil(d/num)==0 then d==0.)
BR_SPEC = '''
static inline gv_u128 br_spec_lo(gv_u128 d, gv_u128 id, gv_u128 num)
{
  gv_u128 per = (d + num - 1) / num;
  gv_u128 x = per * id;
  return x < d ? x : d;
}
'''

for T, S, bound in [
        ('uint64_t', 'u64', '(e - b) <= ((uint64_t)1 << 62)'),
        ('uint32_t', 'u32', '(uint64_t)(e - b) + (uint64_t)num <= (uint64_t)UINT32_MAX')]:
    # (a signed IntTy is not instantiated anywhere in /repo -- every integral
    # call site passes size_t/uint64_t -- and IntTy=int does not even compile:
    # std::max(unsigned, int).  int64_t timed out on every back end: not claimed.)
    UNITS.append(Unit(
        name='block_range_' + S, src=GSTL, anchor=BR_ANCHOR_INT,
        proto='struct pair_%s block_range_%s(%s b, %s e, unsigned id, unsigned num)' % (S, S, T, T),
        contract=br_contract(T, bound), prelude=BR_SPEC,
        lower=[bind('IntTy', T, 5), stdfn('std::max', 'gv_max_' + S), stdfn('std::min', 'gv_min_' + S, 2),
               mkpair('std::make_pair', 'struct pair_' + S)],
        backend='ib', inst='IntTy=%s' % T,
        says='contiguous piece inside [b,e); first piece starts at b, last ends at e; cut points equal the 128-bit spec (no wrap-around)',
        replay=dict(prog='block_range', args=['b', 'e', 'id', 'num'], cxxflags=['-DIT=' + T]),
    ))

# iterator overload, proved for the random-access counting-iterator
# instantiation (what galois::iterate(int,int) produces): distance/advance are
# integer subtraction/addition.
UNITS.append(Unit(
    name='block_range_iter', src=GSTL, anchor=BR_ANCHOR_IT,
    proto='struct pair_u64 block_range_iter(uint64_t b, uint64_t e, unsigned id, unsigned num)',
    contract=br_contract('uint64_t', '(e - b) <= ((uint64_t)1 << 62)'), prelude=[BR_SPEC, '''
static inline size_t gv_distance(uint64_t a, uint64_t b) { return b - a; }
#define gv_advance(it, n) ((it) += (n))
'''],
    lower=[stdfn('std::max', 'gv_max_u64'), stdfn('std::min', 'gv_min_u64', 2),
           stdfn('std::distance', 'gv_distance'), stdfn('std::advance', 'gv_advance', 2),
           mkpair('std::make_pair', 'struct pair_u64')],
    backend='ib', inst='IterTy=boost::counting_iterator<uint64_t> (distance = subtraction, advance = addition)',
    says='same as the integral overload, for random-access integer iterators',
    replay=dict(prog='block_range', args=['b', 'e', 'id', 'num'], cxxflags=['-DIT=uint64_t', '-DITER']),
))

# ---- lemmas ---------------------------------------------------------------
# (i) pure spec lemma, proved once (a "lemma function": empty body, contract
#     enforced): the 128-bit cut-point function starts at 0, ends at d.
UNITS.append(Unit(
    name='lemma_br_spec', kind='contract', body_override='', prelude=BR_SPEC,
    proto='void lemma_br_spec(gv_u128 d, gv_u128 k, gv_u128 num)',
    contract='''
__CPROVER_requires(num >= 1 && k <= num && d <= UINT64_MAX && num <= UINT32_MAX)
__CPROVER_ensures(br_spec_lo(d, 0, num) == 0)
__CPROVER_ensures(k == num ==> br_spec_lo(d, k, num) == d)
__CPROVER_ensures(br_spec_lo(d, k, num) <= d)
__CPROVER_assigns()
''', backend='ib', witness='d == 10 && k == 3 && num == 3',
    says='spec function: cut 0 is the start, cut num is the end (ceil(d/num)*num >= d)'))

# (ii) lemmas over the CONTRACT of block_range (callee replaced by its
# contract, never its body).  Kept in two small units: the int-blasting back
# end is fast on each and gets lost when the facts are mixed.
BOUNDS = dict(u64='(e - b) <= ((uint64_t)1 << 62)', iter='(e - b) <= ((uint64_t)1 << 62)',
              u32='(uint64_t)(e - b) + (uint64_t)num <= (uint64_t)UINT32_MAX',
              i64='b >= -((int64_t)1 << 61) && e <= ((int64_t)1 << 61)')
for S, T in [('u64', 'uint64_t'), ('u32', 'uint32_t'), ('iter', 'uint64_t')]:
    P = 'u64' if S == 'iter' else S
    D = dict(T=T, S=S, P=P, B=BOUNDS[S])
    UNITS.append(Unit(
        name='lemma_block_range_ends_' + S, kind='lemma', uses=['lemma_br_spec', 'block_range_' + S],
        harness='''
  %(T)s b, e; unsigned id, num;
  __CPROVER_assume(num >= 1 && id < num && b <= e && (%(B)s));
  GV_WITNESS(b == 3 && e == 13 && num == 4 && id == 3);
  lemma_br_spec((gv_u128)(e - b), id + 1u, num);
  struct pair_%(P)s p = block_range_%(S)s(b, e, id, num);
  if (id == 0) __CPROVER_assert(p.first == b, "first piece starts at the beginning of the input");
  if (id + 1u == num) __CPROVER_assert(p.second == e, "last piece ends at the end of the input");
''' % D, backend='ib',
        says='exact cover: the first piece starts at b and the last piece ends at e'))
    UNITS.append(Unit(
        name='lemma_block_range_adjacent_' + S, kind='lemma', uses=['block_range_' + S],
        harness='''
  %(T)s b, e; unsigned id, num;
  __CPROVER_assume(num >= 2 && id < num - 1u && b <= e && (%(B)s));
  GV_WITNESS(b == 3 && e == 13 && num == 4 && id == 1);
  struct pair_%(P)s p = block_range_%(S)s(b, e, id, num);
  struct pair_%(P)s q = block_range_%(S)s(b, e, id + 1u, num);
  __CPROVER_assert(p.second == q.first, "adjacent pieces share their boundary: piece(id).end == piece(id+1).begin");
  __CPROVER_assert(p.first <= q.first && p.second <= q.second, "pieces appear in order");
''' % D, backend='ib',
        says='pairwise disjoint and in order: consecutive pieces share their boundary'))
