"""C14 (part) -- galois::TwoLevelIteratorA (TwoLevelIteratorA.h): the decrement helpers.  Iterators are positions (integers)
in a sequence that starts at `begin`.  safe_decrement(it, begin) must say "already at the beginning" or move `it` to its
predecessor, for bidirectional iterators (--it) AND for forward-only ones (re-scan from begin)."""
import re
from gv.unit import Unit
from gv.lower import (bind, ren, members, refs, call, fcall, index, stdfn, mkpair, casts, drop, dropcall, rx)

TLA = 'libgalois/include/galois/TwoLevelIteratorA.h'
W = r'class TwoLevelIteratorA\b'
UNITS = []
P = ['typedef uint64_t Iter;   /* an iterator = a position */\n']
UNITS.append(Unit(
    name='TLA_safe_decrement_forward', src=TLA, within=W, anchor=r'void safe_decrement_dispatch\(std::forward_iterator_tag, Iter& it,\s*Iter begin\)', proto='void TLA_safe_decrement_forward(Iter* it_p, Iter begin)',
    contract='__CPROVER_requires(__CPROVER_is_fresh(it_p, sizeof(*it_p)) && begin < *it_p)\n__CPROVER_ensures(*it_p == __CPROVER_old(*it_p) - 1)\n__CPROVER_assigns(*it_p)',
    prelude=P, lower=[rx(r'(?<![\w.>])it(?![\w])', '(*it_p)', 1)], ghost_prefix='const Iter it0 = *it_p;',
    loops={1: '__CPROVER_assigns(begin, prev)\n__CPROVER_loop_invariant(__CPROVER_loop_entry(begin) <= begin && begin <= it0 && *it_p == it0 && (begin == __CPROVER_loop_entry(begin) ? prev == begin : (prev + 1 == begin && prev >= __CPROVER_loop_entry(begin))))\n__CPROVER_decreases(it0 - begin)'},
    fallback_unwind=6, no_flags=['--conversion-check'], inst='iterators = positions', replay=dict(prog='twolevel_backward', args=[], lib=False),
    says='safe_decrement_dispatch for a FORWARD-only iterator: re-scans from begin and leaves `it` on its predecessor'))
UNITS.append(Unit(
    name='TLA_safe_decrement_bidir', src=TLA, within=W, anchor=r'void safe_decrement_dispatch\(std::bidirectional_iterator_tag, Iter& it,\s*const Iter&\)', proto='void TLA_safe_decrement_bidir(Iter* it_p, Iter begin)',
    contract='__CPROVER_requires(__CPROVER_is_fresh(it_p, sizeof(*it_p)) && begin < *it_p)\n__CPROVER_ensures(*it_p == __CPROVER_old(*it_p) - 1)\n__CPROVER_assigns(*it_p)',
    prelude=P, lower=[rx(r'(?<![\w.>])it(?![\w])', '(*it_p)', 1)], no_flags=['--conversion-check'], inst='iterators = positions',
    says='safe_decrement_dispatch for a bidirectional iterator: --it'))
for tag, callee in (('forward', 'TLA_safe_decrement_forward'), ('bidir', 'TLA_safe_decrement_bidir')):
    UNITS.append(Unit(
        name='TLA_safe_decrement_' + tag + '_top', src=TLA, within=W, anchor=r'bool safe_decrement\(Iter& it, const Iter& begin\)', proto='bool TLA_safe_decrement_%s_top(Iter* it_p, Iter begin)' % tag,
        contract='__CPROVER_requires(__CPROVER_is_fresh(it_p, sizeof(*it_p)) && begin <= *it_p)\n__CPROVER_ensures((__CPROVER_return_value != 0) == (__CPROVER_old(*it_p) == begin) && *it_p == (__CPROVER_old(*it_p) == begin ? begin : __CPROVER_old(*it_p) - 1))\n__CPROVER_assigns(*it_p)',
        prelude=P, inline=[callee],
        lower=[rx(r'safe_decrement_dispatch\(\s*typename std::iterator_traits<Iter>::iterator_category\(\), it, begin\);', '%s(it_p, begin);' % callee, 1, 1, flags=re.S), rx(r'(?<![\w.>])it(?![\w])', '(*it_p)', 1)],
        no_flags=['--conversion-check'], inst='%s iterator category' % tag, fallback_unwind=6,
        says='safe_decrement (%s iterators): true and unchanged at the beginning, otherwise false and `it` moved to its predecessor' % tag))
