"""C14 (part) -- galois::TwoLevelIteratorA (TwoLevelIteratorA.h): the decrement helpers.  Iterators are positions (integers)
in a sequence that starts at `begin`.  safe_decrement(it, begin) must say "already at the beginning" or move `it` to its
predecessor, for bidirectional iterators (--it) AND for forward-only ones (re-scan from begin)."""
import re
from gv.unit import Unit
from gv.lower import (bind, ren, members, refs, call, fcall, index, stdfn, mkpair, casts, drop, dropcall, rx)

TLA = 'libgalois/include/galois/TwoLevelIteratorA.h'
W = r'class TwoLevelIteratorA\b'
UNITS = []
P = ['typedef uint64_t Iter;   /* an iterator = a position */\n']
UNITS.append(Unit(
    name='TLA_safe_decrement_forward', src=TLA, within=W, anchor=r'void safe_decrement_dispatch\(std::forward_iterator_tag, Iter& it,\s*Iter begin\)', proto='void TLA_safe_decrement_forward(Iter* it_p, Iter begin)',
    contract='__CPROVER_requires(__CPROVER_is_fresh(it_p, sizeof(*it_p)) && begin < *it_p)\n__CPROVER_ensures(*it_p == __CPROVER_old(*it_p) - 1)\n__CPROVER_assigns(*it_p)',
    prelude=P, lower=[rx(r'(?<![\w.>])it(?![\w])', '(*it_p)', 1)], ghost_prefix='const Iter it0 = *it_p;',
    loops={1: '__CPROVER_assigns(begin, prev)\n__CPROVER_loop_invariant(__CPROVER_loop_entry(begin) <= begin && begin <= it0 && *it_p == it0 && (begin == __CPROVER_loop_entry(begin) ? prev == begin : (prev + 1 == begin && prev >= __CPROVER_loop_entry(begin))))\n__CPROVER_decreases(it0 - begin)'},
    fallback_unwind=6, no_flags=['--conversion-check'], inst='iterators = positions', replay=dict(prog='twolevel_backward', args=[], lib=False),
    says='safe_decrement_dispatch for a FORWARD-only iterator: re-scans from begin and leaves `it` on its predecessor'))
UNITS.append(Unit(
    name='TLA_safe_decrement_bidir', src=TLA, within=W, anchor=r'void safe_decrement_dispatch\(std::bidirectional_iterator_tag, Iter& it,\s*const Iter&\)', proto='void TLA_safe_decrement_bidir(Iter* it_p, Iter begin)',
    contract='__CPROVER_requires(__CPROVER_is_fresh(it_p, sizeof(*it_p)) && begin < *it_p)\n__CPROVER_ensures(*it_p == __CPROVER_old(*it_p) - 1)\n__CPROVER_assigns(*it_p)',
    prelude=P, lower=[rx(r'(?<![\w.>])it(?![\w])', '(*it_p)', 1)], no_flags=['--conversion-check'], inst='iterators = positions',
    says='safe_decrement_dispatch for a bidirectional iterator: --it'))
for tag, callee in (('forward', 'TLA_safe_decrement_forward'), ('bidir', 'TLA_safe_decrement_bidir')):
    UNITS.append(Unit(
        name='TLA_safe_decrement_' + tag + '_top', src=TLA, within=W, anchor=r'bool safe_decrement\(Iter& it, const Iter& begin\)', proto='bool TLA_safe_decrement_%s_top(Iter* it_p, Iter begin)' % tag,
        contract='__CPROVER_requires(__CPROVER_is_fresh(it_p, sizeof(*it_p)) && begin <= *it_p)\n__CPROVER_ensures((__CPROVER_return_value != 0) == (__CPROVER_old(*it_p) == begin) && *it_p == (__CPROVER_old(*it_p) == begin ? begin : __CPROVER_old(*it_p) - 1))\n__CPROVER_assigns(*it_p)',
        prelude=P, inline=[callee],
        lower=[rx(r'safe_decrement_dispatch\(\s*typename std::iterator_traits<Iter>::iterator_category\(\), it, begin\);', '%s(it_p, begin);' % callee, 1, 1, flags=re.S), rx(r'(?<![\w.>])it(?![\w])', '(*it_p)', 1)],
        no_flags=['--conversion-check'], inst='%s iterator category' % tag, fallback_unwind=6,
        says='safe_decrement (%s iterators): true and unchanged at the beginning, otherwise false and `it` moved to its predecessor' % tag))

# ---- traversal over a nested structure: outer positions 0..NO (NO = end), inner positions 0..LEN[o] (LEN[o] = end) ------------------
TP = ["""
typedef uint64_t Iter;
#ifndef MAXO
#define MAXO 6u                    /* number of outer containers: configuration bound for the model of the nested structure */
#endif
#ifndef MAXLEN
#define MAXLEN 8u                  /* elements per inner container */
#endif
unsigned NO; unsigned LEN[MAXO];   /* the nested structure: NO inner containers, LEN[o] elements in container o (any may be empty) */
struct TLI { Iter outer; Iter inner; };      /* m_outer, base_reference(); m_outer_begin = 0, m_outer_end = NO */
static inline Iter inner_begin(Iter o) { __CPROVER_assert(o < NO, "m_inner_begin_fn(*m_outer): m_outer is dereferenceable (not the outer end)"); return 0; }
static inline Iter inner_end(Iter o) { __CPROVER_assert(o < NO, "m_inner_end_fn(*m_outer): m_outer is dereferenceable (not the outer end)"); return LEN[o]; }
unsigned g_q;                      /* ghost probe outer position */
#define SHAPE (NO <= MAXO && __CPROVER_forall { unsigned q_; (q_ < MAXO) ==> LEN[q_] <= MAXLEN })
/* a position ON an element */
#define ON_ELEM(it) ((it)->outer < NO && (it)->inner < LEN[(it)->outer])
"""]
TL_COMMON = [rx(r'this->base_reference\(\)', 'self->inner', 0), rx(r'm_inner_end_fn\(\*m_outer\)', 'inner_end(self->outer)', 0), rx(r'm_inner_begin_fn\(\*m_outer\)', 'inner_begin(self->outer)', 0),
             rx(r'm_outer_end', 'NO', 0), rx(r'm_outer_begin', '((Iter)0)', 0), rx(r'(?<![\w.>])m_outer(?![\w])', 'self->outer', 0), rx(r'InnerIter end;', 'Iter end;', 0),
             rx(r'bool too_far __attribute__\(\(unused\)\)\s*=\s*safe_decrement\(self->outer, \(\(Iter\)0\)\);', 'bool too_far = TLA_safe_decrement_bidir_top(&self->outer, (Iter)0);', 0),
             rx(r'bool too_far __attribute__\(\(unused\)\)\s*=\s*safe_decrement\(self->inner, inner_begin\(self->outer\)\);', 'bool too_far = TLA_safe_decrement_bidir_top(&self->inner, inner_begin(self->outer));', 0),
             rx(r'!safe_decrement\(self->inner,\s*inner_begin\(self->outer\)\)', '!TLA_safe_decrement_bidir_top(&self->inner, inner_begin(self->outer))', 0),
             rx(r'assert\(!too_far\);', '__CPROVER_assert(!too_far, "code-assert: !too_far");', 0), rx(r'(?<![\w.>])seek_forward\(\);', 'TLA_seek_forward(self);', 0), rx(r'(?<![\w.>])seek_backward\(\);', 'TLA_seek_backward(self);', 0)]
UNITS.append(Unit(
    name='TLA_seek_forward', src=TLA, within=W, anchor=r'void seek_forward\(\)', proto='void TLA_seek_forward(struct TLI* self)',
    contract="""__CPROVER_requires(__CPROVER_is_fresh(self, sizeof(*self)) && SHAPE && self->outer < NO && self->inner <= LEN[self->outer] && g_q < MAXO)
/* already on an element: nothing moves */
__CPROVER_ensures(__CPROVER_old(self->inner) < LEN[__CPROVER_old(self->outer)] ==> (self->outer == __CPROVER_old(self->outer) && self->inner == __CPROVER_old(self->inner)))
/* at the end of an inner container: the first element of the next NON-EMPTY container, or the outer end; every container skipped is empty */
__CPROVER_ensures(__CPROVER_old(self->inner) == LEN[__CPROVER_old(self->outer)] ==> (self->outer > __CPROVER_old(self->outer) && self->outer <= NO && (self->outer < NO ==> (self->inner == 0 && LEN[self->outer] >= 1)) && ((__CPROVER_old(self->outer) < g_q && g_q < self->outer) ==> LEN[g_q] == 0)))
__CPROVER_assigns(self->outer, self->inner)""",
    prelude=TP, lower=TL_COMMON, ghost_prefix='const Iter o0 = self->outer;',
    loops={1: '__CPROVER_assigns(self->outer, self->inner)\n__CPROVER_loop_invariant(self->outer > o0 && self->outer <= NO && NO <= MAXO && ((o0 < g_q && g_q < self->outer) ==> LEN[g_q] == 0))\n__CPROVER_decreases(NO - self->outer)'},
    fallback_unwind=8, no_flags=['--conversion-check'], inst='nested structure of <= 6 inner containers of <= 8 elements',
    says='seek_forward: a position that ran off an inner container moves to the first element of the next non-empty container (all containers skipped are empty) or to the end; the outer end iterator is never dereferenced'))
UNITS.append(Unit(
    name='TLA_increment', src=TLA, within=W, anchor=r'void increment\(\)', proto='void TLA_increment(struct TLI* self)',
    contract="""__CPROVER_requires(__CPROVER_is_fresh(self, sizeof(*self)) && SHAPE && ON_ELEM(self) && g_q < MAXO)
/* the SUCCESSOR in the flattened sequence: next element of the same container, else first element of the next non-empty one, else the end */
__CPROVER_ensures(__CPROVER_old(self->inner) + 1 < LEN[__CPROVER_old(self->outer)] ? (self->outer == __CPROVER_old(self->outer) && self->inner == __CPROVER_old(self->inner) + 1)
                  : (self->outer > __CPROVER_old(self->outer) && self->outer <= NO && (self->outer < NO ==> (self->inner == 0 && LEN[self->outer] >= 1)) && ((__CPROVER_old(self->outer) < g_q && g_q < self->outer) ==> LEN[g_q] == 0)))
__CPROVER_assigns(self->outer, self->inner)""",
    prelude=TP, lower=TL_COMMON, inline=['TLA_seek_forward'], fallback_unwind=8, no_flags=['--conversion-check'], inst='nested structure of <= 6 inner containers of <= 8 elements',
    says='operator++: from an element to its successor in the flattened sequence (empty inner containers are skipped), or to the end'))
UNITS.append(Unit(
    name='TLA_seek_backward', src=TLA, within=W, anchor=r'void seek_backward\(\)', proto='void TLA_seek_backward(struct TLI* self)',
    contract="""__CPROVER_requires(__CPROVER_is_fresh(self, sizeof(*self)) && SHAPE && self->outer < NO && g_q < MAXO && g_first < NO && LEN[g_first] >= 1 && g_first <= self->outer)
/* to the END of the last non-empty container at or before the current one (one exists: g_first) */
__CPROVER_ensures(self->outer <= __CPROVER_old(self->outer) && self->outer >= g_first && LEN[self->outer] >= 1 && self->inner == LEN[self->outer] && ((self->outer < g_q && g_q <= __CPROVER_old(self->outer)) ==> LEN[g_q] == 0))
__CPROVER_assigns(self->outer, self->inner)""",
    prelude=TP + ['unsigned g_first;   /* ghost: some non-empty container at or before the position (so the backward search stops) */\n'], lower=TL_COMMON, inline=['TLA_safe_decrement_bidir', 'TLA_safe_decrement_bidir_top'],
    ghost_prefix='const Iter o0 = self->outer;',
    loops={1: '__CPROVER_assigns(end, self->outer)\n__CPROVER_loop_invariant(self->outer <= o0 && self->outer >= g_first && end == LEN[self->outer] && NO <= MAXO && o0 < NO && ((self->outer < g_q && g_q <= o0) ==> LEN[g_q] == 0))\n__CPROVER_decreases(self->outer)'},
    fallback_unwind=8, no_flags=['--conversion-check'], inst='bidirectional outer iterator; nested structure of <= 6 inner containers of <= 8 elements',
    says='seek_backward: to the end of the nearest non-empty container at or before the current one (all containers skipped are empty); never steps before the first container'))
UNITS.append(Unit(
    name='TLA_decrement', src=TLA, within=W, anchor=r'void decrement\(\)', proto='void TLA_decrement(struct TLI* self)',
    contract="""__CPROVER_requires(__CPROVER_is_fresh(self, sizeof(*self)) && SHAPE && g_q < MAXO && g_first < NO && LEN[g_first] >= 1)
/* a position on an element or the end, NOT the first element of the sequence: g_first is a non-empty container strictly before it, or the same container with inner > 0 */
__CPROVER_requires((self->outer == NO && self->inner <= 8) || (ON_ELEM(self)))
__CPROVER_requires(self->outer == NO ? g_first < NO : ((self->inner > 0 && g_first == self->outer) || g_first < self->outer))
/* the PREDECESSOR in the flattened sequence */
__CPROVER_ensures((__CPROVER_old(self->outer) < NO && __CPROVER_old(self->inner) > 0) ? (self->outer == __CPROVER_old(self->outer) && self->inner == __CPROVER_old(self->inner) - 1)
                  : (self->outer < __CPROVER_old(self->outer) && self->outer >= g_first && LEN[self->outer] >= 1 && self->inner == LEN[self->outer] - 1 && ((self->outer < g_q && g_q < __CPROVER_old(self->outer)) ==> LEN[g_q] == 0)))
__CPROVER_assigns(self->outer, self->inner)""",
    prelude=TP + ['unsigned g_first;   /* ghost: a non-empty container before the position */\n'], lower=TL_COMMON, inline=['TLA_safe_decrement_bidir', 'TLA_safe_decrement_bidir_top', 'TLA_seek_backward'],
    fallback_unwind=8, no_flags=['--conversion-check'], inst='bidirectional iterators; nested structure of <= 6 inner containers of <= 8 elements',
    says='operator--: from the end or an element that is not the first one to its predecessor in the flattened sequence (empty inner containers are skipped); the code\'s own assertions (!too_far) hold'))

# ---- random-access jumps: it -= n -----------------------------------------------------------------------------------------
FLATP = """
/* number of elements before container o / flattened index of a position (constant-bound sums over the <= 6 containers) */
#define PRE(o) ((uint64_t)((o) > 0 ? LEN[0] : 0) + ((o) > 1 ? LEN[1] : 0) + ((o) > 2 ? LEN[2] : 0) + ((o) > 3 ? LEN[3] : 0) + ((o) > 4 ? LEN[4] : 0) + ((o) > 5 ? LEN[5] : 0))
#define FLAT(it) (PRE((it)->outer) + ((it)->outer < NO ? (it)->inner : 0))
#define CANON(it) (((it)->outer == NO) || ON_ELEM(it))      /* the end, or on an element */
"""
UNITS.append(Unit(
    name='TLA_jump_backward', kind='bounded', unwind=16, dfcc=False, bound_desc='a smaller model of the nested structure (<= 4 inner containers of <= 3 elements, so n <= 12; the 6 x 8 model did not finish in 30 minutes): every loop unwound completely, all structures, positions and distances',
    src=TLA, within=W, anchor=r'void jump_backward\(DiffType n\)', proto='void TLA_jump_backward(struct TLI* self, int64_t n)', contract='',
    defines=['MAXO=4u', 'MAXLEN=3u'], prelude=TP + [FLATP.replace(' + ((o) > 4 ? LEN[4] : 0) + ((o) > 5 ? LEN[5] : 0)', ''), 'unsigned nondet_unsigned(void); uint64_t nondet_u64(void); int64_t nondet_i64(void);\nvoid TLA_jump_backward(struct TLI* self, int64_t n);\n'], lower=TL_COMMON + [
        rx(r'assert\(n >= 0\);', '__CPROVER_assert(n >= 0, "code-assert: n >= 0");', 1, 1), rx(r'difference_type k =\s*std::distance\(inner_begin\(self->outer\), self->inner\)( \+ 1)?;', lambda m: 'int64_t k = (int64_t)(self->inner - inner_begin(self->outer))%s;' % (m.group(1) or ''), 1, 1),
        rx(r'std::advance\(self->inner, -(\w+)\);', r'self->inner -= (Iter)\1;', 1), rx(r'(?<![\w.>])seek_backward\(\);', 'TLA_seek_backward(self);', 0), rx(r'(?<![\w.>])decrement\(\);', 'TLA_decrement_nc(self);', 1)],
    post_pre='void TLA_decrement_nc(struct TLI* self);\nvoid TLA_seek_backward(struct TLI* self);\n', inline=['TLA_safe_decrement_bidir', 'TLA_safe_decrement_bidir_top', 'TLA_seek_backward', 'TLA_decrement_nc'],
    harness="""
  NO = nondet_unsigned(); __CPROVER_assume(NO <= MAXO);
  for (unsigned q = 0; q < MAXO; ++q) { LEN[q] = nondet_unsigned(); __CPROVER_assume(LEN[q] <= MAXLEN); }
  struct TLI it; it.outer = nondet_u64(); it.inner = nondet_u64();
  __CPROVER_assume(CANON(&it) && (it.outer == NO ==> it.inner <= MAXLEN));
  int64_t n = nondet_i64(); __CPROVER_assume(n >= 0 && (uint64_t)n <= FLAT(&it));
  const uint64_t f0 = FLAT(&it); const struct TLI old = it;
  TLA_jump_backward(&it, n);
  if (n == 0) __CPROVER_assert(it.outer == old.outer && it.inner == old.inner, "it -= 0 moves nothing");
  else { __CPROVER_assert(ON_ELEM(&it), "it -= n (n >= 1) lands on an element"); __CPROVER_assert(FLAT(&it) == f0 - (uint64_t)n, "it -= n lands exactly n positions earlier in the flattened sequence"); }
""",
    reach=True, no_flags=['--conversion-check'], timeout=1800, reach_timeout=600, inst='random-access inner iterators',
    replay=dict(prog='twolevel_jump_back', args=[], lib=False),
    says='jump_backward (operator-= on a random-access two-level iterator): lands exactly n positions earlier in the flattened sequence, across any number of (possibly empty) inner containers -- exhaustive over the model of the nested structure (complete unwinding)'))
UNITS.append(Unit(name='TLA_decrement_nc', kind='assumed', src=TLA, within=W, anchor=r'void decrement\(\)', proto='void TLA_decrement_nc(struct TLI* self)', contract='', lower=TL_COMMON))

UNITS.append(Unit(
    name='TLA_jump_forward', kind='bounded', unwind=16, dfcc=False, bound_desc='the small model of the nested structure (<= 4 inner containers of <= 3 elements, n <= 12): every loop unwound completely, all structures, positions and distances',
    src=TLA, within=W, anchor=r'void jump_forward\(DiffType n\)', proto='void TLA_jump_forward(struct TLI* self, int64_t n)', contract='',
    defines=['MAXO=4u', 'MAXLEN=3u'], prelude=TP + [FLATP.replace(' + ((o) > 4 ? LEN[4] : 0) + ((o) > 5 ? LEN[5] : 0)', ''), 'unsigned nondet_unsigned(void); uint64_t nondet_u64(void); int64_t nondet_i64(void);\nvoid TLA_jump_forward(struct TLI* self, int64_t n);\nvoid TLA_seek_forward(struct TLI* self);\nstatic inline int64_t gv_min_i64b(int64_t a, int64_t b) { return a < b ? a : b; }\n'],
    lower=TL_COMMON + [rx(r'assert\(n >= 0\);', '__CPROVER_assert(n >= 0, "code-assert: n >= 0");', 1, 1),
                       rx(r'difference_type k =\s*std::distance\(self->inner, inner_end\(self->outer\)\);', 'int64_t k = (int64_t)(inner_end(self->outer) - self->inner);', 1, 1),
                       rx(r'difference_type m = std::min\(k, n\);', 'int64_t m = gv_min_i64b(k, n);', 1, 1), rx(r'std::advance\(self->inner, m\);', 'self->inner += (Iter)m;', 1, 1)],
    inline=['TLA_seek_forward'],
    harness="""
  NO = nondet_unsigned(); __CPROVER_assume(NO <= MAXO);
  for (unsigned q = 0; q < MAXO; ++q) { LEN[q] = nondet_unsigned(); __CPROVER_assume(LEN[q] <= MAXLEN); }
  struct TLI it; it.outer = nondet_u64(); it.inner = nondet_u64();
  __CPROVER_assume(CANON(&it) && (it.outer == NO ==> it.inner <= MAXLEN));
  const uint64_t total = PRE(NO);
  int64_t n = nondet_i64(); __CPROVER_assume(n >= 0 && FLAT(&it) + (uint64_t)n <= total && (it.outer == NO ==> n == 0));
  const uint64_t f0 = FLAT(&it); const struct TLI old = it;
  TLA_jump_forward(&it, n);
  if (n == 0) __CPROVER_assert(it.outer == old.outer && it.inner == old.inner, "it += 0 moves nothing");
  else { __CPROVER_assert(CANON(&it), "it += n lands on an element or on the end"); __CPROVER_assert(FLAT(&it) == f0 + (uint64_t)n, "it += n lands exactly n positions later in the flattened sequence"); }
""",
    reach=True, no_flags=['--conversion-check'], timeout=1800, reach_timeout=600, inst='random-access inner iterators',
    says='jump_forward (operator+= on a random-access two-level iterator): lands exactly n positions later in the flattened sequence (or on the end), across any number of possibly empty inner containers -- exhaustive over the small model'))
