"""C14 (part) -- galois::PODResizeableArray<T> against std::vector<T> for trivially copyable T.
Instantiations: T = uint8_t (what Serialize.h's buffers use) and T = uint64_t.
Abstract view: the sequence data_[0 .. size_); "everything else unchanged" through a ghost probe index g_k whose
value before the call is g_kv.  realloc/malloc/free are CBMC's own heap model behind a stub that preserves the block's
content at the probe index (trusted: that is realloc's contract); allocation failure is out of scope."""
import re
from gv.unit import Unit
from gv.lower import (bind, ren, members, refs, call, fcall, index, stdfn, mkpair, casts, drop, dropcall, rx)

PRA = 'libgalois/include/galois/PODResizeableArray.h'
W = r'class PODResizeableArray\b'
UNITS = []


def prelude(T, sfx):
    return sfxify('''
#include <stdlib.h>
typedef %s pod_t;
struct PRA { pod_t* data_; size_t capacity_; size_t size_; };
#ifndef GV_PRA_SHARED
#define GV_PRA_SHARED
size_t g_k;      /* ghost probe INDEX into the abstract sequence */
size_t g_k2;     /* a second preserved probe index (lemmas about two positions at once) */
bool g_thrown;   /* std::out_of_range thrown */
#define MAXN ((size_t)1 << 40)
#endif
pod_t g_kv;      /* ghost: the element at g_k before the call (assigned by the harness) */
size_t g_c;      /* ghost probe index into a source range of this element type */
/* realloc (trusted stub over CBMC's malloc): a NEW block of n bytes whose content equals the old block's at the probe
   element.  The old block is gone afterwards: it is not handed back to CBMC's allocator (conditional frees do not compose
   with contract replacement in goto-instrument 6.11) but POISONED at the probe element, so that a read through a stale
   pointer yields an arbitrary value.  Never fails. */
pod_t nondet_pod(void);
static inline void* gv_realloc(void* p, size_t n)
{
  __CPROVER_assert(p == 0 || __CPROVER_POINTER_OFFSET(p) == 0, "realloc: pointer is the start of a block");
  pod_t* q = (pod_t*)malloc(n);
  __CPROVER_assume(q != 0);
  if (p != 0) {
    size_t old = __CPROVER_OBJECT_SIZE(p);
    if (g_k < 2 * MAXN && (g_k + 1) * sizeof(pod_t) <= old) {
      if ((g_k + 1) * sizeof(pod_t) <= n) q[g_k] = ((pod_t*)p)[g_k];
      ((pod_t*)p)[g_k] = nondet_pod();
    }
    if (g_k2 != g_k && g_k2 < 2 * MAXN && (g_k2 + 1) * sizeof(pod_t) <= old && (g_k2 + 1) * sizeof(pod_t) <= n) q[g_k2] = ((pod_t*)p)[g_k2];
  }
  return q;
}
/* std::copy_n / memcpy on trivially copyable elements: element g_c of the source arrives at element g_c of the destination
   (the probe is arbitrary, so this is "every element"); reads and writes are checked to be inside their blocks */
/* copies of at most 16 elements, carried out exactly */
static inline void gv_copy_exact16(const pod_t* src, size_t n, pod_t* dst)
{
  if (0 < n) dst[0] = src[0];
  if (1 < n) dst[1] = src[1];
  if (2 < n) dst[2] = src[2];
  if (3 < n) dst[3] = src[3];
  if (4 < n) dst[4] = src[4];
  if (5 < n) dst[5] = src[5];
  if (6 < n) dst[6] = src[6];
  if (7 < n) dst[7] = src[7];
  if (8 < n) dst[8] = src[8];
  if (9 < n) dst[9] = src[9];
  if (10 < n) dst[10] = src[10];
  if (11 < n) dst[11] = src[11];
  if (12 < n) dst[12] = src[12];
  if (13 < n) dst[13] = src[13];
  if (14 < n) dst[14] = src[14];
  if (15 < n) dst[15] = src[15];
}
static inline void gv_copy_probe(const pod_t* src, size_t n, pod_t* dst)
{ if (g_c < n) { dst[g_c] = src[g_c]; } if (n > 0) { pod_t a = src[n - 1]; dst[n - 1] = (g_c == n - 1) ? a : dst[n - 1]; } }
static inline void gv_copy_n(const pod_t* src, size_t n, pod_t* dst)
{
#ifdef GV_COPY_EXACT16
  if (n <= 16) { gv_copy_exact16(src, n, dst); return; }
#endif
  gv_copy_probe(src, n, dst);
}
/* memcpy: as copy_n, and copies of at most 16 elements (scalars, length fields whose VALUE the code goes on to use) are always exact */
static inline void gv_memcpy_elems(const pod_t* src, size_t n, pod_t* dst)
{ if (n <= 16) gv_copy_exact16(src, n, dst); else gv_copy_probe(src, n, dst); }
#define gv_memcpy(dst, src, bytes) gv_memcpy_elems((const pod_t*)(src), (bytes) / sizeof(pod_t), (pod_t*)(dst))
/* representation invariant: no block <=> capacity 0; the block has exactly capacity_ elements; size_ <= capacity_ */
#define PRA_SHAPE(a) ((a)->size_ <= (a)->capacity_ && (a)->capacity_ <= 2 * MAXN)
#define PRA_OK(a) (__CPROVER_is_fresh(a, sizeof(*(a))) && PRA_SHAPE(a) && ((a)->capacity_ == 0 ? (a)->data_ == (pod_t*)0 : __CPROVER_is_fresh((a)->data_, (a)->capacity_ * sizeof(pod_t))))
/* after an operation: either the same block with the same capacity, or a new block of exactly capacity_ elements */
#define PRA_VALID(a) (PRA_SHAPE(a) && ((a)->capacity_ == 0 ? (a)->data_ == (pod_t*)0 : (((a)->data_ == __CPROVER_old((a)->data_) && (a)->capacity_ == __CPROVER_old((a)->capacity_)) || __CPROVER_is_fresh((a)->data_, (a)->capacity_ * sizeof(pod_t)))))
#define PRA_VALID_NEW(a) (PRA_SHAPE(a) && ((a)->capacity_ == 0 ? (a)->data_ == (pod_t*)0 : __CPROVER_is_fresh((a)->data_, (a)->capacity_ * sizeof(pod_t))))
#define KEPT(a) ((a)->data_[g_k] == g_kv)
''' % T, sfx) + '''
#ifndef GV_OOR
#define GV_OOR
static inline void gv_out_of_range(void) { g_thrown = 1; }
#endif
'''


IDENTS = ['gv_memcpy_elems', 'gv_copy_exact16', 'gv_copy_probe', 'g_c', 'pod_t', 'PRA_OK', 'PRA_SHAPE', 'PRA_VALID_NEW', 'PRA_VALID', 'KEPT', 'g_kv', 'g_v', 'gv_realloc', 'gv_copy_n', 'gv_memcpy', 'nondet_pod']
_IDRX = re.compile(r'(?<![\w])(' + '|'.join(sorted(IDENTS, key=len, reverse=True)) + r')(?![\w])')


def sfxify(text, sfx):
    """every type / macro / stub / ghost that depends on the element type carries the instantiation suffix, so that two
    instantiations can live in one translation unit (C17 needs PODResizeableArray<uint8_t> and <uint64_t> together)"""
    if text is None:
        return None
    text = _IDRX.sub(lambda m: m.group(1) + sfx, text)
    return re.sub(r'struct PRA(?![\w])', 'struct PRA' + sfx, text)


M = members(['data_', 'capacity_', 'size_'], minimum=1)
COMMON = [rx(r'(?<![\w.>])_Tp(?![\w])', 'pod_t', 0), rx(r'\bNULL\b', '((pod_t*)0)', 0), casts(0), rx(r'\(_Tp\*\)', '(pod_t*)', 0), rx(r'sizeof\(_Tp\)', 'sizeof(pod_t)', 0), rx(r'(?<![\w.>])realloc\(', 'gv_realloc(', 0),
          rx(r'(?<![\w.>])(const_)?iterator\(', '(', 0), rx(r'std::copy_n\(', 'gv_copy_n(', 0), rx(r'(?<![\w.>])memcpy\(', 'gv_memcpy(', 0),
          rx(r'(?<![\w.>])(reserve|resize)\(', r'PRA_\1@(self, ', 0), rx(r'(?<![\w.>])(begin|end)\(\)', r'PRA_\1@(self)', 0),
          rx(r'throw std::out_of_range\([^;]*\);', '{ gv_out_of_range(); return (pod_t*)0; }', 0),
          rx(r'(?<![\w.>])free\(', 'free(', 0)]
ASG = '__CPROVER_assigns(__CPROVER_object_whole(self))'
ASGB = '__CPROVER_assigns(__CPROVER_object_whole(self); self->data_ != (pod_t*)0: __CPROVER_object_whole(self->data_))'   # + the (old) block
FREES = '__CPROVER_frees(self->data_)'
HP = 'if (self && self->data_ && g_k < self->capacity_) g_kv = self->data_[g_k];'   # never executed before requires; see harness()


def harness(call, pre=''):
    # the harness cannot read through `self` before the contract's requires allocated it, so g_kv is tied to the
    # element by the precondition (KEPT) instead -- an equality on a scalar, not a pointer
    return None


for T, sfx in (('uint8_t', '_u8'), ('uint64_t', '_u64')):
    P = [prelude(T, sfx)]

    def U(name, anchor, proto, contract, says, uses=(), inl=(), loops=None, occurrence=None, extra=(), ctor_inits=None, nullplus0=False, **kw):
        # &data_[0] / &data_[size_] on the empty array is NULL + 0: defined in C++ (not in C), so the pointer-arithmetic check is off for begin()/end()
        UNITS.append(Unit(
            name='PRA_' + name + sfx, src=PRA, within=W, anchor=anchor, occurrence=occurrence, proto=sfxify(proto, sfx).replace('@', sfx), contract=sfxify(contract, sfx).replace('@', sfx),
            prelude=P, uses=['PRA_' + u + sfx for u in uses], inline=['PRA_' + u + sfx for u in inl],
            lower=list(extra) + [Rr for Rr in COMMON] + [M, rx(r'@', sfx, 0), rx(_IDRX.pattern, (lambda m, sfx=sfx: m.group(1) + sfx), 0), rx(r'struct PRA(?![\w])', 'struct PRA' + sfx, 0)],
            loops={k: sfxify(v, sfx) for k, v in (loops or {}).items()}, ctor_inits=ctor_inits,
            no_flags=['--conversion-check'] + (['--pointer-overflow-check'] if nullplus0 else []), inst='_Tp = %s' % T, says=says, timeout=kw.pop('timeout', 900),
            **{k: (sfxify(v, sfx) if k in ('post_pre', 'ghost_prefix', 'harness_pre') else v) for k, v in kw.items()}))

    U('reserve', r'void reserve\(size_t n\)', 'void PRA_reserve@(struct PRA* self, size_t n)',
      '''__CPROVER_requires(PRA_OK(self) && n <= MAXN && (g_k < self->size_ ==> KEPT(self)))
__CPROVER_ensures(PRA_VALID(self) && self->size_ == __CPROVER_old(self->size_) && self->capacity_ >= n && self->capacity_ >= __CPROVER_old(self->capacity_))
__CPROVER_ensures(n <= __CPROVER_old(self->capacity_) ==> (self->capacity_ == __CPROVER_old(self->capacity_) && self->data_ == __CPROVER_old(self->data_)))
__CPROVER_ensures(g_k < self->size_ ==> KEPT(self))
''' + ASGB,
      'reserve(n): capacity >= n afterwards, never shrinks, size and every element kept, nothing happens if the capacity suffices; the block has exactly capacity_ elements',
      loops={1: '__CPROVER_assigns(self->capacity_)\n__CPROVER_loop_invariant(self->capacity_ >= 1 && self->capacity_ < 2 * n && self->capacity_ >= __CPROVER_loop_entry(self->capacity_))\n__CPROVER_decreases(2 * n - self->capacity_)'},
      fallback_unwind=44)
    U('resize', r'void resize\(size_t n\)', 'void PRA_resize@(struct PRA* self, size_t n)',
      '''__CPROVER_requires(PRA_OK(self) && n <= MAXN && (g_k < self->size_ ==> KEPT(self)))
__CPROVER_ensures(PRA_VALID(self) && self->size_ == n && self->capacity_ >= __CPROVER_old(self->capacity_))
__CPROVER_ensures((g_k < __CPROVER_old(self->size_) && g_k < n) ==> KEPT(self))
''' + ASGB,
      'resize(n): size n, the common prefix of the old and the new sequence is kept (new elements are uninitialised, as documented)', inl=['reserve'])
    U('clear', r'void clear\(\)', 'void PRA_clear@(struct PRA* self)',
      '__CPROVER_requires(PRA_OK(self))\n__CPROVER_ensures(self->size_ == 0 && self->capacity_ == __CPROVER_old(self->capacity_) && self->data_ == __CPROVER_old(self->data_))\n__CPROVER_assigns(self->size_)',
      'clear(): empty sequence, block kept')
    U('ctor_default', r'PODResizeableArray\(\) :', 'void PRA_ctor_default@(struct PRA* self)',
      '__CPROVER_requires(__CPROVER_is_fresh(self, sizeof(*self)))\n__CPROVER_ensures(self->data_ == (pod_t*)0 && self->capacity_ == 0 && self->size_ == 0)\n' + ASG,
      'default constructor: empty, no block', ctor_inits=['data_', 'capacity_', 'size_'])
    U('ctor_n', r'PODResizeableArray\(size_t n\) :', 'void PRA_ctor_n@(struct PRA* self, size_t n)',
      '__CPROVER_requires(__CPROVER_is_fresh(self, sizeof(*self)) && n <= MAXN)\n__CPROVER_ensures(PRA_VALID_NEW(self) && self->size_ == n)\n' + ASG,
      'PODResizeableArray(n): n (uninitialised) elements', ctor_inits=['data_', 'capacity_', 'size_'], inl=['reserve', 'resize'])
    U('ctor_range', r'PODResizeableArray\(InputIterator first, InputIterator last\)', 'void PRA_ctor_range@(struct PRA* self, const pod_t* first, const pod_t* last)',
      '''__CPROVER_requires(__CPROVER_is_fresh(self, sizeof(*self)) && g_n <= MAXN && __CPROVER_is_fresh(first, (g_n + 1) * sizeof(pod_t)) && last == first + g_n)
__CPROVER_ensures(PRA_VALID_NEW(self) && self->size_ == g_n && (g_c < g_n ==> self->data_[g_c] == first[g_c]))
''' + ASG,
      'range constructor: a copy of [first, last) in order', ctor_inits=['data_', 'capacity_', 'size_'], inl=['reserve', 'resize', 'begin'], nullplus0=True,
      extra=[rx(r'size_t to_add = last - first;', 'size_t to_add = (size_t)(last - first);', 1, 1)], post_pre='size_t g_n;   /* ghost: length of the source range */\n')
    U('begin', r'iterator begin\(\) \{', 'pod_t* PRA_begin@(struct PRA* self)',
      '__CPROVER_requires(PRA_OK(self))\n__CPROVER_ensures(__CPROVER_return_value == self->data_)\n__CPROVER_assigns()', 'begin() = start of the block', nullplus0=True)
    U('end', r'iterator end\(\) \{', 'pod_t* PRA_end@(struct PRA* self)',
      '__CPROVER_requires(PRA_OK(self))\n__CPROVER_ensures(__CPROVER_return_value == self->data_ + self->size_)\n__CPROVER_assigns()', 'end() = begin() + size()', nullplus0=True)
    for nm, expr in (('size', 'self->size_'), ('max_size', 'self->capacity_')):
        U(nm, r'size_type %s\(\) const' % nm, 'size_t PRA_%s@(const struct PRA* self)' % nm,
          '__CPROVER_requires(__CPROVER_is_fresh(self, sizeof(*self)))\n__CPROVER_ensures(__CPROVER_return_value == %s)\n__CPROVER_assigns()' % expr, '%s()' % nm)
    U('empty', r'bool empty\(\) const', 'bool PRA_empty@(const struct PRA* self)',
      '__CPROVER_requires(__CPROVER_is_fresh(self, sizeof(*self)))\n__CPROVER_ensures(__CPROVER_return_value == (self->size_ == 0))\n__CPROVER_assigns()', 'empty() <=> size() == 0')
    U('index', r'(?<!const_)reference operator\[\]\(size_type __n\)', 'pod_t* PRA_index@(struct PRA* self, size_t __n)',
      '__CPROVER_requires(PRA_OK(self) && __n < self->size_)\n__CPROVER_ensures(__CPROVER_return_value == &self->data_[__n])\n__CPROVER_assigns()',
      'operator[](n) refers to element n', extra=[rx(r'return data_\[__n\];', 'return &data_[__n];', 1, 1)])
    U('at', r'(?<!const_)reference at\(size_type __n\)', 'pod_t* PRA_at@(struct PRA* self, size_t __n)',
      '__CPROVER_requires(PRA_OK(self) && !g_thrown)\n__CPROVER_ensures(__n < self->size_ ? (!g_thrown && __CPROVER_return_value == &self->data_[__n]) : g_thrown)\n__CPROVER_assigns(g_thrown)',
      'at(n): element n, or std::out_of_range exactly when n >= size()', extra=[rx(r'return data_\[__n\];', 'return &data_[__n];', 1, 1)])
    U('front', r'(?<!const_)reference front\(\)', 'pod_t* PRA_front@(struct PRA* self)',
      '__CPROVER_requires(PRA_OK(self) && self->size_ >= 1)\n__CPROVER_ensures(__CPROVER_return_value == &self->data_[0])\n__CPROVER_assigns()', 'front() = element 0',
      extra=[rx(r'return data_\[0\];', 'return &data_[0];', 1, 1)])
    U('back', r'(?<!const_)reference back\(\)', 'pod_t* PRA_back@(struct PRA* self)',
      '__CPROVER_requires(PRA_OK(self) && self->size_ >= 1)\n__CPROVER_ensures(__CPROVER_return_value == &self->data_[self->size_ - 1])\n__CPROVER_assigns()', 'back() = last element',
      extra=[rx(r'return data_\[size_ - 1\];', 'return &data_[size_ - 1];', 1, 1)])
    U('data', r'(?<!const_)pointer data\(\)', 'pod_t* PRA_data@(struct PRA* self)',
      '__CPROVER_requires(__CPROVER_is_fresh(self, sizeof(*self)))\n__CPROVER_ensures(__CPROVER_return_value == self->data_)\n__CPROVER_assigns()', 'data()')
    # push_back: the argument is a REFERENCE; std::vector allows it to refer to an element of the vector itself
    U('push_back', r'void push_back\(const _Tp& value\)', 'void PRA_push_back@(struct PRA* self, const pod_t* value_p)',
      '''__CPROVER_requires(PRA_OK(self) && self->size_ < MAXN && __CPROVER_is_fresh(value_p, sizeof(pod_t)) && g_v == *value_p && (g_k < self->size_ ==> KEPT(self)))
__CPROVER_ensures(PRA_VALID(self) && self->size_ == __CPROVER_old(self->size_) + 1 && self->data_[self->size_ - 1] == g_v)
__CPROVER_ensures(g_k < self->size_ - 1 ==> KEPT(self))
''' + ASGB,
      'push_back(x), x outside the array: the sequence grows by exactly x at the end, everything else kept', inl=['reserve', 'resize'],
      extra=[rx(r'(?<![\w.>])value(?![\w])', '(*value_p)', 1)], post_pre='pod_t g_v;   /* ghost: the value pushed */\n')
    U('push_back_own_element', r'void push_back\(const _Tp& value\)', 'void PRA_push_back_own_element@(struct PRA* self, size_t i)',
      '''__CPROVER_requires(PRA_OK(self) && self->size_ < MAXN && i < self->size_ && g_v == self->data_[i] && (g_k < self->size_ ==> KEPT(self)))
__CPROVER_ensures(PRA_VALID(self) && self->size_ == __CPROVER_old(self->size_) + 1 && self->data_[self->size_ - 1] == g_v)
__CPROVER_ensures(g_k < self->size_ - 1 ==> KEPT(self))
''' + ASGB,
      'v.push_back(v[i]) (allowed for std::vector): the value of element i before the call is appended, even when the block moves', inl=['reserve', 'resize'],
      extra=[rx(r'(?<![\w.>])value(?![\w])', '(*value_p)', 1)], post_pre='pod_t g_v;   /* ghost: the value pushed */\n',
      ghost_prefix='const pod_t* value_p = &self->data_[i];   /* the reference argument refers to element i of this array */',
      harness_pre='g_k = i;   /* the stub realloc preserves the probe element: look at element i */',
      replay=dict(prog='pra_push_back_own', args=[], lib=False))
    U('insert', r'void insert\(iterator GALOIS_USED_ONLY_IN_DEBUG\(position\), InputIterator first,', 'void PRA_insert@(struct PRA* self, pod_t* position, const pod_t* first, const pod_t* last)',
      '''__CPROVER_requires(PRA_OK(self) && g_n <= MAXN && self->size_ <= MAXN - g_n && __CPROVER_is_fresh(first, (g_n + 1) * sizeof(pod_t)) && last == first + g_n && position == self->data_ + self->size_ && (g_k < self->size_ ==> KEPT(self)))
__CPROVER_ensures(PRA_VALID(self) && self->size_ == __CPROVER_old(self->size_) + g_n)
__CPROVER_ensures(g_c < g_n ==> self->data_[__CPROVER_old(self->size_) + g_c] == first[g_c])
__CPROVER_ensures(g_k < __CPROVER_old(self->size_) ==> KEPT(self))
''' + ASGB,
      'insert(end(), first, last): the range is appended in order, everything before it kept', inl=['reserve', 'resize', 'begin', 'end'], nullplus0=True,
      extra=[rx(r'size_t to_add\s*=\s*last - first;', 'size_t to_add = (size_t)(last - first);', 1, 1), rx(r'assert\(position == end\(\)\);', '__CPROVER_assert(position == PRA_end@(self), "code-assert: position == end()");', 1, 1)],
      post_pre='size_t g_n;   /* ghost: length of the source range */\n')
    U('assign', r'void assign\(iterator first, iterator last\)', 'void PRA_assign@(struct PRA* self, pod_t* first, pod_t* last)',
      '''__CPROVER_requires(PRA_OK(self) && g_n <= MAXN && __CPROVER_is_fresh(first, (g_n + 1) * sizeof(pod_t)) && last == first + g_n)
__CPROVER_ensures(PRA_VALID(self) && self->size_ == g_n && (g_c < g_n ==> self->data_[g_c] == first[g_c]))
''' + ASGB,
      'assign(first, last) from a range outside the array: exactly that range', inl=['reserve', 'resize'],
      extra=[rx(r'size_t n = last - first;', 'size_t n = (size_t)(last - first);', 1, 1)], post_pre='size_t g_n;   /* ghost: length of the source range */\n')
    U('swap', r'void swap\(PODResizeableArray& v\)', 'void PRA_swap@(struct PRA* self, struct PRA* v)',
      '''__CPROVER_requires(__CPROVER_is_fresh(self, sizeof(*self)) && __CPROVER_is_fresh(v, sizeof(*v)))
__CPROVER_ensures(self->data_ == __CPROVER_old(v->data_) && self->size_ == __CPROVER_old(v->size_) && self->capacity_ == __CPROVER_old(v->capacity_) && v->data_ == __CPROVER_old(self->data_) && v->size_ == __CPROVER_old(self->size_) && v->capacity_ == __CPROVER_old(self->capacity_))
__CPROVER_assigns(__CPROVER_object_whole(self), __CPROVER_object_whole(v))''',
      'swap: the two arrays exchange block, size and capacity',
      extra=[rx(r'std::swap\((\w+), v\.(\w+)\);', r'{ __typeof__(\1) t_ = \1; \1 = v->\2; v->\2 = t_; }', 3, 3)])
    U('move_ctor', r'PODResizeableArray\(PODResizeableArray&& v\)', 'void PRA_move_ctor@(struct PRA* self, struct PRA* v)',
      '''__CPROVER_requires(__CPROVER_is_fresh(self, sizeof(*self)) && __CPROVER_is_fresh(v, sizeof(*v)))
__CPROVER_ensures(self->data_ == __CPROVER_old(v->data_) && self->size_ == __CPROVER_old(v->size_) && self->capacity_ == __CPROVER_old(v->capacity_) && v->data_ == (pod_t*)0 && v->size_ == 0 && v->capacity_ == 0)
__CPROVER_assigns(__CPROVER_object_whole(self), __CPROVER_object_whole(v))''',
      'move constructor: takes the block, the source becomes the empty array', ctor_inits=['data_', 'capacity_', 'size_'],
      extra=[rx(r'v\.(data_|capacity_|size_)', r'v->\1', 6)])
    U('move_assign', r'PODResizeableArray& operator=\(PODResizeableArray&& v\)', 'struct PRA* PRA_move_assign@(struct PRA* self, struct PRA* v)',
      '''__CPROVER_requires(PRA_OK(self) && __CPROVER_is_fresh(v, sizeof(*v)))
__CPROVER_ensures(self->data_ == __CPROVER_old(v->data_) && self->size_ == __CPROVER_old(v->size_) && self->capacity_ == __CPROVER_old(v->capacity_) && v->data_ == (pod_t*)0 && v->size_ == 0 && v->capacity_ == 0 && __CPROVER_return_value == self)
__CPROVER_ensures(__CPROVER_old(self->data_) == (pod_t*)0 || __CPROVER_was_freed(__CPROVER_old(self->data_)))
__CPROVER_assigns(__CPROVER_object_whole(self), __CPROVER_object_whole(v))
''' + FREES,
      'move assignment: the old block is freed exactly once, the source\'s block is taken, the source becomes the empty array',
      extra=[rx(r'v\.(data_|capacity_|size_)', r'v->\1', 6), rx(r'return \*this;', 'return self;', 1, 1)])
    U('dtor', r'~PODResizeableArray\(\)', 'void PRA_dtor@(struct PRA* self)',
      '''__CPROVER_requires(PRA_OK(self))
__CPROVER_ensures(__CPROVER_old(self->data_) == (pod_t*)0 || __CPROVER_was_freed(__CPROVER_old(self->data_)))
__CPROVER_assigns()
''' + FREES,
      'destructor: frees the block (if any) exactly once')
