"""C14 (part) -- galois::gslist<T, 4> (gslist.h, the non-concurrent variant): a singly linked list of FixedSizeBag blocks.
LOCAL contracts as for gdeque: the head block, whether it has a successor (a separate, non-empty block), and `first`.
pop_front() leaves an emptied block at the head (it is unlinked by the NEXT pop), so the head block may be empty while the
list is not: front() and empty() have to cope with that.  The bag operations underneath are the extracted FixedSizeBag
bodies (contracts/C14.py), inlined.  Not decided: the concurrent variant, clear(), iterators."""
import re
from gv.unit import Unit
from gv.lower import (bind, ren, members, refs, call, fcall, index, stdfn, mkpair, casts, drop, dropcall, rx)

GSL = 'libgalois/include/galois/gslist.h'
W = r'class gslist_base\b'
UNITS = []
SFX = '_4'


def make(bag_prelude, BAG_UNITS):
    P = [bag_prelude, '''
#include <stdlib.h>
struct SBlock { struct Bag bag; struct SBlock* next; };     /* Block : FixedSizeBag<T, 4> (base class first) */
struct GSList { struct SBlock* first; };
bool g_nolist, g_hasnext;      /* ghost: first == NULL / the head block has a successor */
unsigned g_cnt0;               /* ghost: element count of the head block before the call */
static inline struct SBlock* gs_alloc_block(void)
{ struct SBlock* b = (struct SBlock*)malloc(sizeof(struct SBlock)); __CPROVER_assume(b != 0); b->bag.count = 0; b->bag.live[0] = 0; b->bag.live[1] = 0; b->bag.live[2] = 0; b->bag.live[3] = 0; b->next = 0; return b; }
static inline void gs_free_block(struct SBlock* b) { __CPROVER_assert(b->bag.count == 0, "free_block: no element is lost (the block is empty)"); free(b); }
/* shape: the head block may be empty (pop_front leaves it); every later block is non-empty */
#define GS_SHAPE(l) (__CPROVER_is_fresh(l, sizeof(*(l))) && (g_nolist ? (l)->first == 0 \\
   : (__CPROVER_is_fresh((l)->first, sizeof(struct SBlock)) && BAG_INV(&(l)->first->bag) && \\
      (g_hasnext ? (__CPROVER_is_fresh((l)->first->next, sizeof(struct SBlock)) && BAG_INV(&(l)->first->next->bag) && (l)->first->next->bag.count >= 1) : (l)->first->next == 0))))
#define GS_EMPTY(l) (g_nolist || ((l)->first->bag.count == 0 && !g_hasnext))
''']
    M = members(['first'], minimum=1)
    COMMON = [rx(r'std::forward<Args>\(args\)\.\.\.', 'v', 0), rx(r'std::forward<U>\(arg\)', '0', 0), rx(r'\bNULL\b', '0', 0),
              rx(r'get_first\(\)->(empty|full)\(\)', r'Bag_\1%s(&GS_get_first(self)->bag)' % SFX, 0), rx(r'get_first\(\)->next', 'GS_get_first(self)->next', 0),
              rx(r'(?<![\w.>])(first|b)->(full|empty)\(\)', r'Bag_\2%s(&\1->bag)' % SFX, 0), rx(r'(?<![\w.>])(first|b)->emplace_front\(', r'Bag_emplace_front%s(&\1->bag, ' % SFX, 0),
              rx(r'(?<![\w.>])(first|b)->(pop_front|front)\(\)', r'Bag_\2%s(&\1->bag)' % SFX, 0), rx(r'(?<![\w.>])get_first\(\)', 'GS_get_first(self)', 0),
              rx(r'(?<![\w.>])extend_first\(heap\)', 'GS_extend_first(self)', 0), rx(r'(?<![\w.>])shrink_first\((\w+), [^)]*\)', r'GS_shrink_first(self, \1)', 0),
              rx(r'(?<![\w.>])alloc_block\(heap\)', 'gs_alloc_block()', 0), rx(r'(?<![\w.>])free_block\([^,]*, (\w+)\)', r'gs_free_block(\1)', 0), rx(r'(?<![\w.>])(const )?Block\*', 'struct SBlock*', 0)]
    BI = list(BAG_UNITS)

    def U(name, anchor, proto, contract, says, inl=(), extra=(), occurrence=None, **kw):
        UNITS.append(Unit(name='GS_' + name, src=GSL, within=W, anchor=anchor, occurrence=occurrence, proto=proto, contract=contract, prelude=P, inline=BI + ['GS_' + i for i in inl],
                          lower=list(extra) + COMMON + [M], no_flags=['--conversion-check'], inst='gslist<T, 4> (non-concurrent), T = opaque 64-bit token', says=says, **kw))

    U('get_first', r'(?<!const )Block\* get_first\(\)', 'struct SBlock* GS_get_first(struct GSList* self)',
      '__CPROVER_requires(__CPROVER_is_fresh(self, sizeof(*self)))\n__CPROVER_ensures(__CPROVER_return_value == self->first)\n__CPROVER_assigns()', 'get_first()')
    U('empty', r'bool empty\(\) const', 'bool GS_empty(struct GSList* self)',
      '__CPROVER_requires(GS_SHAPE(self))\n__CPROVER_ensures(__CPROVER_return_value == GS_EMPTY(self))\n__CPROVER_assigns()',
      'empty() <=> there is no block, or only one block and it is empty (an emptied head block in front of other blocks does not make the list empty)', inl=['get_first'])
    U('front', r'(?<!const )value_type& front\(\)', 'gv_elem* GS_front(struct GSList* self)',
      '''__CPROVER_requires(GS_SHAPE(self) && !GS_EMPTY(self))
/* the first element of the list: the top of the first NON-EMPTY block */
__CPROVER_ensures(__CPROVER_return_value == (self->first->bag.count >= 1 ? &self->first->bag.datac[self->first->bag.count - 1] : &self->first->next->bag.datac[self->first->next->bag.count - 1]))
__CPROVER_assigns()''',
      'front() of a non-empty list is the most recently pushed element still in the list -- also right after a pop_front() that emptied the head block', inl=['get_first'],
      extra=[rx(r'return b->front\(\);', 'return Bag_front%s(&b->bag);' % SFX, 0), rx(r'return get_first\(\)->front\(\);', 'return Bag_front%s(&GS_get_first(self)->bag);' % SFX, 0)],
      fallback_unwind=4, replay=dict(prog='gslist_front', args=[], lib=True))
    U('extend_first', r'auto extend_first\(HeapTy& heap\) -> typename std::enable_if<!C>::type', 'void GS_extend_first(struct GSList* self)',
      '__CPROVER_requires(GS_SHAPE(self))\n__CPROVER_ensures(__CPROVER_is_fresh(self->first, sizeof(struct SBlock)) && self->first->bag.count == 0 && self->first->next == __CPROVER_old(self->first))\n__CPROVER_assigns(self->first)',
      'extend_first: a fresh empty block becomes the head, the old head is its successor')
    U('shrink_first', r'auto shrink_first\(Block\* old_first, U&& arg\) ->\s*typename std::enable_if<!C>::type', 'void GS_shrink_first(struct GSList* self, struct SBlock* old_first)',
      '''__CPROVER_requires(__CPROVER_is_fresh(self, sizeof(*self)) && __CPROVER_is_fresh(old_first, sizeof(struct SBlock)) && BAG_INV(&old_first->bag) && old_first->bag.count == 0 && self->first == old_first)
__CPROVER_ensures(self->first == __CPROVER_old(old_first->next) && __CPROVER_was_freed(old_first))
__CPROVER_assigns(self->first)
__CPROVER_frees(old_first)''',
      'shrink_first(head): the (empty) head block is unlinked and freed exactly once')
    U('emplace_front', r'auto emplace_front\(HeapTy& heap, Args&&\.\.\. args\) ->', 'void GS_emplace_front(struct GSList* self, gv_elem v)',
      '''__CPROVER_requires(GS_SHAPE(self) && gj < ChunkSize)
/* v is the top of the head block afterwards; room in the old head: same block, everything below in place; otherwise a fresh head block in front of the untouched old one */
__CPROVER_ensures(self->first != 0 && self->first->bag.count >= 1 && self->first->bag.datac[self->first->bag.count - 1] == v)
__CPROVER_ensures((!g_nolist && __CPROVER_old(self->first->bag.count) < ChunkSize) ==> (self->first == __CPROVER_old(self->first) && self->first->bag.count == __CPROVER_old(self->first->bag.count) + 1 && self->first->next == __CPROVER_old(self->first->next) && (gj < __CPROVER_old(self->first->bag.count) ==> self->first->bag.datac[gj] == __CPROVER_old(self->first->bag.datac[gj]))))
__CPROVER_ensures((g_nolist || __CPROVER_old(self->first->bag.count) == ChunkSize) ==> (self->first->bag.count == 1 && self->first->next == __CPROVER_old(self->first) && (!g_nolist ==> (__CPROVER_old(self->first)->bag.count == ChunkSize && __CPROVER_old(self->first)->bag.datac[gj] == __CPROVER_old(self->first->bag.datac[gj])))))
__CPROVER_assigns(self->first; self->first != 0: __CPROVER_object_whole(self->first))''',
      'emplace_front/push_front: v becomes the first element -- in the head block if it has room, otherwise in a fresh head block', inl=['extend_first'])
    U('pop_front', r'bool _pop_front\(U&& arg\)', 'bool GS_pop_front(struct GSList* self)',
      '''__CPROVER_requires(GS_SHAPE(self) && gj < ChunkSize && (!g_nolist ==> g_cnt0 == self->first->bag.count))
/* false exactly for an empty list (an emptied single head block is freed on the way); otherwise the top of the first non-empty block is removed */
__CPROVER_ensures(__CPROVER_return_value == !(g_nolist || (g_cnt0 == 0 && !g_hasnext)))
__CPROVER_ensures((!g_nolist && g_cnt0 >= 1) ==> (self->first == __CPROVER_old(self->first) && self->first->bag.count == __CPROVER_old(self->first->bag.count) - 1 && (gj < self->first->bag.count ==> self->first->bag.datac[gj] == __CPROVER_old(self->first->bag.datac[gj]))))
__CPROVER_ensures((!g_nolist && g_cnt0 == 0) ==> (__CPROVER_was_freed(__CPROVER_old(self->first)) && self->first == __CPROVER_old(self->first->next) && (g_hasnext ==> (self->first->bag.count == __CPROVER_old(self->first->next->bag.count) - 1 && (gj < self->first->bag.count ==> self->first->bag.datac[gj] == __CPROVER_old(self->first->next->bag.datac[gj]))))))
__CPROVER_assigns(self->first; !g_nolist: __CPROVER_object_whole(self->first); (!g_nolist && g_hasnext): __CPROVER_object_whole(self->first->next))
__CPROVER_frees(self->first)''',
      'pop_front: removes exactly the first element of the list (the top of the first non-empty block); an empty head block met on the way is unlinked and freed once; false iff the list was empty',
      inl=['get_first', 'shrink_first'], fallback_unwind=4)
    return UNITS
