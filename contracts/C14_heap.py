"""C14 (part) -- galois::MinHeap (PriorityQueue.h), a wrapper around the std:: heap algorithms.
What is under contract is the TYPESTATE of the wrapped container: for which comparator the range [begin, end - tail) is a heap.
The std:: algorithms are stubs carrying the standard's preconditions and effects (trusted = the C++ standard): push_heap /
pop_heap require a heap FOR THE COMPARATOR THEY ARE GIVEN; make_heap establishes one for its comparator.  MinHeap's invariant:
the whole container is a heap for revCmp (so front() is the minimum for cmp), no unheaped tail."""
import re
from gv.unit import Unit
from gv.lower import (bind, ren, members, refs, call, fcall, index, stdfn, mkpair, casts, drop, dropcall, rx)

PQ = 'libgalois/include/galois/PriorityQueue.h'
W = r'class MinHeap\b'
UNITS = []
P = ['''
enum { H_LESS = 1, H_REV = 2 };     /* std::less<T> (what the two-argument std algorithms use) / MinHeap::revCmp */
struct MinHeapS { size_t size; size_t tail; unsigned heap_for; };      /* the wrapped std::vector, abstractly: length, elements at the end outside the heap (0/1), comparator of the heap part */
#define revCmp H_REV
bool g_top_is_min;      /* ghost: the value handed out was the minimum w.r.t. cmp */
/* a range of <= 1 element is a heap for every comparator */
#define IS_HEAP_FOR(c, k) ((c)->size - (c)->tail <= 1 || (c)->heap_for == (k))
#define MH_OK(c) ((c)->tail == 0 && IS_HEAP_FOR(c, H_REV) && (c)->size <= ((size_t)1 << 40))
static inline void std_make_heap(struct MinHeapS* c, unsigned cmp) { c->tail = 0; c->heap_for = cmp; }
static inline void std_push_heap(struct MinHeapS* c, unsigned cmp)
{ __CPROVER_assert(c->size >= 1 && c->tail == 1, "std::push_heap: the last element is the one being pushed"); __CPROVER_assert(IS_HEAP_FOR(c, cmp), "std::push_heap precondition: [first, last-1) is a heap for THIS comparator"); c->tail = 0; c->heap_for = cmp; }
static inline void std_pop_heap(struct MinHeapS* c, unsigned cmp)
{ __CPROVER_assert(c->size >= 1 && c->tail == 0, "std::pop_heap: non-empty heap"); __CPROVER_assert(IS_HEAP_FOR(c, cmp), "std::pop_heap precondition: [first, last) is a heap for THIS comparator"); c->tail = 1; g_top_is_min = (cmp == H_REV); }
static inline void cont_push_back(struct MinHeapS* c) { __CPROVER_assert(c->tail == 0, "push_back onto a complete heap"); c->size++; c->tail = 1; }
static inline void cont_pop_back(struct MinHeapS* c) { __CPROVER_assert(c->size >= 1, "pop_back: non-empty"); c->size--; if (c->tail) c->tail = 0; }
static inline bool cont_empty(const struct MinHeapS* c) { return c->size == 0; }
static inline int cont_back(const struct MinHeapS* c) { __CPROVER_assert(c->size >= 1, "back(): non-empty"); return 0; }
static inline int cont_front(const struct MinHeapS* c) { __CPROVER_assert(c->size >= 1, "front(): non-empty"); g_top_is_min = (c->tail == 0 && IS_HEAP_FOR(c, H_REV)); return 0; }
''']
COMMON = [rx(r'std::make_heap\(container\.begin\(\), container\.end\(\)\)', 'std_make_heap(self, H_LESS)', 0), rx(r'std::make_heap\(container\.begin\(\), container\.end\(\), (\w+)\)', r'std_make_heap(self, \1)', 0),
          rx(r'std::push_heap\(container\.begin\(\), container\.end\(\)\)', 'std_push_heap(self, H_LESS)', 0), rx(r'std::push_heap\(container\.begin\(\), container\.end\(\), (\w+)\)', r'std_push_heap(self, \1)', 0),
          rx(r'std::pop_heap\(container\.begin\(\), container\.end\(\)\)', 'std_pop_heap(self, H_LESS)', 0), rx(r'std::pop_heap\(container\.begin\(\), container\.end\(\), (\w+)\)', r'std_pop_heap(self, \1)', 0),
          rx(r'container\.push_back\(x\)', 'cont_push_back(self)', 0), rx(r'container\.pop_back\(\)', 'cont_pop_back(self)', 0), rx(r'container\.empty\(\)', 'cont_empty(self)', 0),
          rx(r'container\.back\(\)', 'cont_back(self)', 0), rx(r'container\.front\(\)', 'cont_front(self)', 0), rx(r'value_type x = ', 'int x = ', 0),
          rx(r'assert\(!cont_empty\(self\)\);', '__CPROVER_assert(!cont_empty(self), "code-assert: !container.empty()");', 0)]


def U(name, anchor, proto, contract, says, ctor_inits=None, extra=(), **kw):
    UNITS.append(Unit(name='MinHeap_' + name, src=PQ, within=W, anchor=anchor, proto=proto, contract=contract, prelude=P, lower=list(extra) + COMMON, ctor_inits=ctor_inits,
                      no_flags=['--conversion-check'], inst='T = int, Cmp = std::less<int>, Cont = std::vector (abstract)', says=says, **kw))


U('ctor_range', r'MinHeap\(Iter b, Iter e, const Cmp& cmp = Cmp\(\)\)', 'void MinHeap_ctor_range(struct MinHeapS* self, size_t n)',
  '__CPROVER_requires(__CPROVER_is_fresh(self, sizeof(*self)) && n <= ((size_t)1 << 40))\n__CPROVER_ensures(MH_OK(self) && self->size == n)\n__CPROVER_assigns(__CPROVER_object_whole(self))',
  'MinHeap(begin, end): the container is a heap for revCmp afterwards (the class invariant), for every length',
  ghost_prefix='self->size = n; self->tail = 0; self->heap_for = 0;   /* container(b, e): n elements in arbitrary order */',
  extra=[rx(r'\A', '', 0)], replay=dict(prog='minheap_range_ctor', args=[], lib=True))
U('push', r'void push\(const value_type& x\)', 'void MinHeap_push(struct MinHeapS* self)',
  '__CPROVER_requires(__CPROVER_is_fresh(self, sizeof(*self)) && MH_OK(self) && self->size < ((size_t)1 << 40))\n__CPROVER_ensures(MH_OK(self) && self->size == __CPROVER_old(self->size) + 1)\n__CPROVER_assigns(__CPROVER_object_whole(self))',
  'push(x): one more element, still a heap for revCmp; std::push_heap is given the comparator the heap was built for')
U('pop', r'value_type pop\(\)', 'int MinHeap_pop(struct MinHeapS* self)',
  '__CPROVER_requires(__CPROVER_is_fresh(self, sizeof(*self)) && MH_OK(self) && self->size >= 1)\n__CPROVER_ensures(MH_OK(self) && self->size == __CPROVER_old(self->size) - 1 && g_top_is_min)\n__CPROVER_assigns(__CPROVER_object_whole(self), g_top_is_min)',
  'pop(): hands out the minimum (std::pop_heap for revCmp on a revCmp heap), one element fewer, still a heap')
U('pop_internal', r'value_type pop_internal\(\)', 'int MinHeap_pop_internal(struct MinHeapS* self)',
  '__CPROVER_requires(__CPROVER_is_fresh(self, sizeof(*self)) && MH_OK(self) && self->size >= 1)\n__CPROVER_ensures(MH_OK(self) && self->size == __CPROVER_old(self->size) - 1 && g_top_is_min)\n__CPROVER_assigns(__CPROVER_object_whole(self), g_top_is_min)',
  'pop_internal(): as pop()')
U('top', r'const_reference top\(\) const \{ return container\.front\(\); \}', 'int MinHeap_top(struct MinHeapS* self)',
  '__CPROVER_requires(__CPROVER_is_fresh(self, sizeof(*self)) && MH_OK(self) && self->size >= 1)\n__CPROVER_ensures(g_top_is_min)\n__CPROVER_assigns(g_top_is_min)',
  'top(): the front of a revCmp heap = the minimum')

U('remove', r'bool remove\(const value_type& x\)', 'bool MinHeap_remove(struct MinHeapS* self, bool x_is_top, size_t nfound)',
  '__CPROVER_requires(__CPROVER_is_fresh(self, sizeof(*self)) && MH_OK(self) && self->size >= 1 && nfound <= self->size)\n__CPROVER_ensures(MH_OK(self) && (x_is_top ? (self->size == __CPROVER_old(self->size) - 1 && __CPROVER_return_value) : (self->size == __CPROVER_old(self->size) - nfound && __CPROVER_return_value == (nfound > 0))))\n__CPROVER_assigns(__CPROVER_object_whole(self), g_top_is_min)',
  'remove(x) on a NON-EMPTY heap: the top is popped, or every occurrence is erased and the heap re-established with revCmp; the result says whether something was removed.  (On an empty heap remove() evaluates top() = front() of an empty vector: outside this contract.)',
  extra=[rx(r'x == top\(\)', '(cont_front(self), x_is_top)', 1, 1), rx(r'(?<![\w.>])pop\(\);', 'MinHeap_pop_inl(self);', 1, 1),
         rx(r'typename container_type::iterator nend =\s*std::remove\(container\.begin\(\), container\.end\(\), x\);', 'size_t nend = self->size - nfound;   /* std::remove: the kept elements come first */', 1, 1),
         rx(r'ret = \(nend != container\.end\(\)\);', 'ret = (nend != self->size);', 1, 1), rx(r'container\.erase\(nend, container\.end\(\)\);', '{ self->size = nend; self->tail = 0; self->heap_for = 0; }   /* erase(nend, end()): order of the rest is arbitrary */', 1, 1)],
  post_pre='static inline int MinHeap_pop_inl(struct MinHeapS* self) { __CPROVER_assert(!cont_empty(self), "code-assert: !container.empty()"); std_pop_heap(self, revCmp); int x = cont_back(self); cont_pop_back(self); return x; }   /* = the lowered body of pop(), proved as MinHeap_pop */\n')

# ---- thread-safe wrappers: every operation takes the lock once, delegates under it, and releases it on every path --------------------------
TP = ["""
bool g_held; unsigned g_acquires, g_releases, g_inner;      /* ghost: lock state and counters */
unsigned long g_v0, g_last;      /* ghost: what the first / the latest delegated call answered */
unsigned long nondet_ulong(void);
static inline void lk_lock(void) { __CPROVER_assert(!g_held, "lock(): not already held by this thread (SimpleLock is not recursive)"); g_held = 1; g_acquires++; }
static inline void lk_unlock(void) { __CPROVER_assert(g_held, "unlock(): held"); g_held = 0; g_releases++; }
static inline unsigned long inner(void) { __CPROVER_assert(g_held, "the wrapped container is only touched under the lock"); unsigned long v = nondet_ulong(); if (g_inner == 0) g_v0 = v; g_last = v; g_inner++; return v; }
#define TS_PRE (!g_held && g_acquires == 0 && g_releases == 0 && g_inner == 0)
#define TS_POST (!g_held && g_acquires == 1 && g_releases == 1 && g_inner >= 1)
"""]
TS_LOWER = [rx(r'mutex\.lock\(\)', 'lk_lock()', 1, 1), rx(r'mutex\.unlock\(\)', 'lk_unlock()', 1), rx(r'\*orderedSet\.begin\(\)', 'inner()', 0), rx(r'(heap|orderedSet)\.\w+\((?:[^()]|\([^()]*\))*\)', 'inner()', 0),
            rx(r'(size_type|value_type|auto|bool) (\w+)\s*=', r'unsigned long \2 =', 0), rx(r'return p\.second;', 'return p != 0;', 0), rx(r'x == inner\(\)', '(inner() == 0)', 0)]
# what each wrapper hands back, in terms of what the wrapped container answered under the lock
TS_RESULT = {('ThreadSafeOrderedSet', 'find'): 'g_inner == 2 && __CPROVER_return_value == (unsigned long)(g_v0 != g_last)',   # set.find(x) != set.end()
             ('ThreadSafeOrderedSet', 'pop'): '__CPROVER_return_value == g_v0 && g_inner == 2', ('ThreadSafeOrderedSet', 'push'): '__CPROVER_return_value == (g_v0 != 0) && g_inner == 1',
             ('ThreadSafeOrderedSet', 'remove'): 'g_inner == 2 && __CPROVER_return_value == (g_v0 == 0 ? 1ul : (unsigned long)(g_last > 0))',
             ('ThreadSafeMinHeap', 'push'): 'g_inner == 1', ('ThreadSafeMinHeap', 'clear'): 'g_inner == 1', ('ThreadSafeOrderedSet', 'clear'): 'g_inner == 1'}
for cls, ops in (('ThreadSafeMinHeap', ['empty', 'size', 'top', 'push', 'pop', 'remove', 'find', 'clear']), ('ThreadSafeOrderedSet', ['empty', 'size', 'top', 'find', 'push', 'pop', 'remove', 'clear'])):
    for op in ops:
        anchor = {'empty': r'bool empty\(\) const', 'size': r'size_type size\(\) const', 'top': r'value_type top\(\) const', 'push': r'(void|bool) push\(const value_type& x\)', 'pop': r'value_type pop\(\)',
                  'remove': r'bool remove\(const value_type& x\)', 'find': r'bool find\(const value_type& x\) const', 'clear': r'void clear\(\)'}[op]
        UNITS.append(Unit(name='%s_%s' % (cls, op), src=PQ, within=r'class %s\b' % cls, anchor=anchor, proto='unsigned long %s_%s(unsigned long x)' % (cls, op),
                          contract='__CPROVER_requires(TS_PRE)\n__CPROVER_ensures(TS_POST)\n__CPROVER_ensures(%s)\n__CPROVER_assigns(g_held, g_acquires, g_releases, g_inner, g_v0, g_last)' % TS_RESULT.get((cls, op), '__CPROVER_return_value == g_v0 && g_inner == 1'), prelude=TP, lower=TS_LOWER,
                          no_flags=['--conversion-check'], says='%s::%s: takes the lock exactly once, touches the wrapped container only while holding it, and has released it on return (every path); the result is exactly what the wrapped container answered under the lock (one delegated call; OrderedSet pop/remove: two)' % (cls, op)))
