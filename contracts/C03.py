"""C03 -- do_all runs each element exactly once: the work-stealing executor's
per-thread range (Executor_DoAll.h, DoAllStealingExec::ThreadContext).

Every critical section on a ThreadContext is verified as a sequential
function against the LOCK INVARIANT
    0 <= m_size  and  shared_end - shared_beg == m_size
with a CONSERVATION postcondition over the WHOLE range: the piece handed to the
caller and the piece left behind partition the old shared range.  Exactly-once
then follows: an index leaves a shared range only inside a piece handed to
exactly one thread (getWork -> executed by doWork exactly once; stealWork ->
assignWork puts exactly that piece into the thief's range).  Soundness for all
interleavings rests on mutual exclusion of work_mutex (C06: SimpleLock) and on
the lock-discipline obligations below (every access to the three fields happens
with the lock held -- the stub asserts it)."""
from gv.unit import Unit
from gv.lower import (bind, ren, members, refs, call, fcall, index, stdfn, mkpair, casts, drop, dropcall, rx)

DOALL = 'libgalois/include/galois/runtime/Executor_DoAll.h'
UNITS = []

TCP = '''
typedef int64_t Iter;      /* random-access counting iterator (what galois::iterate(a,b) over integers gives) */
typedef int64_t Diff_ty;
struct ThreadContext { unsigned id; Iter shared_beg, shared_end; Diff_ty m_size; size_t num_iter; };
bool g_lock;               /* ThreadContext::work_mutex held by this thread */
bool nondet_bool(void);
static inline void wm_lock(void) { __CPROVER_assert(!g_lock, "lock(): not already held by this thread"); g_lock = 1; }
static inline bool wm_try_lock(void) { __CPROVER_assert(!g_lock, "try_lock(): not already held"); if (nondet_bool()) { g_lock = 1; return 1; } return 0; }
static inline void wm_unlock(void) { __CPROVER_assert(g_lock, "unlock(): by the holder"); g_lock = 0; }
#define gv_advance(it, n) ((it) += (n))
#define gv_distance(a, b) ((b) - (a))
#define NEED_STATS 1
/* lock invariant of the per-thread shared range */
#define BND(x) (0 <= (x) && (x) <= ((Iter)1 << 60))
#define TC_INV(t) (BND((t)->shared_beg) && BND((t)->shared_end) && (t)->m_size >= 0 && (t)->shared_end - (t)->shared_beg == (t)->m_size)
#define TC_OK(t) (__CPROVER_is_fresh(t, sizeof(*(t))) && TC_INV(t))
/* lock discipline: the protected fields are only touched while the lock is held */
#define PROT(t) (*({ __CPROVER_assert(g_lock, "protected field accessed with work_mutex held"); (t); }))
'''
ENUM = [dict(src=DOALL, anchor=r'enum StealAmt \{ HALF, FULL \};', lower=[])]
F = ['shared_beg', 'shared_end', 'm_size', 'num_iter', 'id']
TC_LOWER = [members(F, minimum=1), bind('Diff_ty', 'Diff_ty', 0),
            rx(r'work_mutex\.lock\(\)', 'wm_lock()', 0), rx(r'work_mutex\.try_lock\(\)', 'wm_try_lock()', 0), rx(r'work_mutex\.unlock\(\)', 'wm_unlock()', 0),
            stdfn('std::advance', 'gv_advance', 0), stdfn('std::distance', 'gv_distance', 0),
            rx(r'(?<![\w.>])hasWorkWeak\(\)', 'TC_hasWorkWeak(self)', 0)]
WITHIN = r'struct ThreadContext\b'


def T(name, anchor, proto, contract, says, uses=(), extra=(), loops=None, ghost_prefix='', no_flags=()):
    UNITS.append(Unit(name=name, src=DOALL, within=WITHIN, anchor=anchor, proto=proto, contract=contract, prelude=[TCP], pre_extract=ENUM,
                      uses=list(uses), lower=TC_LOWER + list(extra), loops=loops or {}, ghost_prefix=ghost_prefix, no_flags=list(no_flags),
                      inst='Iter = random-access integer iterator (int64 index), Diff_ty = int64', says=says))


T('TC_hasWorkWeak', r'bool hasWorkWeak\(\) const', 'bool TC_hasWorkWeak(const struct ThreadContext* self)',
  '__CPROVER_requires(__CPROVER_is_fresh(self, sizeof(*self)))\n__CPROVER_ensures(__CPROVER_return_value == (self->m_size > 0))\n__CPROVER_assigns()',
  'hasWorkWeak() <=> m_size > 0')
T('TC_hasWork', r'bool hasWork\(\) const', 'bool TC_hasWork(const struct ThreadContext* self)',
  '__CPROVER_requires(TC_OK(self) && !g_lock)\n__CPROVER_ensures(__CPROVER_return_value == (self->m_size > 0) && !g_lock)\n__CPROVER_assigns(g_lock)',
  'hasWork(): under the lock, true iff the shared range is non-empty (the code\'s assertion shared_beg != shared_end holds by the invariant)', uses=['TC_hasWorkWeak'])
T('TC_getWork', r'bool getWork\(Iter& priv_beg, Iter& priv_end, const unsigned chunk_size\)', 'bool TC_getWork(struct ThreadContext* self, Iter* priv_beg, Iter* priv_end, unsigned chunk_size)',
  '''__CPROVER_requires(TC_OK(self) && !g_lock && __CPROVER_is_fresh(priv_beg, sizeof(Iter)) && __CPROVER_is_fresh(priv_end, sizeof(Iter)) && chunk_size >= 1)
__CPROVER_ensures(TC_INV(self) && !g_lock && __CPROVER_return_value == (__CPROVER_old(self->m_size) > 0) && self->shared_end == __CPROVER_old(self->shared_end))
__CPROVER_ensures(__CPROVER_return_value ==> (BND(*priv_beg) && BND(*priv_end) && *priv_beg == __CPROVER_old(self->shared_beg) && *priv_end == self->shared_beg && *priv_end - *priv_beg >= 1 && *priv_end - *priv_beg <= (Diff_ty)chunk_size && *priv_end - *priv_beg == (__CPROVER_old(self->m_size) <= (Diff_ty)chunk_size ? __CPROVER_old(self->m_size) : (Diff_ty)chunk_size)))
__CPROVER_ensures(!__CPROVER_return_value ==> (self->shared_beg == __CPROVER_old(self->shared_beg) && self->m_size == __CPROVER_old(self->m_size) && *priv_beg == __CPROVER_old(*priv_beg) && *priv_end == __CPROVER_old(*priv_end)))
__CPROVER_assigns(self->shared_beg, self->m_size, *priv_beg, *priv_end, g_lock)''',
  'getWork (critical section): succeeds iff the shared range is non-empty; the private chunk [priv_beg,priv_end) = the first min(chunk_size, m_size) elements and the remaining shared range partition the old shared range; on failure nothing changes; invariant kept, lock released',
  uses=['TC_hasWorkWeak'], extra=[refs(['priv_beg', 'priv_end'], 2)])
T('TC_steal_from_beg', r'void steal_from_beg\(Iter& steal_beg, Iter& steal_end, const Diff_ty sz\)', 'void TC_steal_from_beg(struct ThreadContext* self, Iter* steal_beg, Iter* steal_end, Diff_ty sz)',
  '''__CPROVER_requires(__CPROVER_is_fresh(self, sizeof(*self)) && __CPROVER_is_fresh(steal_beg, sizeof(Iter)) && __CPROVER_is_fresh(steal_end, sizeof(Iter)) && sz > 0 && sz <= ((Iter)1 << 60) && BND(self->shared_beg) && self->shared_beg + sz <= ((Iter)1 << 60))
__CPROVER_ensures(*steal_beg == __CPROVER_old(self->shared_beg) && *steal_end == self->shared_beg && self->shared_beg == __CPROVER_old(self->shared_beg) + sz)
__CPROVER_assigns(self->shared_beg, *steal_beg, *steal_end)''',
  'steal_from_beg: the stolen piece is the first sz elements, the shared range starts right after it', extra=[refs(['steal_beg', 'steal_end'], 2)])
T('TC_stealWork', r'bool stealWork\(Iter& steal_beg, Iter& steal_end, Diff_ty& steal_size,', 'bool TC_stealWork(struct ThreadContext* self, Iter* steal_beg, Iter* steal_end, Diff_ty* steal_size, enum StealAmt amount, size_t chunk_size)',
  '''__CPROVER_requires(TC_OK(self) && !g_lock && __CPROVER_is_fresh(steal_beg, sizeof(Iter)) && __CPROVER_is_fresh(steal_end, sizeof(Iter)) && __CPROVER_is_fresh(steal_size, sizeof(Diff_ty)) && chunk_size >= 1 && chunk_size <= ((size_t)1 << 32))
__CPROVER_ensures(TC_INV(self) && !g_lock && self->shared_end == __CPROVER_old(self->shared_end))
__CPROVER_ensures(__CPROVER_return_value ==> (BND(*steal_beg) && BND(*steal_end) && __CPROVER_old(self->m_size) > 0 && *steal_beg == __CPROVER_old(self->shared_beg) && *steal_end == self->shared_beg && *steal_size == *steal_end - *steal_beg && *steal_size >= 1 && self->m_size == __CPROVER_old(self->m_size) - *steal_size))
__CPROVER_ensures((__CPROVER_return_value && amount == HALF && __CPROVER_old(self->m_size) > (Diff_ty)chunk_size) ==> *steal_size == __CPROVER_old(self->m_size) / 2)
__CPROVER_ensures((__CPROVER_return_value && !(amount == HALF && __CPROVER_old(self->m_size) > (Diff_ty)chunk_size)) ==> (*steal_size == __CPROVER_old(self->m_size) && self->m_size == 0))
__CPROVER_ensures(!__CPROVER_return_value ==> (self->shared_beg == __CPROVER_old(self->shared_beg) && self->m_size == __CPROVER_old(self->m_size)))
__CPROVER_assigns(self->shared_beg, self->m_size, *steal_beg, *steal_end, *steal_size, g_lock)''',
  'stealWork (critical section, try_lock may fail): on success the stolen piece [steal_beg,steal_end) and the remaining shared range partition the victim\'s old range, steal_size is its length (half when asked for HALF and more than a chunk is left, else all); on failure no field is written; invariant kept, lock released',
  uses=['TC_hasWorkWeak', 'TC_steal_from_beg'], extra=[refs(['steal_beg', 'steal_end', 'steal_size'], 3), rx(r'(?<![\w.>])steal_from_beg\(\(\*steal_beg\), \(\*steal_end\), \(\*steal_size\)\)', 'TC_steal_from_beg(self, steal_beg, steal_end, *steal_size)', 1, 1)],
  no_flags=['--conversion-check'])
T('TC_assignWork', r'void assignWork\(const Iter& beg, const Iter& end, const Diff_ty sz\)', 'void TC_assignWork(struct ThreadContext* self, Iter beg, Iter end, Diff_ty sz)',
  '''__CPROVER_requires(TC_OK(self) && !g_lock && self->m_size == 0 && BND(beg) && BND(end) && beg < end && end - beg == sz)
__CPROVER_ensures(TC_INV(self) && !g_lock && self->shared_beg == beg && self->shared_end == end && self->m_size == sz)
__CPROVER_assigns(self->shared_beg, self->shared_end, self->m_size, g_lock)''',
  'assignWork (critical section): the thief\'s empty shared range becomes exactly the stolen piece (the code\'s three assertions hold under the call-site precondition)', uses=['TC_hasWorkWeak'])

# doWork: each element of each chunk obtained from getWork is executed exactly once
DOW = TCP + '''
Iter g_x;                 /* ghost probe element */
unsigned g_exec;          /* how often func ran on the probe element */
unsigned g_got;           /* how often the probe element was inside a chunk returned by getWork */
bool g_anychunk;          /* ghost: getWork handed out at least one chunk during this call */
static inline void func_stub(Iter v) { if (v == g_x) g_exec = g_exec + 1; }
bool getWork_abs(struct ThreadContext* self, Iter* priv_beg, Iter* priv_end, unsigned chunk_size)
__CPROVER_requires(__CPROVER_is_fresh(priv_beg, sizeof(Iter)) && __CPROVER_is_fresh(priv_end, sizeof(Iter)))
__CPROVER_ensures(__CPROVER_return_value ==> (0 <= *priv_beg && *priv_beg < *priv_end && *priv_end <= ((Iter)1 << 60)))
__CPROVER_ensures(g_got == __CPROVER_old(g_got) + ((__CPROVER_return_value && *priv_beg <= g_x && g_x < *priv_end) ? 1u : 0u))
__CPROVER_ensures((g_anychunk != 0) == (__CPROVER_old(g_anychunk) != 0 || __CPROVER_return_value != 0))
__CPROVER_assigns(*priv_beg, *priv_end, g_got, g_anychunk, __CPROVER_object_whole(self));
'''
UNITS.append(Unit(name='getWork_abs', kind='assumed', proto='bool getWork_abs(struct ThreadContext* self, Iter* priv_beg, Iter* priv_end, unsigned chunk_size)', contract='', prelude=[],
                  says='thread-modular view of getWork for doWork: returns some non-empty chunk or fails (the proved contract TC_getWork says which; other threads may have stolen in between); a ghost counts how often the probe element was handed out'))
UNITS[-1].decl = lambda: ''
UNITS.append(Unit(
    name='TC_doWork', src=DOALL, within=WITHIN, anchor=r'bool doWork\(F func, const unsigned chunk_size\)', proto='bool TC_doWork(struct ThreadContext* self, unsigned chunk_size)',
    contract='''__CPROVER_requires(__CPROVER_is_fresh(self, sizeof(*self)) && g_exec <= 1000 && g_got <= 1000 && g_anychunk == 0)
__CPROVER_ensures(g_exec - __CPROVER_old(g_exec) == g_got - __CPROVER_old(g_got))
/* the result tells the caller (and through it the termination detector) whether this call did any work */
__CPROVER_ensures((__CPROVER_return_value != 0) == (g_anychunk != 0))
__CPROVER_assigns(__CPROVER_object_whole(self), g_exec, g_got, g_anychunk)''',
    prelude=[DOW], uses=['getWork_abs'],
    lower=[members(F, minimum=1), rx(r'Iter beg\(self->shared_beg\);', 'Iter beg = self->shared_beg;', 1, 1), rx(r'Iter end\(self->shared_end\);', 'Iter end = self->shared_end;', 1, 1),
           rx(r'(?<![\w.>])getWork\(beg, end, chunk_size\)', 'getWork_abs(self, &beg, &end, chunk_size)', 1, 1), rx(r'func\(\*beg\)', 'func_stub(beg)', 1, 1)],
    ghost_prefix='const unsigned e0 = g_exec, t0 = g_got;',
    loops={1: '''
__CPROVER_assigns(beg, end, didwork, g_exec, g_got, g_anychunk, __CPROVER_object_whole(self))
__CPROVER_loop_invariant(g_exec - e0 == g_got - t0 && (didwork != 0) == (g_anychunk != 0))
''', 2: '''
__CPROVER_assigns(beg, g_exec, self->num_iter)
__CPROVER_loop_invariant(__CPROVER_loop_entry(beg) <= beg && beg <= end && BND(beg) && BND(end) && g_exec == __CPROVER_loop_entry(g_exec) + ((__CPROVER_loop_entry(beg) <= g_x && g_x < beg) ? 1u : 0u))
__CPROVER_decreases(end - beg)
'''},
    inst='F = any function (stub counting executions on the probe element)',
    says='doWork applies func exactly once to every element of every chunk it obtains from getWork (ghost probe element: executions == times handed out), whatever other threads steal in between'))

# transferWork: the stolen piece is handed to the thief unchanged
UNITS.append(Unit(
    name='transferWork', src=DOALL, anchor=r'transferWork\(ThreadContext& rich, ThreadContext& poor, StealAmt amount\)',
    proto='bool transferWork(struct ThreadContext* rich, struct ThreadContext* poor, enum StealAmt amount)',
    contract='''__CPROVER_requires(TC_OK(rich) && TC_OK(poor) && !g_lock && poor->m_size == 0 && rich->id != poor->id && rich->id < g_active && poor->id < g_active && g_chunk >= 1 && g_chunk <= ((size_t)1 << 32))
__CPROVER_ensures(TC_INV(rich) && TC_INV(poor) && !g_lock && rich->shared_end == __CPROVER_old(rich->shared_end))
__CPROVER_ensures(__CPROVER_return_value ==> (poor->shared_beg == __CPROVER_old(rich->shared_beg) && poor->shared_end == rich->shared_beg && poor->m_size >= 1 && rich->m_size == __CPROVER_old(rich->m_size) - poor->m_size))
__CPROVER_ensures(!__CPROVER_return_value ==> (rich->shared_beg == __CPROVER_old(rich->shared_beg) && rich->m_size == __CPROVER_old(rich->m_size) && poor->m_size == 0))
__CPROVER_assigns(rich->shared_beg, rich->m_size, poor->shared_beg, poor->shared_end, poor->m_size, g_lock)''',
    prelude=[TCP, 'unsigned g_active; size_t g_chunk;   /* galois::getActiveThreads(), the executor\'s chunk_size */\nstatic inline unsigned gv_getActiveThreads(void) { return g_active; }\n'],
    pre_extract=ENUM, uses=['TC_stealWork', 'TC_assignWork'],
    lower=[ren('galois::getActiveThreads', 'gv_getActiveThreads', 2), rx(r'(?<![\w.>])chunk_size(?![\w])', 'g_chunk', 1, 1),
           rx(r'rich\.stealWork\(steal_beg, steal_end, steal_size, amount, g_chunk\)', 'TC_stealWork(rich, &steal_beg, &steal_end, &steal_size, amount, g_chunk)', 1, 1),
           rx(r'poor\.assignWork\(steal_beg, steal_end, steal_size\)', 'TC_assignWork(poor, steal_beg, steal_end, steal_size)', 1, 1),
           rx(r'(rich|poor)\.id', r'\1->id', 4), stdfn('std::distance', 'gv_distance', 1)],
    inst='Iter = integer iterator', says='transferWork: on success the thief\'s (previously empty) range is exactly the piece taken from the front of the victim\'s range, and victim + thief together still hold exactly the victim\'s old range; on failure nothing changes; assignWork\'s preconditions (thief empty, piece non-empty, size = distance) hold at the call'))

# ---------------------------------------------------------------------------
# ThreadPool wake-up / join tree (ThreadPool.cpp): the thread responsible for
# ids [wbegin, wend) wakes wbegin (giving it [wbegin+1, mid)) and, if
# mid < wend, mid (giving it [mid+1, wend)).  With a ghost probe id: every id
# of the range is either woken here exactly once or lies in exactly one strictly
# shorter child range (so, by induction on the length -- the hand-made step --
# every id of [1, num) is woken exactly once and no other id is touched);
# decascade waits for exactly the same children before it publishes done.
TP_C = 'libgalois/src/ThreadPool.cpp'
TPP = '''
#define GV_RELY_NONE
#include "gv_atomic.h"
struct per_signal { unsigned wbegin, wend; gv_atomic done; unsigned woken; bool fast; };
struct per_signal my_box;                /* thread_local my_box */
struct per_signal g_s1, g_s2;            /* the (at most two) children reached through signals[] in one call */
unsigned g_n, g_i1, g_i2;                /* how many were reached, their indices */
unsigned g_id;                           /* ghost probe thread id */
static inline struct per_signal* sig_at(unsigned i)
{ __CPROVER_assert(g_n < 2, "at most two children per call"); g_n = g_n + 1; if (g_n == 1) { g_i1 = i; return &g_s1; } g_i2 = i; return &g_s2; }
static inline void sig_wakeup(struct per_signal* s, bool fastmode) { s->woken = s->woken + 1; s->fast = fastmode; }
static inline void asmPause(void) {}
#define MID(b, e) ((b) + (1 + (e) - (b)) / 2)
'''
UNITS.append(Unit(
    name='ThreadPool_cascade', src=TP_C, anchor=r'void ThreadPool::cascade\(bool fastmode\)', proto='void ThreadPool_cascade(bool fastmode)',
    contract='''__CPROVER_requires(my_box.wbegin <= my_box.wend && my_box.wend <= (1u << 20) && g_n == 0 && g_s1.woken == 0 && g_s2.woken == 0 && my_box.wbegin <= g_id && g_id < my_box.wend)
__CPROVER_ensures(g_n == (MID(my_box.wbegin, my_box.wend) < my_box.wend ? 2 : 1))
__CPROVER_ensures(g_i1 == my_box.wbegin && g_s1.wbegin == my_box.wbegin + 1 && g_s1.wend == MID(my_box.wbegin, my_box.wend) && g_s1.woken == 1 && g_s1.fast == fastmode)
__CPROVER_ensures(g_n == 2 ==> (g_i2 == MID(my_box.wbegin, my_box.wend) && g_s2.wbegin == g_i2 + 1 && g_s2.wend == my_box.wend && g_s2.woken == 1 && g_s2.fast == fastmode))
__CPROVER_ensures(g_n == 1 ==> g_s2.woken == 0)
__CPROVER_ensures(g_s1.wbegin <= g_s1.wend && g_s1.wend - g_s1.wbegin < my_box.wend - my_box.wbegin && (g_n == 2 ==> (g_s2.wbegin <= g_s2.wend && g_s2.wend - g_s2.wbegin < my_box.wend - my_box.wbegin)))
__CPROVER_ensures(((g_id == g_i1) ? 1 : 0) + ((g_s1.wbegin <= g_id && g_id < g_s1.wend) ? 1 : 0) + ((g_n == 2 && g_id == g_i2) ? 1 : 0) + ((g_n == 2 && g_s2.wbegin <= g_id && g_id < g_s2.wend) ? 1 : 0) == 1)
__CPROVER_assigns(g_n, g_i1, g_i2, g_s1, g_s2)''',
    prelude=[TPP],
    lower=[rx(r'auto& me = my_box;', 'struct per_signal* me_p = &my_box;', 1, 1), rx(r'(?<![\w.>])me\.', 'me_p->', 6),
           rx(r'auto (midpoint)', r'unsigned \1', 1, 1), rx(r'auto (child[12])\s*=\s*signals\[([^\]]*)\];', r'struct per_signal* \1 = sig_at(\2);', 2, 2),
           rx(r'(child[12])->wakeup\(fastmode\)', r'sig_wakeup(\1, fastmode)', 2, 2)],
    says='fork tree: a thread wakes exactly its two (or one) children, each once, in the requested mode, and hands them ranges that are strictly shorter; every id of its range is either one of the woken children or lies in exactly one child range'))
UNITS.append(Unit(
    name='ThreadPool_decascade', src=TP_C, anchor=r'void ThreadPool::decascade\(\)', proto='void ThreadPool_decascade(void)',
    contract='''__CPROVER_requires(my_box.wbegin <= my_box.wend && my_box.wend <= (1u << 20) && g_n == 0 && g_lin_count == 0)
__CPROVER_ensures(my_box.wbegin == my_box.wend ==> g_n == 0)
__CPROVER_ensures(my_box.wbegin != my_box.wend ==> (g_n == (MID(my_box.wbegin, my_box.wend) < my_box.wend ? 2 : 1) && g_i1 == my_box.wbegin && (g_n == 2 ==> g_i2 == MID(my_box.wbegin, my_box.wend))))
__CPROVER_ensures(g_lin_count == 1 && g_lin_new == 1 && gv_is_rel(g_last_write_order))
__CPROVER_assigns(g_n, g_i1, g_i2, g_s1, g_s2, my_box.done.v, g_lin_count, g_lin_old, g_lin_new, g_last_read, g_last_load_order, g_last_write_order)''',
    prelude=[TPP],
    lower=[rx(r'auto& me = my_box;', 'struct per_signal* me_p = &my_box;', 1, 1), rx(r'(?<![\w.>])me\.done = 1;', 'gv_store(&me_p->done, 1, memory_order_seq_cst);', 1, 1),
           rx(r'(?<![\w.>])me\.', 'me_p->', 4), rx(r'auto (midpoint)', r'unsigned \1', 1, 1),
           rx(r'auto& (c[12]done)\s*=\s*signals\[([^\]]*)\]->done;', r'gv_atomic* \1 = &sig_at(\2)->done;', 2, 2),
           rx(r'while \(!(c[12]done)\)', r'while (!gv_load(\1, memory_order_seq_cst))', 2, 2)],
    loops={1: '__CPROVER_assigns(g_s1.done.v, g_s2.done.v, g_last_read, g_last_load_order)\n__CPROVER_loop_invariant(g_lin_count == 0 && g_n >= 1)',
           2: '__CPROVER_assigns(g_s1.done.v, g_s2.done.v, g_last_read, g_last_load_order)\n__CPROVER_loop_invariant(g_lin_count == 0 && g_n == 2)'},
    no_flags=['--conversion-check'],
    says='join tree: before a thread publishes done = 1 (a seq_cst store, >= release) it has observed done of exactly the children cascade() woke (same index arithmetic); nothing else is written'))

EXPLANATION = ('The stealing do_all executor\'s per-thread range (ThreadContext hasWork/getWork/steal_from_beg/stealWork/assignWork/doWork, transferWork) and the thread pool\'s '
               'wake-up / join tree (cascade, decascade) are extracted from /repo, lowered to C and proved: every critical section keeps the lock invariant and conserves the range '
               '(piece handed out + piece left = old range), doWork runs func exactly once on every element of every chunk it obtains, a stolen piece reaches the thief unchanged, '
               'the wake tree covers the ids of a range exactly once with strictly shorter child ranges and the join waits on exactly the woken children.')
NOT_DECIDED = ('the static (non-stealing) executor beyond block_range (C13); victim selection (stealWithinSocket/OutsideSocket: affects balance, not exactly-once); non-random-access iterators and '
               'LocalRange containers; condition-variable / mutex behaviour; termination of the stealing loop; the induction over the wake tree (hand-made step); runInternal\'s clamp of num.')
ASSUMPTIONS = ['work_mutex excludes (C06 SimpleLock) -- the critical sections are verified as sequential functions; lock discipline (lock/unlock pairing) is an obligation of each unit',
               'Iter = random-access integer iterator (int64 index), ranges within [0, 2^60]',
               'doWork: getWork through its thread-modular abstract contract (ghost count of hand-outs of the probe element)',
               'signals[] table: at most two entries are reached per call (asserted); per_signal::wakeup counted by a ghost (its memory-order contract is C06)']
