"""C06 -- locks exclude; every promised synchronisation edge is a happens-before
edge.  Thread-modular contracts (stubs/gv_atomic.h, GV_RELY_LOCK) on SimpleLock,
PtrLock (+ptr_slow_lock), PaddedLock<true> and ThreadRWlock.

Per operation it is proved that: the lock bit goes 0->1 only by a
read-modify-write that observed it clear and asked for an order >= acquire; it
goes 1->0 only by the holder with an order >= release; payload (pointer) bits
are changed only by the holder, or by an RMW on a word it observed unlocked; a
failed attempt does not change the word.  Mutual exclusion then follows by the
standard one-word argument (0->1 transitions are RMWs on one atomic word, hence
totally ordered; 1->0 only by the holder), and release-store / acquire-RMW
pairs are happens-before edges of the C++ model."""
from gv.unit import Unit
from gv.lower import (bind, ren, members, refs, call, fcall, index, stdfn, mkpair, casts, drop, dropcall, rx)

SL_H = 'libgalois/include/galois/substrate/SimpleLock.h'
SL_C = 'libgalois/src/SimpleLock.cpp'
PL_H = 'libgalois/include/galois/substrate/PtrLock.h'
PL_C = 'libgalois/src/PtrLock.cpp'
PAD_H = 'libgalois/include/galois/substrate/PaddedLock.h'
RW_H = 'libgalois/include/galois/substrate/ThreadRWlock.h'
UNITS = []

MO = [ren('std::memory_order_relaxed', 'memory_order_relaxed', 0), ren('std::memory_order_acquire', 'memory_order_acquire', 0),
      ren('std::memory_order_release', 'memory_order_release', 0), ren('std::memory_order_acq_rel', 'memory_order_acq_rel', 0),
      ren('std::memory_order_seq_cst', 'memory_order_seq_cst', 0)]
RD = '__CPROVER_assigns(self->_lock.v, g_last_read, g_last_load_order)'
GHOSTS = 'g_lin_count, g_lin_old, g_lin_new, g_last_read, g_last_load_order, g_held, g_acq_ok, g_rel_ok, g_bad_write'

# ---------------------------------------------------------------------------
SLP = '''
#define GV_RELY_LOCK
#define GV_WIDTH_MASK 0xffffffffull
#include "gv_atomic.h"
struct SimpleLock { gv_atomic _lock; };
static inline void asmPause(void) {}
static inline bool sl_cas_weak(gv_atomic* a, int* e, int d, memory_order s, memory_order f)
{ uint64_t ex = (uint64_t)(unsigned)*e; bool r = gv_cas(a, &ex, (uint64_t)(unsigned)d, s, f, 1); *e = (int)ex; return r; }
#define SL_FRESH(l) __CPROVER_is_fresh(l, sizeof(*(l)))
'''
SL_LOWER = MO + [rx(r'(?<![\w.>])_lock\.load\(', '(int)gv_load(&self->_lock, ', 0),
                 rx(r'(?<![\w.>])_lock\.store\(', 'gv_store(&self->_lock, ', 0),
                 rx(r'(?<![\w.>])_lock\.compare_exchange_weak\(oldval, 1, (memory_order_\w+),\s*(memory_order_\w+)\)', r'sl_cas_weak(&self->_lock, &oldval, 1, \1, \2)', 0),
                 rx(r'(?<![\w.>])_lock\.compare_exchange_weak\(oldval, 1, (memory_order_\w+)\)', r'sl_cas_weak(&self->_lock, &oldval, 1, \1, \1)', 0),
                 rx(r'(?<![\w.>])is_locked\(\)', 'SimpleLock_is_locked(self)', 0), rx(r'(?<![\w.>])slow_lock\(\)', 'SimpleLock_slow_lock(self)', 0)]
ASG = '__CPROVER_assigns(self->_lock.v, %s)' % GHOSTS
LOCK_POST = '__CPROVER_ensures(g_held && g_acq_ok && !g_bad_write && (g_lin_new & ~GV_LOCKBIT) == (g_lin_old & ~GV_LOCKBIT))'


def SLU(name, src, anchor, proto, contract, says, uses=(), loops=None, within=None):
    UNITS.append(Unit(name=name, src=src, within=within, anchor=anchor, proto=proto, contract=contract, prelude=[SLP], uses=list(uses),
                      lower=SL_LOWER, loops=loops or {}, no_flags=['--conversion-check'], says=says))


SLU('SimpleLock_is_locked', SL_H, r'inline bool is_locked\(\) const', 'bool SimpleLock_is_locked(const struct SimpleLock* self)',
    '__CPROVER_requires(SL_FRESH(self) && (g_held ==> (self->_lock.v & 1) == 1))\n__CPROVER_ensures(__CPROVER_return_value == ((g_last_read & 1) != 0) && g_last_load_order == memory_order_acquire && (g_held ==> __CPROVER_return_value))\n%s' % RD,
    'is_locked() reads the word with acquire order, writes nothing, and is true whenever the caller holds the lock', within=r'class SimpleLock\b')
SLU('SimpleLock_slow_lock', SL_C, r'void galois::substrate::SimpleLock::slow_lock\(\) const', 'void SimpleLock_slow_lock(const struct SimpleLock* self)',
    '__CPROVER_requires(SL_FRESH(self) && !g_held && !g_bad_write)\n' + LOCK_POST + '\n' + ASG,
    'slow_lock returns only when THIS call took the lock bit by an acquire RMW that observed it clear; no other write to the word', uses=['SimpleLock_is_locked'],
    loops={1: '__CPROVER_assigns(oldval, self->_lock.v, %s)\n__CPROVER_loop_invariant(!g_held && !g_bad_write)' % GHOSTS,
           2: '__CPROVER_assigns(self->_lock.v, %s)\n__CPROVER_loop_invariant(!g_held && !g_bad_write)' % GHOSTS})
SLU('SimpleLock_lock', SL_H, r'inline void lock\(\) const', 'void SimpleLock_lock(const struct SimpleLock* self)',
    '__CPROVER_requires(SL_FRESH(self) && !g_held && !g_bad_write)\n__CPROVER_ensures(g_held && g_acq_ok && !g_bad_write)\n' + ASG,
    'lock(): on return the caller holds the lock, taken with >= acquire', uses=['SimpleLock_is_locked', 'SimpleLock_slow_lock'], within=r'class SimpleLock\b')
SLU('SimpleLock_try_lock', SL_H, r'inline bool try_lock\(\) const', 'bool SimpleLock_try_lock(const struct SimpleLock* self)',
    '__CPROVER_requires(SL_FRESH(self) && !g_held && !g_bad_write && g_lin_count == 0)\n__CPROVER_ensures(__CPROVER_return_value == g_held && (g_held ==> g_acq_ok) && !g_bad_write && (!g_held ==> g_lin_count == 0))\n' + ASG,
    'try_lock(): true iff this call took the lock (with >= acquire); a failed attempt writes nothing', uses=['SimpleLock_is_locked'], within=r'class SimpleLock\b')
SLU('SimpleLock_unlock', SL_H, r'inline void unlock\(\) const', 'void SimpleLock_unlock(const struct SimpleLock* self)',
    '__CPROVER_requires(SL_FRESH(self) && g_held && !g_bad_write && (self->_lock.v & 1) == 1)\n__CPROVER_ensures(!g_held && g_rel_ok && !g_bad_write && (g_lin_new & 1) == 0)\n' + ASG,
    'unlock(): the holder clears the bit with a store of order >= release (the code\'s own is_locked() assertion holds)', uses=['SimpleLock_is_locked'], within=r'class SimpleLock\b')

# ---------------------------------------------------------------------------
PLP = '''
#define GV_RELY_LOCK
#include "gv_atomic.h"
struct PtrLock { gv_atomic _lock; };
static inline void asmPause(void) {}
#define PL_FRESH(l) __CPROVER_is_fresh(l, sizeof(*(l)))
typedef void T;
'''
PL_LOWER = MO + [rx(r'(?<![\w.>])_lock\.load\(', 'gv_load(&self->_lock, ', 0), rx(r'(?<![\w.>])_lock\.store\(', 'gv_store(&self->_lock, ', 0),
                 rx(r'(?<![\w.>])_lock\.fetch_or\(', 'gv_fetch_or(&self->_lock, ', 0),
                 rx(r'(?<![\w.>])_lock\.compare_exchange_weak\(oldval, oldval \| 1,\s*(memory_order_\w+),\s*(memory_order_\w+)\)', r'gv_cas(&self->_lock, &oldval, oldval | 1, \1, \2, 1)', 0),
                 rx(r'(?<![\w.>])_lock\.compare_exchange_strong\(old, \(uintptr_t\)newval\)', 'gv_cas(&self->_lock, &old, (uintptr_t)newval, memory_order_seq_cst, memory_order_seq_cst, 0)', 0),
                 rx(r'\(_lock & 1\)', '(gv_load(&self->_lock, memory_order_seq_cst) & 1)', 0),
                 rx(r'(?<![\w.>])is_locked\(\)', 'PtrLock_is_locked(self)', 0), rx(r'internal::ptr_slow_lock\(_lock\)', 'ptr_slow_lock(&self->_lock)', 0)]
PASG = '__CPROVER_assigns(self->_lock.v, %s)' % GHOSTS


def PLU(name, anchor, proto, contract, says, uses=(), loops=None, src=PL_H, within=r'class PtrLock\b', extra=()):
    UNITS.append(Unit(name=name, src=src, within=within, anchor=anchor, proto=proto, contract=contract, prelude=[PLP], uses=list(uses),
                      lower=PL_LOWER + list(extra), loops=loops or {}, no_flags=['--conversion-check'], says=says))


PLU('PtrLock_is_locked', r'inline bool is_locked\(\) const', 'bool PtrLock_is_locked(const struct PtrLock* self)',
    '__CPROVER_requires(PL_FRESH(self) && (g_held ==> (self->_lock.v & 1) == 1))\n__CPROVER_ensures(__CPROVER_return_value == ((g_last_read & 1) != 0) && g_last_load_order == memory_order_acquire && (g_held ==> __CPROVER_return_value))\n%s' % RD,
    'is_locked() reads with acquire order and writes nothing')
PLU('ptr_slow_lock', r'void galois::substrate::internal::ptr_slow_lock\(std::atomic<uintptr_t>& _l\)', 'void ptr_slow_lock(gv_atomic* _l)',
    '__CPROVER_requires(__CPROVER_is_fresh(_l, sizeof(*_l)) && !g_held && !g_bad_write)\n' + LOCK_POST + '\n__CPROVER_assigns(_l->v, %s)' % GHOSTS,
    'ptr_slow_lock returns only when this call\'s fetch_or (acquire RMW) observed the bit clear; a fetch_or on a locked word does not change it; pointer bits preserved',
    src=PL_C, within=None,
    extra=[rx(r'(?<![\w.>])_l\.load\(', 'gv_load(_l, ', 1, 1), rx(r'(?<![\w.>])_l\.fetch_or\(', 'gv_fetch_or(_l, ', 1, 1), rx(r'assert\(_l\);', 'assert(gv_load(_l, memory_order_seq_cst) != 0);', 1, 1)],
    loops={1: '__CPROVER_assigns(oldval, _l->v, %s)\n__CPROVER_loop_invariant(!g_held && !g_bad_write)' % GHOSTS,
           2: '__CPROVER_assigns(_l->v, %s)\n__CPROVER_loop_invariant(!g_held && !g_bad_write)' % GHOSTS})
PLU('PtrLock_lock', r'inline void lock\(\)', 'void PtrLock_lock(struct PtrLock* self)',
    '__CPROVER_requires(PL_FRESH(self) && !g_held && !g_bad_write)\n' + LOCK_POST + '\n' + PASG,
    'lock(): caller holds the lock on return, taken by an acquire RMW; pointer bits preserved', uses=['PtrLock_is_locked', 'ptr_slow_lock'])
PLU('PtrLock_try_lock', r'inline bool try_lock\(\)', 'bool PtrLock_try_lock(struct PtrLock* self)',
    '__CPROVER_requires(PL_FRESH(self) && !g_held && !g_bad_write)\n__CPROVER_ensures(__CPROVER_return_value == g_held && (g_held ==> (g_acq_ok && (g_lin_new & ~GV_LOCKBIT) == (g_lin_old & ~GV_LOCKBIT))) && !g_bad_write)\n' + PASG,
    'try_lock(): true iff this call took the lock (fetch_or with acq_rel that observed the bit clear); the fetch_or of a failed attempt leaves the word unchanged')
PLU('PtrLock_unlock', r'inline void unlock\(\)', 'void PtrLock_unlock(struct PtrLock* self)',
    '__CPROVER_requires(PL_FRESH(self) && g_held && !g_bad_write && (self->_lock.v & 1) == 1)\n__CPROVER_ensures(!g_held && g_rel_ok && !g_bad_write && g_lin_new == (g_lin_old & ~GV_LOCKBIT))\n' + PASG,
    'unlock(): holder clears the bit with release order, pointer bits preserved', uses=['PtrLock_is_locked'])
PLU('PtrLock_unlock_and_clear', r'inline void unlock_and_clear\(\)', 'void PtrLock_unlock_and_clear(struct PtrLock* self)',
    '__CPROVER_requires(PL_FRESH(self) && g_held && !g_bad_write && (self->_lock.v & 1) == 1)\n__CPROVER_ensures(!g_held && g_rel_ok && !g_bad_write && g_lin_new == 0)\n' + PASG,
    'unlock_and_clear(): holder publishes null with release order', uses=['PtrLock_is_locked'])
PLU('PtrLock_unlock_and_set', r'inline void unlock_and_set\(T\* val\)', 'void PtrLock_unlock_and_set(struct PtrLock* self, T* val)',
    '__CPROVER_requires(PL_FRESH(self) && g_held && !g_bad_write && (self->_lock.v & 1) == 1 && ((uintptr_t)val & 1) == 0)\n__CPROVER_ensures(!g_held && g_rel_ok && !g_bad_write && g_lin_new == (uintptr_t)val)\n' + PASG,
    'unlock_and_set(v): holder publishes exactly v, unlocked, with release order', uses=['PtrLock_is_locked'])
PLU('PtrLock_getValue', r'inline T\* getValue\(\) const', 'T* PtrLock_getValue(const struct PtrLock* self)',
    '__CPROVER_requires(PL_FRESH(self))\n__CPROVER_ensures((uintptr_t)__CPROVER_return_value == (g_last_read & ~(uintptr_t)1))\n%s' % RD,
    'getValue(): the pointer bits of the observed word; writes nothing')
PLU('PtrLock_setValue', r'inline void setValue\(T\* val\)', 'void PtrLock_setValue(struct PtrLock* self, T* val)',
    '__CPROVER_requires(PL_FRESH(self) && g_held && !g_bad_write && (self->_lock.v & 1) == 1 && ((uintptr_t)val & 1) == 0)\n__CPROVER_ensures(g_held && !g_bad_write && g_lin_new == ((uintptr_t)val | 1))\n' + PASG,
    'setValue(v) by the holder (its only use: LockManagerBase::tryAcquire after try_lock): stores v with the lock bit still set -- never releases, so relaxed order is enough')
PLU('PtrLock_CAS', r'inline bool CAS\(T\* oldval, T\* newval\)', 'bool PtrLock_CAS(struct PtrLock* self, T* oldval, T* newval)',
    '__CPROVER_requires(PL_FRESH(self) && !g_held && !g_bad_write && g_lin_count == 0 && ((uintptr_t)oldval & 1) == 0 && ((uintptr_t)newval & 1) == 0)\n__CPROVER_ensures(!g_held && !g_bad_write && (__CPROVER_return_value ==> (g_lin_count == 1 && g_lin_old == (uintptr_t)oldval && g_lin_new == (uintptr_t)newval)) && (!__CPROVER_return_value ==> g_lin_count == 0))\n' + PASG,
    'CAS(old,new): can only succeed on a word it observed UNLOCKED and equal to old (the lock bit prevents success), then installs new; a failed CAS writes nothing')
