"""C06 -- locks exclude; every promised synchronisation edge is a happens-before
edge.  Thread-modular contracts (stubs/gv_atomic.h, GV_RELY_LOCK) on SimpleLock,
PtrLock (+ptr_slow_lock), PaddedLock<true> and ThreadRWlock.

Per operation it is proved that: the lock bit goes 0->1 only by a
read-modify-write that observed it clear and asked for an order >= acquire; it
goes 1->0 only by the holder with an order >= release; payload (pointer) bits
are changed only by the holder, or by an RMW on a word it observed unlocked; a
failed attempt does not change the word.  Mutual exclusion then follows by the
standard one-word argument (0->1 transitions are RMWs on one atomic word, hence
totally ordered; 1->0 only by the holder), and release-store / acquire-RMW
pairs are happens-before edges of the C++ model."""
from gv.unit import Unit
from gv.lower import (bind, ren, members, refs, call, fcall, index, stdfn, mkpair, casts, drop, dropcall, rx)

SL_H = 'libgalois/include/galois/substrate/SimpleLock.h'
SL_C = 'libgalois/src/SimpleLock.cpp'
PL_H = 'libgalois/include/galois/substrate/PtrLock.h'
PL_C = 'libgalois/src/PtrLock.cpp'
PAD_H = 'libgalois/include/galois/substrate/PaddedLock.h'
RW_H = 'libgalois/include/galois/substrate/ThreadRWlock.h'
UNITS = []

MO = [ren('std::memory_order_relaxed', 'memory_order_relaxed', 0), ren('std::memory_order_acquire', 'memory_order_acquire', 0),
      ren('std::memory_order_release', 'memory_order_release', 0), ren('std::memory_order_acq_rel', 'memory_order_acq_rel', 0),
      ren('std::memory_order_seq_cst', 'memory_order_seq_cst', 0)]
RD = '__CPROVER_assigns(self->_lock.v, g_last_read, g_last_load_order)'
GHOSTS = 'g_lin_count, g_lin_old, g_lin_new, g_last_read, g_last_load_order, g_last_write_order, g_held, g_acq_ok, g_rel_ok, g_bad_write'

# ---------------------------------------------------------------------------
SLP = '''
#define GV_RELY_LOCK
#define GV_WIDTH_MASK 0xffffffffull
#include "gv_atomic.h"
struct SimpleLock { gv_atomic _lock; };
static inline void asmPause(void) {}
static inline bool sl_cas_weak(gv_atomic* a, int* e, int d, memory_order s, memory_order f)
{ uint64_t ex = (uint64_t)(unsigned)*e; bool r = gv_cas(a, &ex, (uint64_t)(unsigned)d, s, f, 1); *e = (int)ex; return r; }
#define SL_FRESH(l) (__CPROVER_is_fresh(l, sizeof(*(l))) && (l)->_lock.v <= GV_WIDTH_MASK)
'''
SL_LOWER = MO + [rx(r'(?<![\w.>])_lock\.load\(', '(int)gv_load(&self->_lock, ', 0),
                 rx(r'(?<![\w.>])_lock\.store\(', 'gv_store(&self->_lock, ', 0),
                 rx(r'(?<![\w.>])_lock\.compare_exchange_weak\(oldval, 1, (memory_order_\w+),\s*(memory_order_\w+)\)', r'sl_cas_weak(&self->_lock, &oldval, 1, \1, \2)', 0),
                 rx(r'(?<![\w.>])_lock\.compare_exchange_weak\(oldval, 1, (memory_order_\w+)\)', r'sl_cas_weak(&self->_lock, &oldval, 1, \1, \1)', 0),
                 rx(r'(?<![\w.>])is_locked\(\)', 'SimpleLock_is_locked(self)', 0), rx(r'(?<![\w.>])slow_lock\(\)', 'SimpleLock_slow_lock(self)', 0)]
ASG = '__CPROVER_assigns(self->_lock.v, %s)' % GHOSTS
LOCK_POST = '__CPROVER_ensures(g_held && g_acq_ok && !g_bad_write && (g_lin_new & ~GV_LOCKBIT) == (g_lin_old & ~GV_LOCKBIT) && (g_lin_new & GV_LOCKBIT) != 0)'


def SLU(name, src, anchor, proto, contract, says, uses=(), loops=None, within=None):
    UNITS.append(Unit(name=name, src=src, within=within, anchor=anchor, proto=proto, contract=contract, prelude=[SLP], uses=list(uses),
                      lower=SL_LOWER, loops=loops or {}, no_flags=['--conversion-check'], says=says))


SLU('SimpleLock_is_locked', SL_H, r'inline bool is_locked\(\) const', 'bool SimpleLock_is_locked(const struct SimpleLock* self)',
    '__CPROVER_requires(SL_FRESH(self) && (g_held ==> (self->_lock.v & 1) == 1))\n__CPROVER_ensures(__CPROVER_return_value == ((g_last_read & 1) != 0) && g_last_load_order == memory_order_acquire && (g_held ==> (__CPROVER_return_value && self->_lock.v == __CPROVER_old(self->_lock.v))))\n%s' % RD,
    'is_locked() reads the word with acquire order, writes nothing, and is true whenever the caller holds the lock', within=r'class SimpleLock\b')
SLU('SimpleLock_slow_lock', SL_C, r'void galois::substrate::SimpleLock::slow_lock\(\) const', 'void SimpleLock_slow_lock(const struct SimpleLock* self)',
    '__CPROVER_requires(SL_FRESH(self) && !g_held && !g_bad_write)\n' + LOCK_POST + '\n' + ASG,
    'slow_lock returns only when THIS call took the lock bit by an acquire RMW that observed it clear; no other write to the word', uses=['SimpleLock_is_locked'],
    loops={1: '__CPROVER_assigns(oldval, self->_lock.v, %s)\n__CPROVER_loop_invariant(!g_held && !g_bad_write)' % GHOSTS,
           2: '__CPROVER_assigns(self->_lock.v, %s)\n__CPROVER_loop_invariant(!g_held && !g_bad_write)' % GHOSTS})
SLU('SimpleLock_lock', SL_H, r'inline void lock\(\) const', 'void SimpleLock_lock(const struct SimpleLock* self)',
    '__CPROVER_requires(SL_FRESH(self) && !g_held && !g_bad_write)\n__CPROVER_ensures(g_held && g_acq_ok && !g_bad_write)\n' + ASG,
    'lock(): on return the caller holds the lock, taken with >= acquire', uses=['SimpleLock_is_locked', 'SimpleLock_slow_lock'], within=r'class SimpleLock\b')
SLU('SimpleLock_try_lock', SL_H, r'inline bool try_lock\(\) const', 'bool SimpleLock_try_lock(const struct SimpleLock* self)',
    '__CPROVER_requires(SL_FRESH(self) && !g_held && !g_bad_write && g_lin_count == 0)\n__CPROVER_ensures(__CPROVER_return_value == g_held && (g_held ==> g_acq_ok) && !g_bad_write && (!g_held ==> g_lin_count == 0))\n' + ASG,
    'try_lock(): true iff this call took the lock (with >= acquire); a failed attempt writes nothing', uses=['SimpleLock_is_locked'], within=r'class SimpleLock\b')
SLU('SimpleLock_unlock', SL_H, r'inline void unlock\(\) const', 'void SimpleLock_unlock(const struct SimpleLock* self)',
    '__CPROVER_requires(SL_FRESH(self) && g_held && !g_bad_write && (self->_lock.v & 1) == 1)\n__CPROVER_ensures(!g_held && g_rel_ok && !g_bad_write && (g_lin_new & 1) == 0)\n' + ASG,
    'unlock(): the holder clears the bit with a store of order >= release (the code\'s own is_locked() assertion holds)', uses=['SimpleLock_is_locked'], within=r'class SimpleLock\b')

# ---------------------------------------------------------------------------
PLP = '''
#define GV_RELY_LOCK
#include "gv_atomic.h"
struct PtrLock { gv_atomic _lock; };
static inline void asmPause(void) {}
#define PL_FRESH(l) __CPROVER_is_fresh(l, sizeof(*(l)))
typedef void T;
'''
PL_LOWER = MO + [rx(r'(?<![\w.>])_lock\.load\(', 'gv_load(&self->_lock, ', 0), rx(r'(?<![\w.>])_lock\.store\(', 'gv_store(&self->_lock, ', 0),
                 rx(r'(?<![\w.>])_lock\.fetch_or\(', 'gv_fetch_or(&self->_lock, ', 0),
                 rx(r'(?<![\w.>])_lock\.compare_exchange_weak\(oldval, oldval \| 1,\s*(memory_order_\w+),\s*(memory_order_\w+)\)', r'gv_cas(&self->_lock, &oldval, oldval | 1, \1, \2, 1)', 0),
                 rx(r'(?<![\w.>])_lock\.compare_exchange_strong\(old, \(uintptr_t\)newval\)', 'gv_cas(&self->_lock, &old, (uintptr_t)newval, memory_order_seq_cst, memory_order_seq_cst, 0)', 0),
                 rx(r'\(_lock & 1\)', '(gv_load(&self->_lock, memory_order_seq_cst) & 1)', 0),
                 rx(r'(?<![\w.>])is_locked\(\)', 'PtrLock_is_locked(self)', 0), rx(r'internal::ptr_slow_lock\(_lock\)', 'ptr_slow_lock(&self->_lock)', 0)]
PASG = '__CPROVER_assigns(self->_lock.v, %s)' % GHOSTS


def PLU(name, anchor, proto, contract, says, uses=(), loops=None, src=PL_H, within=r'class PtrLock\b', extra=()):
    UNITS.append(Unit(name=name, src=src, within=within, anchor=anchor, proto=proto, contract=contract, prelude=[PLP], uses=list(uses),
                      lower=PL_LOWER + list(extra), loops=loops or {}, no_flags=['--conversion-check'], says=says))


PLU('PtrLock_is_locked', r'inline bool is_locked\(\) const', 'bool PtrLock_is_locked(const struct PtrLock* self)',
    '__CPROVER_requires(PL_FRESH(self) && (g_held ==> (self->_lock.v & 1) == 1))\n__CPROVER_ensures(__CPROVER_return_value == ((g_last_read & 1) != 0) && g_last_load_order == memory_order_acquire && (g_held ==> (__CPROVER_return_value && self->_lock.v == __CPROVER_old(self->_lock.v))))\n%s' % RD,
    'is_locked() reads with acquire order and writes nothing')
# ptr_slow_lock: goto-instrument 6.11 does not attach the loop contract to this do { while(..); } while (oldval & 1)
# loop ("loop ... does not have a contract, skipping"), so it cannot be closed by an invariant here.  BOUNDED stand-in:
# every path with at most 3 iterations of each spin loop (each iteration starts from the same abstract state: the
# environment re-chooses the word before every atomic step, and the ghost state is unchanged while the lock is not taken).
UNITS.append(Unit(
    name='ptr_slow_lock', kind='bounded', unwind=4, partial=True, bound_desc='paths with <= 3 iterations of each of the two spin loops (longer spins are cut, not asserted)',
    src=PL_C, anchor=r'void galois::substrate::internal::ptr_slow_lock\(std::atomic<uintptr_t>& _l\)', proto='void ptr_slow_lock(gv_atomic* _l)',
    contract='__CPROVER_requires(__CPROVER_is_fresh(_l, sizeof(*_l)) && !g_held && !g_bad_write)\n' + LOCK_POST + '\n__CPROVER_assigns(_l->v, %s)' % GHOSTS,
    prelude=[PLP], no_flags=['--conversion-check'],
    lower=PL_LOWER + [rx(r'(?<![\w.>])_l\.load\(', 'gv_load(_l, ', 1, 1), rx(r'(?<![\w.>])_l\.fetch_or\(', 'gv_fetch_or(_l, ', 1, 1), rx(r'assert\(_l\);', 'assert(gv_load(_l, memory_order_seq_cst) != 0);', 1, 1)],
    says='BOUNDED: ptr_slow_lock returns only when this call\'s fetch_or (acquire RMW) observed the bit clear; a fetch_or on a locked word does not change it; pointer bits preserved'))
PLU('PtrLock_lock', r'inline void lock\(\)', 'void PtrLock_lock(struct PtrLock* self)',
    '__CPROVER_requires(PL_FRESH(self) && !g_held && !g_bad_write)\n' + LOCK_POST + '\n' + PASG,
    'lock(): caller holds the lock on return, taken by an acquire RMW; pointer bits preserved', uses=['PtrLock_is_locked', 'ptr_slow_lock'])
PLU('PtrLock_try_lock', r'inline bool try_lock\(\)', 'bool PtrLock_try_lock(struct PtrLock* self)',
    '__CPROVER_requires(PL_FRESH(self) && !g_held && !g_bad_write)\n__CPROVER_ensures(__CPROVER_return_value == g_held && (g_held ==> (g_acq_ok && (g_lin_new & ~GV_LOCKBIT) == (g_lin_old & ~GV_LOCKBIT) && self->_lock.v == g_lin_new && (g_lin_new & GV_LOCKBIT) != 0)) && !g_bad_write)\n' + PASG,
    'try_lock(): true iff this call took the lock (fetch_or with acq_rel that observed the bit clear); the fetch_or of a failed attempt leaves the word unchanged')
PLU('PtrLock_unlock', r'inline void unlock\(\)', 'void PtrLock_unlock(struct PtrLock* self)',
    '__CPROVER_requires(PL_FRESH(self) && g_held && !g_bad_write && (self->_lock.v & 1) == 1)\n__CPROVER_ensures(!g_held && g_rel_ok && !g_bad_write && g_lin_new == (g_lin_old & ~GV_LOCKBIT))\n' + PASG,
    'unlock(): holder clears the bit with release order, pointer bits preserved', uses=['PtrLock_is_locked'])
PLU('PtrLock_unlock_and_clear', r'inline void unlock_and_clear\(\)', 'void PtrLock_unlock_and_clear(struct PtrLock* self)',
    '__CPROVER_requires(PL_FRESH(self) && g_held && !g_bad_write && (self->_lock.v & 1) == 1)\n__CPROVER_ensures(!g_held && g_rel_ok && !g_bad_write && g_lin_new == 0)\n' + PASG,
    'unlock_and_clear(): holder publishes null with release order', uses=['PtrLock_is_locked'])
PLU('PtrLock_unlock_and_set', r'inline void unlock_and_set\(T\* val\)', 'void PtrLock_unlock_and_set(struct PtrLock* self, T* val)',
    '__CPROVER_requires(PL_FRESH(self) && g_held && !g_bad_write && (self->_lock.v & 1) == 1 && ((uintptr_t)val & 1) == 0)\n__CPROVER_ensures(!g_held && g_rel_ok && !g_bad_write && g_lin_new == (uintptr_t)val)\n' + PASG,
    'unlock_and_set(v): holder publishes exactly v, unlocked, with release order', uses=['PtrLock_is_locked'])
PLU('PtrLock_getValue', r'inline T\* getValue\(\) const', 'T* PtrLock_getValue(const struct PtrLock* self)',
    '__CPROVER_requires(PL_FRESH(self))\n__CPROVER_ensures((uintptr_t)__CPROVER_return_value == (g_last_read & ~(uintptr_t)1) && (g_held ==> (self->_lock.v == __CPROVER_old(self->_lock.v) && g_last_read == self->_lock.v)))\n%s' % RD,
    'getValue(): the pointer bits of the observed word; writes nothing')
PLU('PtrLock_setValue', r'inline void setValue\(T\* val\)', 'void PtrLock_setValue(struct PtrLock* self, T* val)',
    '__CPROVER_requires(PL_FRESH(self) && g_held && !g_bad_write && (self->_lock.v & 1) == 1 && ((uintptr_t)val & 1) == 0)\n__CPROVER_ensures(g_held && !g_bad_write && g_lin_new == ((uintptr_t)val | 1) && self->_lock.v == g_lin_new && g_acq_ok == __CPROVER_old(g_acq_ok))\n' + PASG,
    'setValue(v) by the holder (its only use: LockManagerBase::tryAcquire after try_lock): stores v with the lock bit still set -- never releases, so relaxed order is enough')
PLU('PtrLock_CAS', r'inline bool CAS\(T\* oldval, T\* newval\)', 'bool PtrLock_CAS(struct PtrLock* self, T* oldval, T* newval)',
    '__CPROVER_requires(PL_FRESH(self) && !g_held && !g_bad_write && g_lin_count == 0 && ((uintptr_t)oldval & 1) == 0 && ((uintptr_t)newval & 1) == 0)\n__CPROVER_ensures(!g_held && !g_bad_write && (__CPROVER_return_value ==> (g_lin_count == 1 && g_lin_old == (uintptr_t)oldval && g_lin_new == (uintptr_t)newval)) && (!__CPROVER_return_value ==> g_lin_count == 0))\n' + PASG,
    'CAS(old,new): can only succeed on a word it observed UNLOCKED and equal to old (the lock bit prevents success), then installs new; a failed CAS writes nothing')

# ---------------------------------------------------------------------------
# PaddedLock<true>: forwards to SimpleLock
PADP = 'struct PaddedLock { struct SimpleLock Lock; };\n'
for nm, ret, post, req in [('lock', 'void', 'g_held && g_acq_ok && !g_bad_write', '!g_held && !g_bad_write'),
                           ('try_lock', 'bool', '__CPROVER_return_value == g_held && (g_held ==> g_acq_ok) && !g_bad_write', '!g_held && !g_bad_write && g_lin_count == 0'),
                           ('unlock', 'void', '!g_held && g_rel_ok && !g_bad_write', 'g_held && !g_bad_write && (self->Lock._lock.v & 1) == 1')]:
    UNITS.append(Unit(
        name='PaddedLock_' + nm, src=PAD_H, within=r'class PaddedLock<true>', anchor=r'%s %s\(\) const' % (ret, nm),
        proto='%s PaddedLock_%s(const struct PaddedLock* self)' % (ret, nm),
        contract='__CPROVER_requires(__CPROVER_is_fresh(self, sizeof(*self)) && self->Lock._lock.v <= GV_WIDTH_MASK && %s)\n__CPROVER_ensures(%s)\n__CPROVER_assigns(self->Lock._lock.v, %s)' % (req, post, GHOSTS),
        prelude=[SLP, PADP], uses=['SimpleLock_' + nm],
        lower=[rx(r'Lock\.get\(\)\.%s\(\)' % nm, 'SimpleLock_%s(&self->Lock)' % nm, 1, 1)], no_flags=['--conversion-check'],
        says='PaddedLock<true>::%s forwards to the SimpleLock it pads (verified against SimpleLock\'s contract)' % nm))

# ---------------------------------------------------------------------------
# ThreadPool::per_signal: the fork edge of a parallel region (fast mode).
TP_H = 'libgalois/include/galois/substrate/ThreadPool.h'
PSP = '''
#define GV_RELY_NONE
#include "gv_atomic.h"
struct per_signal { gv_atomic done; gv_atomic fastRelease; };
static inline void asmPause(void) {}
static inline void gv_mutex_cv_path(void) {}   /* std::mutex / std::condition_variable path: libstdc++, not decided */
'''
PS_LOWER = MO + [rx(r'(?<![\w.>])done\s*=\s*0;', 'gv_store(&self->done, 0, memory_order_seq_cst);', 0),
                 rx(r'(?<![\w.>])fastRelease\s*=\s*(\d);', r'gv_store(&self->fastRelease, \1, memory_order_seq_cst);', 0),
                 rx(r'(?<![\w.>])fastRelease\.load\(', 'gv_load(&self->fastRelease, ', 0),
                 rx(r'std::lock_guard<std::mutex> lg\(m\);', '', 0), rx(r'cv\.notify_one\(\);', 'gv_mutex_cv_path();', 0),
                 rx(r'std::unique_lock<std::mutex> lg\(m\);', '', 0), rx(r'cv\.wait\(lg, \[=\] \{ return !done; \}\);', 'gv_mutex_cv_path();', 0)]
PS_ASG = '__CPROVER_assigns(self->done.v, self->fastRelease.v, g_lin_count, g_lin_old, g_lin_new, g_last_read, g_last_load_order, g_last_write_order)'
UNITS.append(Unit(
    name='per_signal_wakeup', src=TP_H, within=r'struct per_signal\b', anchor=r'void wakeup\(bool fastmode\)',
    proto='void per_signal_wakeup(struct per_signal* self, bool fastmode)',
    contract='__CPROVER_requires(__CPROVER_is_fresh(self, sizeof(*self)) && g_lin_count == 0)\n/* fast mode: exactly two writes -- done := 0 first, THEN the release store of 1 */\n__CPROVER_ensures(fastmode ==> (g_lin_count == 2 && g_lin_new == 1 && gv_is_rel(g_last_write_order)))\n' + PS_ASG,
    prelude=[PSP], lower=PS_LOWER, no_flags=['--conversion-check'],
    says='fork edge, releasing side: the master publishes the region by a store of 1 to the worker\'s flag with an order >= release (after clearing done)',
    trusted=['mutex/condition_variable (non-fast) path is libstdc++: not decided']))
UNITS.append(Unit(
    name='per_signal_wait', src=TP_H, within=r'struct per_signal\b', anchor=r'void wait\(bool fastmode\)',
    proto='void per_signal_wait(struct per_signal* self, bool fastmode)',
    contract='__CPROVER_requires(__CPROVER_is_fresh(self, sizeof(*self)) && g_lin_count == 0)\n/* fast mode: leaves only after OBSERVING the flag set (acquire), then re-arms it: exactly one write, of 0 */\n__CPROVER_ensures(fastmode ==> (gv_is_acq(g_last_load_order) && g_last_read != 0 && g_lin_count == 1 && g_lin_new == 0))\n' + PS_ASG,
    prelude=[PSP], lower=PS_LOWER, no_flags=['--conversion-check'],
    loops={1: PS_ASG.replace('__CPROVER_assigns(', '__CPROVER_assigns(').rstrip() + '\n__CPROVER_loop_invariant(g_lin_count == 0)'},
    says='fork edge, acquiring side: the load with which the worker OBSERVES the released flag asks for an order >= acquire, so the master\'s writes before wakeup() (work function, thread range) happen-before the worker\'s reads after wait() in the C++ model',
    trusted=['mutex/condition_variable (non-fast) path is libstdc++: not decided']))

# ---------------------------------------------------------------------------
# ThreadRWlock: one padded lock per thread; readers take their own, a writer
# takes all of them in ascending order.  Lock-set view: ghost bit per lock
# (thread count n <= 16 as a configuration bound); the per-lock operations are
# replaced by an abstract contract that is the lock-set image of the proved
# SimpleLock/PaddedLock contracts (lock: not held before, held after; unlock:
# held before, not held after).
RWP = '''
#define GV_MAXT 16u
struct RW { bool held[GV_MAXT]; unsigned n; };
unsigned g_tid;
static inline void rw_lock(struct RW* r, unsigned i)
{ __CPROVER_assert(i < r->n, "thread id in range"); __CPROVER_assert(!r->held[i], "lock() on a lock this thread does not hold yet (no self-deadlock)"); r->held[i] = 1; }
static inline void rw_unlock(struct RW* r, unsigned i)
{ __CPROVER_assert(i < r->n, "thread id in range"); __CPROVER_assert(r->held[i], "unlock() only by the holder"); r->held[i] = 0; }
#define RW_OK(r) (__CPROVER_is_fresh(r, sizeof(*(r))) && (r)->n >= 1 && (r)->n <= GV_MAXT && g_tid < (r)->n)
'''
RW_LOWER = [rx(r'locks\.getLocal\(\)->lock\(\)', 'rw_lock(self, g_tid)', 0), rx(r'locks\.getLocal\(\)->unlock\(\)', 'rw_unlock(self, g_tid)', 0),
            rx(r'locks\.getRemote\(i\)->lock\(\)', 'rw_lock(self, i)', 0), rx(r'locks\.getRemote\(i\)->unlock\(\)', 'rw_unlock(self, i)', 0),
            rx(r'locks\.size\(\)', 'self->n', 0)]
NONE = '__CPROVER_forall { unsigned k_; (k_ < GV_MAXT) ==> (k_ < self->n ==> self->held[k_] == 0) }'
ALL = '__CPROVER_forall { unsigned k_; (k_ < GV_MAXT) ==> (k_ < self->n ==> self->held[k_] == 1) }'
for nm, pre, post, loop in [
        ('readLock', NONE, 'self->held[g_tid] == 1 && __CPROVER_forall { unsigned k_; (k_ < GV_MAXT) ==> ((k_ < self->n && k_ != g_tid) ==> self->held[k_] == 0) }', None),
        ('readUnlock', 'self->held[g_tid] == 1 && __CPROVER_forall { unsigned k_; (k_ < GV_MAXT) ==> ((k_ < self->n && k_ != g_tid) ==> self->held[k_] == 0) }', NONE, None),
        ('writeLock', NONE, ALL, '__CPROVER_forall { unsigned a_; (a_ < GV_MAXT) ==> (a_ < self->n ==> (self->held[a_] == (a_ < i))) }'),
        ('writeUnlock', ALL, NONE, '__CPROVER_forall { unsigned a_; (a_ < GV_MAXT) ==> (a_ < self->n ==> (self->held[a_] == (a_ >= i))) }')]:
    UNITS.append(Unit(
        name='ThreadRWlock_' + nm, src=RW_H, within=r'class ThreadRWlock\b', anchor=r'void %s\(\)' % nm, proto='void ThreadRWlock_%s(struct RW* self)' % nm,
        contract='__CPROVER_requires(RW_OK(self) && %s)\n__CPROVER_ensures(%s)\n__CPROVER_assigns(__CPROVER_object_whole(self))' % (pre, post),
        prelude=[RWP], lower=RW_LOWER, ghost_prefix='const unsigned n0 = self->n;' if loop else '', fallback_unwind=18,
        loops={1: '__CPROVER_assigns(i, __CPROVER_object_whole(self))\n__CPROVER_loop_invariant(i <= self->n && self->n == n0 && n0 <= GV_MAXT && %s)\n__CPROVER_decreases(n0 - i)' % loop} if loop else {},
        inst='thread count <= 16 (configuration bound)',
        says={'readLock': 'a reader takes exactly its own thread\'s lock', 'readUnlock': 'a reader releases exactly its own lock',
              'writeLock': 'a writer takes EVERY thread\'s lock, in ascending order (a consistent order: two writers cannot deadlock), so it excludes every reader and every other writer',
              'writeUnlock': 'a writer releases every lock it took'}[nm],
        trusted=['lock-set abstraction rw_lock/rw_unlock = image of the proved PaddedLock/SimpleLock contracts']))

EXPLANATION = ('Every operation of SimpleLock, PtrLock (ptr_slow_lock: bounded), PaddedLock<true>, ThreadRWlock and the fast-mode fork signal of the thread pool is extracted from /repo, '
               'lowered to C and verified thread-modularly: before each atomic step the environment may rewrite the lock word (never while this thread holds the lock); ghost state records who '
               'holds the lock and which memory order each step requested.  Proved per operation: the bit is taken only by an RMW that observed it clear with order >= acquire, cleared only by '
               'the holder with order >= release, payload bits changed only by the holder or by an RMW on a word observed unlocked, failed attempts change nothing.')
NOT_DECIDED = ('fairness / "eventually admits every requester" (spin locks have none); executions of the full C++ memory model (the claim is the per-operation order discipline that makes each '
               'promised edge a release/acquire pair); std::mutex/condition_variable paths; barrier arrival->departure and worklist push->pop edges beyond the locks they use; PtrLock::stealing_CAS (documented as dangerous).')
ASSUMPTIONS = ['interference stub stubs/gv_atomic.h with GV_RELY_LOCK: atomic steps are indivisible; while this thread holds the lock nobody else writes the word',
               'mutual exclusion from the per-operation facts is the standard one-word argument (hand-made step, stated in the module docstring)',
               'a release store read by an acquire RMW/load is a happens-before edge (C++ [intro.races]); memory orders are recorded, not interpreted',
               'ThreadRWlock: per-thread locks as a lock-set (<= 16 threads)']
