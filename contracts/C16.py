"""C16 -- ParallelSTL algorithms equal their std:: counterparts: the partition
skeleton.  Iterators are random-access: lowered to signed 64-bit indices into
one array; the predicate value of ONE arbitrary element (ghost probe g_x) is
tracked, std::partition is a stub with the standard's contract."""
from gv.unit import Unit
from gv.lower import (bind, ren, members, refs, call, fcall, index, stdfn, mkpair, casts, drop, dropcall, rx)

PSTL = 'libgalois/include/galois/ParallelSTL.h'
UNITS = []

PP = '''
typedef int64_t It;                       /* random-access iterator = index */
struct RP { It first, second; };          /* std::pair<It,It> */
struct PState { It first, last, rfirst, rlast; };
It g_first0, g_last0;                     /* the range partition() was called on */
It g_x; bool g_val;                       /* ghost probe: one element and the value of pred on it */
bool g_lock;                              /* partition_helper_state::Lock */
static inline void Lock_lock(void) { __CPROVER_assert(!g_lock, "lock() while not holding"); g_lock = 1; }
static inline void Lock_unlock(void) { __CPROVER_assert(g_lock, "unlock() by the holder"); g_lock = 0; }
static inline It BlockSize(void) { return 1024; }
#define IN(x, a, b) ((a) <= (x) && (x) < (b))
#define RANGE_OK (0 <= g_first0 && g_first0 <= g_last0 && g_last0 <= ((It)1 << 40))
/* lock invariant of the shared state: the untaken middle [first,last) lies inside the range; the leftover span is
   either untouched (rfirst == last0, rlast == first0 -- as the constructor leaves it) or a non-empty span inside the range */
#define UNTOUCHED(s) ((s)->rfirst == g_last0 && (s)->rlast == g_first0)
#define SPAN_OK(s) (UNTOUCHED(s) || (g_first0 <= (s)->rfirst && (s)->rfirst < (s)->rlast && (s)->rlast <= g_last0))
#define ST_INV(s) (g_first0 <= (s)->first && (s)->first <= (s)->last && (s)->last <= g_last0 && SPAN_OK(s))
'''
ST_LOWER = [members(['first', 'last', 'rfirst', 'rlast'], minimum=2),
            rx(r'Lock\.lock\(\)', 'Lock_lock()', 1, 1), rx(r'Lock\.unlock\(\)', 'Lock_unlock()', 1, 1),
            rx(r'std::distance\(self->first, self->last\)', '(self->last - self->first)', 0),
            stdfn('std::min', 'gv_min_i64', 0), stdfn('std::max', 'gv_max_i64', 0),
            rx(r'RandomAccessIterator rv', 'It rv', 0), mkpair('std::make_pair', 'struct RP', 0),
            rx(r'(low|high)\.(first|second)', r'\1.\2', 0)]
WITHIN = r'struct partition_helper_state\b'
UNITS.append(Unit(
    name='PState_ctor', src=PSTL, within=WITHIN, anchor=r'partition_helper_state\(RandomAccessIterator f, RandomAccessIterator l,\s*Predicate p\)',
    proto='void PState_ctor(struct PState* self, It f, It l)', ctor_inits=['first', 'last', 'rfirst', 'rlast'],
    contract='''__CPROVER_requires(__CPROVER_is_fresh(self, sizeof(*self)) && RANGE_OK && f == g_first0 && l == g_last0)
__CPROVER_ensures(self->first == f && self->last == l && UNTOUCHED(self) && ST_INV(self))
__CPROVER_assigns(__CPROVER_object_whole(self))''',
    prelude=[PP], says='the constructor leaves the leftover span in its "untouched" encoding (rfirst = last, rlast = first) -- the encoding the test in partition() must agree with'))
for nm, post in [('takeLow', '__CPROVER_return_value.first == __CPROVER_old(self->first) && __CPROVER_return_value.second == self->first && self->last == __CPROVER_old(self->last)'),
                 ('takeHigh', '__CPROVER_return_value.second == __CPROVER_old(self->last) && __CPROVER_return_value.first == self->last && self->first == __CPROVER_old(self->first)')]:
    UNITS.append(Unit(
        name='PState_' + nm, src=PSTL, within=WITHIN, anchor=r'RP %s\(\)' % nm, proto='struct RP PState_%s(struct PState* self)' % nm,
        contract='''__CPROVER_requires(__CPROVER_is_fresh(self, sizeof(*self)) && RANGE_OK && ST_INV(self) && !g_lock)
__CPROVER_ensures(ST_INV(self) && !g_lock && %s)
__CPROVER_ensures(__CPROVER_return_value.second - __CPROVER_return_value.first == (__CPROVER_old(self->last) - __CPROVER_old(self->first) < 1024 ? __CPROVER_old(self->last) - __CPROVER_old(self->first) : 1024))
__CPROVER_ensures(self->rfirst == __CPROVER_old(self->rfirst) && self->rlast == __CPROVER_old(self->rlast))
__CPROVER_assigns(self->first, self->last, g_lock)''' % post,
        prelude=[PP], lower=ST_LOWER, no_flags=['--conversion-check'],
        says='%s (a critical section): hands out the next block of min(1024, remaining) elements from the %s of the untaken middle; block and remaining middle partition the old middle (conservation: every element is handed out exactly once); lock released' % (nm, 'front' if nm == 'takeLow' else 'back')))
UNITS.append(Unit(
    name='PState_update', src=PSTL, within=WITHIN, anchor=r'void update\(RP low, RP high\)', proto='void PState_update(struct PState* self, struct RP low, struct RP high)',
    contract='''__CPROVER_requires(__CPROVER_is_fresh(self, sizeof(*self)) && RANGE_OK && ST_INV(self) && !g_lock)
__CPROVER_requires(g_first0 <= low.first && low.first <= low.second && low.second <= g_last0 && g_first0 <= high.first && high.first <= high.second && high.second <= g_last0)
__CPROVER_ensures(ST_INV(self) && !g_lock && self->first == __CPROVER_old(self->first) && self->last == __CPROVER_old(self->last))
__CPROVER_ensures((low.first == low.second && high.first == high.second) ==> (self->rfirst == __CPROVER_old(self->rfirst) && self->rlast == __CPROVER_old(self->rlast)))
__CPROVER_ensures(low.first != low.second ==> (self->rfirst <= low.first && low.second <= self->rlast))
__CPROVER_ensures(high.first != high.second ==> (self->rfirst <= high.first && high.second <= self->rlast))
__CPROVER_ensures(self->rfirst <= __CPROVER_old(self->rfirst) && self->rlast >= __CPROVER_old(self->rlast))
__CPROVER_assigns(self->rfirst, self->rlast, g_lock)''',
    prelude=[PP], lower=ST_LOWER,
    says='update (a critical section): the leftover span grows to contain every non-empty leftover block reported and stays either untouched or a well-formed span'))

# the sequential tail of partition(): on_each is replaced by what the parallel phase guarantees
TAIL = '''
struct PState ps;    /* the state object of partition() (a local there; a global here) */
#define s (&ps)
void on_each_abs(void)
__CPROVER_requires(UNTOUCHED(s) && s->first == g_first0 && s->last == g_last0)
__CPROVER_ensures(ST_INV(s) && s->first == s->last)
/* every block not reported as a leftover was fully partitioned: below the meeting point all-true, above it all-false */
__CPROVER_ensures((IN(g_x, g_first0, s->first) && !IN(g_x, s->rfirst, s->rlast)) ==> g_val)
__CPROVER_ensures((IN(g_x, s->last, g_last0) && !IN(g_x, s->rfirst, s->rlast)) ==> !g_val)
__CPROVER_assigns(ps, g_val);
#undef s
It std_partition(It a, It b)
__CPROVER_requires(a <= b)          /* [a,b) must be a valid range */
__CPROVER_ensures(a <= __CPROVER_return_value && __CPROVER_return_value <= b)
__CPROVER_ensures(IN(g_x, a, b) ==> ((g_val != 0) == (g_x < __CPROVER_return_value)))
__CPROVER_ensures(!IN(g_x, a, b) ==> (g_val != 0) == (__CPROVER_old(g_val) != 0))
__CPROVER_assigns(g_val);
'''
UNITS.append(Unit(name='on_each_abs', kind='assumed', proto='void on_each_abs(void)', contract='', prelude=[],
                  says='ASSUMED: what the parallel phase of partition() establishes (from the proved step contracts of takeLow/takeHigh/update, dual_partition\'s effect on blocks, and do_all/on_each running every thread to completion): all blocks handed out (first == last), lock invariant holds, every block not reported as leftover is fully partitioned'))
UNITS.append(Unit(name='std_partition', kind='assumed', proto='It std_partition(It a, It b)', contract='', prelude=[],
                  says='ASSUMED: std::partition by the standard\'s contract: requires a valid range; returns the partition point of the rearranged range; elements outside the range untouched'))
for u in UNITS[-2:]:
    u.decl = lambda: ''
UNITS.append(Unit(
    name='partition_tail', src=PSTL, anchor=r'RandomAccessIterator partition\(RandomAccessIterator first,\s*RandomAccessIterator last, Predicate pred\)',
    proto='It partition_tail(It first, It last)',
    contract='''__CPROVER_requires(RANGE_OK && first == g_first0 && last == g_last0 && IN(g_x, first, last))
__CPROVER_ensures(first <= __CPROVER_return_value && __CPROVER_return_value <= last)
__CPROVER_ensures((g_val != 0) == (g_x < __CPROVER_return_value))
__CPROVER_assigns(g_val, ps)''',
    prelude=[PP], post_pre=TAIL, uses=['on_each_abs', 'std_partition'], inline=['PState_ctor'],
    lower=[rx(r'std::distance\(first, last\)', '(last - first)', 1, 1),
           rx(r'typedef partition_helper<RandomAccessIterator, Predicate> P;', '', 1, 1),
           rx(r'typename P::partition_helper_state s\(first, last, pred\);', 'PState_ctor(&ps, first, last);', 1, 1),
           rx(r'on_each\(P\(&s\)\);', 'on_each_abs();', 1, 1),
           rx(r'(?<![\w])s\.(\w+)', r'ps.\1', 3),
           stdfn('std::min', 'gv_min_i64', 0), stdfn('std::max', 'gv_max_i64', 0),
           fcall('std::partition', 'std_partition', 2, build=lambda a: 'std_partition(%s, %s)' % (a[0], a[1]))],
    says='partition(): the value returned is a valid partition point of the whole range for the arbitrary probe element (all elements before it satisfy pred, none after), every call to std::partition gets a valid range -- for the perfect case (no leftovers), for leftovers on one side only and on both sides',
    replay=dict(prog='partition_sched', args=[], lib=True, cxxflags=['-fno-access-control'],
                hook_headers=[('libgalois/include/galois/ParallelSTL.h', 'on_each(P(&s));', 'gv_on_each_hook(P(&s));')])))

EXPLANATION = ('The partition skeleton of ParallelSTL.h: partition_helper_state\'s constructor, takeLow, takeHigh, update (critical sections against a lock invariant with conservation of the range) '
               'and the sequential tail of partition() are extracted from /repo, lowered to C and proved; the value returned by partition() is a valid partition point for an arbitrary probe element '
               'in the perfect case, with leftovers on one side and with leftovers on both sides, and std::partition is only ever handed a valid range.')
NOT_DECIDED = ('dual_partition (block-local swapping loops), the parallel phase itself (assumed contract on_each_abs, justified by the proved step contracts), multiset/permutation preservation, '
               'sort, count_if, find_if, accumulate, map_reduce, partial_sum, destroy; the std:: algorithms themselves.')
ASSUMPTIONS = ['on_each_abs: what the parallel phase establishes (all blocks handed out; lock invariant; blocks not reported as leftover are fully partitioned)',
               'std::partition by the standard\'s contract (stub std_partition)',
               'iterators are random-access: lowered to 64-bit signed indices; range length <= 2^40',
               'the lock protecting partition_helper_state excludes (C06)']
