"""C16 -- ParallelSTL algorithms equal their std:: counterparts: the partition
skeleton.  Iterators are random-access: lowered to signed 64-bit indices into
one array; the predicate value of ONE arbitrary element (ghost probe g_x) is
tracked, std::partition is a stub with the standard's contract."""
from gv.unit import Unit
from gv.lower import (bind, ren, members, refs, call, fcall, index, stdfn, mkpair, casts, drop, dropcall, rx)

PSTL = 'libgalois/include/galois/ParallelSTL.h'
UNITS = []

PP = '''
typedef int64_t It;                       /* random-access iterator = index */
struct RP { It first, second; };          /* std::pair<It,It> */
struct PState { It first, last, rfirst, rlast; };
It g_first0, g_last0;                     /* the range partition() was called on */
It g_x; bool g_val;                       /* ghost probe: one element and the value of pred on it */
bool g_lock;                              /* partition_helper_state::Lock */
static inline void Lock_lock(void) { __CPROVER_assert(!g_lock, "lock() while not holding"); g_lock = 1; }
static inline void Lock_unlock(void) { __CPROVER_assert(g_lock, "unlock() by the holder"); g_lock = 0; }
static inline It BlockSize(void) { return 1024; }
#define IN(x, a, b) ((a) <= (x) && (x) < (b))
#define RANGE_OK (0 <= g_first0 && g_first0 <= g_last0 && g_last0 <= ((It)1 << 40))
/* lock invariant of the shared state: the untaken middle [first,last) lies inside the range; the leftover span is
   either untouched (rfirst == last0, rlast == first0 -- as the constructor leaves it) or a non-empty span inside the range */
#define UNTOUCHED(s) ((s)->rfirst == g_last0 && (s)->rlast == g_first0)
#define SPAN_OK(s) (UNTOUCHED(s) || (g_first0 <= (s)->rfirst && (s)->rfirst < (s)->rlast && (s)->rlast <= g_last0))
#define ST_INV(s) (g_first0 <= (s)->first && (s)->first <= (s)->last && (s)->last <= g_last0 && SPAN_OK(s))
'''
ST_LOWER = [members(['first', 'last', 'rfirst', 'rlast'], minimum=2),
            rx(r'Lock\.lock\(\)', 'Lock_lock()', 1, 1), rx(r'Lock\.unlock\(\)', 'Lock_unlock()', 1, 1),
            rx(r'std::distance\(self->first, self->last\)', '(self->last - self->first)', 0),
            stdfn('std::min', 'gv_min_i64', 0), stdfn('std::max', 'gv_max_i64', 0),
            rx(r'RandomAccessIterator rv', 'It rv', 0), mkpair('std::make_pair', 'struct RP', 0),
            rx(r'(low|high)\.(first|second)', r'\1.\2', 0)]
WITHIN = r'struct partition_helper_state\b'
UNITS.append(Unit(
    name='PState_ctor', src=PSTL, within=WITHIN, anchor=r'partition_helper_state\(RandomAccessIterator f, RandomAccessIterator l,\s*Predicate p\)',
    proto='void PState_ctor(struct PState* self, It f, It l)', ctor_inits=['first', 'last', 'rfirst', 'rlast'],
    contract='''__CPROVER_requires(__CPROVER_is_fresh(self, sizeof(*self)) && RANGE_OK && f == g_first0 && l == g_last0)
__CPROVER_ensures(self->first == f && self->last == l && UNTOUCHED(self) && ST_INV(self))
__CPROVER_assigns(__CPROVER_object_whole(self))''',
    prelude=[PP], says='the constructor leaves the leftover span in its "untouched" encoding (rfirst = last, rlast = first) -- the encoding the test in partition() must agree with'))
for nm, post in [('takeLow', '__CPROVER_return_value.first == __CPROVER_old(self->first) && __CPROVER_return_value.second == self->first && self->last == __CPROVER_old(self->last)'),
                 ('takeHigh', '__CPROVER_return_value.second == __CPROVER_old(self->last) && __CPROVER_return_value.first == self->last && self->first == __CPROVER_old(self->first)')]:
    UNITS.append(Unit(
        name='PState_' + nm, src=PSTL, within=WITHIN, anchor=r'RP %s\(\)' % nm, proto='struct RP PState_%s(struct PState* self)' % nm,
        contract='''__CPROVER_requires(__CPROVER_is_fresh(self, sizeof(*self)) && RANGE_OK && ST_INV(self) && !g_lock)
__CPROVER_ensures(ST_INV(self) && !g_lock && %s)
__CPROVER_ensures(__CPROVER_return_value.second - __CPROVER_return_value.first == (__CPROVER_old(self->last) - __CPROVER_old(self->first) < 1024 ? __CPROVER_old(self->last) - __CPROVER_old(self->first) : 1024))
__CPROVER_ensures(self->rfirst == __CPROVER_old(self->rfirst) && self->rlast == __CPROVER_old(self->rlast))
__CPROVER_assigns(self->first, self->last, g_lock)''' % post,
        prelude=[PP], lower=ST_LOWER, no_flags=['--conversion-check'],
        says='%s (a critical section): hands out the next block of min(1024, remaining) elements from the %s of the untaken middle; block and remaining middle partition the old middle (conservation: every element is handed out exactly once); lock released' % (nm, 'front' if nm == 'takeLow' else 'back')))
UNITS.append(Unit(
    name='PState_update', src=PSTL, within=WITHIN, anchor=r'void update\(RP low, RP high\)', proto='void PState_update(struct PState* self, struct RP low, struct RP high)',
    contract='''__CPROVER_requires(__CPROVER_is_fresh(self, sizeof(*self)) && RANGE_OK && ST_INV(self) && !g_lock)
__CPROVER_requires(g_first0 <= low.first && low.first <= low.second && low.second <= g_last0 && g_first0 <= high.first && high.first <= high.second && high.second <= g_last0)
__CPROVER_ensures(ST_INV(self) && !g_lock && self->first == __CPROVER_old(self->first) && self->last == __CPROVER_old(self->last))
__CPROVER_ensures((low.first == low.second && high.first == high.second) ==> (self->rfirst == __CPROVER_old(self->rfirst) && self->rlast == __CPROVER_old(self->rlast)))
__CPROVER_ensures(low.first != low.second ==> (self->rfirst <= low.first && low.second <= self->rlast))
__CPROVER_ensures(high.first != high.second ==> (self->rfirst <= high.first && high.second <= self->rlast))
__CPROVER_ensures(self->rfirst <= __CPROVER_old(self->rfirst) && self->rlast >= __CPROVER_old(self->rlast))
__CPROVER_assigns(self->rfirst, self->rlast, g_lock)''',
    prelude=[PP], lower=ST_LOWER,
    says='update (a critical section): the leftover span grows to contain every non-empty leftover block reported and stays either untouched or a well-formed span'))

# the sequential tail of partition(): on_each is replaced by what the parallel phase guarantees
TAIL = '''
struct PState ps;    /* the state object of partition() (a local there; a global here) */
#define s (&ps)
void on_each_abs(void)
__CPROVER_requires(UNTOUCHED(s) && s->first == g_first0 && s->last == g_last0)
__CPROVER_ensures(ST_INV(s) && s->first == s->last)
/* every block not reported as a leftover was fully partitioned: below the meeting point all-true, above it all-false */
__CPROVER_ensures((IN(g_x, g_first0, s->first) && !IN(g_x, s->rfirst, s->rlast)) ==> g_val)
__CPROVER_ensures((IN(g_x, s->last, g_last0) && !IN(g_x, s->rfirst, s->rlast)) ==> !g_val)
__CPROVER_assigns(ps, g_val);
#undef s
It std_partition(It a, It b)
__CPROVER_requires(a <= b)          /* [a,b) must be a valid range */
__CPROVER_ensures(a <= __CPROVER_return_value && __CPROVER_return_value <= b)
__CPROVER_ensures(IN(g_x, a, b) ==> ((g_val != 0) == (g_x < __CPROVER_return_value)))
__CPROVER_ensures(!IN(g_x, a, b) ==> (g_val != 0) == (__CPROVER_old(g_val) != 0))
__CPROVER_assigns(g_val);
'''
UNITS.append(Unit(name='on_each_abs', kind='assumed', proto='void on_each_abs(void)', contract='', prelude=[],
                  says='ASSUMED: what the parallel phase of partition() establishes (from the proved step contracts of takeLow/takeHigh/update, dual_partition\'s effect on blocks, and do_all/on_each running every thread to completion): all blocks handed out (first == last), lock invariant holds, every block not reported as leftover is fully partitioned'))
UNITS.append(Unit(name='std_partition', kind='assumed', proto='It std_partition(It a, It b)', contract='', prelude=[],
                  says='ASSUMED: std::partition by the standard\'s contract: requires a valid range; returns the partition point of the rearranged range; elements outside the range untouched'))
for u in UNITS[-2:]:
    u.decl = lambda: ''
UNITS.append(Unit(
    name='partition_tail', src=PSTL, anchor=r'RandomAccessIterator partition\(RandomAccessIterator first,\s*RandomAccessIterator last, Predicate pred\)',
    proto='It partition_tail(It first, It last)',
    contract='''__CPROVER_requires(RANGE_OK && first == g_first0 && last == g_last0 && IN(g_x, first, last))
__CPROVER_ensures(first <= __CPROVER_return_value && __CPROVER_return_value <= last)
__CPROVER_ensures((g_val != 0) == (g_x < __CPROVER_return_value))
__CPROVER_assigns(g_val, ps)''',
    prelude=[PP], post_pre=TAIL, uses=['on_each_abs', 'std_partition'], inline=['PState_ctor'],
    lower=[rx(r'std::distance\(first, last\)', '(last - first)', 1, 1),
           rx(r'typedef partition_helper<RandomAccessIterator, Predicate> P;', '', 1, 1),
           rx(r'typename P::partition_helper_state s\(first, last, pred\);', 'PState_ctor(&ps, first, last);', 1, 1),
           rx(r'on_each\(P\(&s\)\);', 'on_each_abs();', 1, 1),
           rx(r'(?<![\w])s\.(\w+)', r'ps.\1', 3),
           stdfn('std::min', 'gv_min_i64', 0), stdfn('std::max', 'gv_max_i64', 0),
           fcall('std::partition', 'std_partition', 2, build=lambda a: 'std_partition(%s, %s)' % (a[0], a[1]))],
    says='partition(): the value returned is a valid partition point of the whole range for the arbitrary probe element (all elements before it satisfy pred, none after), every call to std::partition gets a valid range -- for the perfect case (no leftovers), for leftovers on one side only and on both sides',
    replay=dict(prog='partition_sched', args=[], lib=True, cxxflags=['-fno-access-control'],
                hook_headers=[('libgalois/include/galois/ParallelSTL.h', 'on_each(P(&s));', 'gv_on_each_hook(P(&s));')])))


# ---- partial_sum: block bounds, per-block sums, the exclusive scan over the block sums, the add-back pass -------------------------
import re as _re
PSW = r'OutputIt partial_sum\(InputIt first, InputIt last, OutputIt d_first\)'
PSP = """
#define MAXT 16u                                  /* numBlocks = active threads: configuration bound */
#define MAXNPS ((size_t)1 << 40)
size_t sizeOfVector, numBlocks, blockSize;           /* captured by the lambdas */
uint64_t localSums[MAXT], bulkPrefix[MAXT];
uint64_t __CPROVER_uninterpreted_dval(size_t k);      /* d_first[k] after the per-block std::partial_sum */
size_t g_ps_lo, g_ps_hi, g_tr_lo, g_tr_hi; uint64_t g_tr_add; unsigned g_ps_calls, g_tr_calls;     /* ghost: the ranges handed to the std algorithms */
static inline size_t gv_min_sz(size_t a, size_t b) { return a < b ? a : b; }
static inline size_t gv_max_sz(size_t a, size_t b) { return a > b ? a : b; }
/* std::partial_sum(first + lo, first + hi, d_first + lo) / std::transform(d + lo, d + hi, d + lo, +numToAdd): the standard's algorithms on the given range (trusted); recorded */
static inline void std_partial_sum_blk(size_t lo, size_t hi) { __CPROVER_assert(lo <= hi && hi <= sizeOfVector, "std::partial_sum: a valid sub-range of the input"); g_ps_lo = lo; g_ps_hi = hi; g_ps_calls++; }
static inline void std_transform_add(size_t lo, size_t hi, uint64_t add) { __CPROVER_assert(lo <= hi && hi <= sizeOfVector, "std::transform: a valid sub-range of the output"); g_tr_lo = lo; g_tr_hi = hi; g_tr_add = add; g_tr_calls++; }
#define DVAL(k) __CPROVER_uninterpreted_dval(k)
/* the block division the code uses: block b is [min(b*bs, n), min((b+1)*bs, n)) */
#define BLO(b) ((b) * blockSize < sizeOfVector ? (b) * blockSize : sizeOfVector)
#define PS_SHAPE (numBlocks >= 1 && numBlocks <= MAXT && sizeOfVector >= 1 && sizeOfVector <= MAXNPS && blockSize >= 1 && blockSize <= MAXNPS && numBlocks * blockSize >= sizeOfVector && (numBlocks - 1) * blockSize <= sizeOfVector + numBlocks * MAXT)
"""
PS_L1 = [stdfn('std::min', 'gv_min_sz', 2), rx(r'assert\(blockStart <= blockEnd\);', '__CPROVER_assert(blockStart <= blockEnd, "code-assert: blockStart <= blockEnd");', 1, 1),
         rx(r'std::partial_sum\(first \+ blockStart, first \+ blockEnd,\s*d_first \+ blockStart\);', 'std_partial_sum_blk(blockStart, blockEnd);', 1, 1),
         rx(r'\*\(d_first \+ blockEnd - 1\)', 'DVAL(blockEnd - 1)', 1, 1)]
UNITS.append(Unit(
    name='PS_block_sums', src=PSTL, within=PSW, anchor=r'\[&\]\(const size_t& block\)', occurrence=0, of=2, proto='void PS_block_sums(size_t block)',
    contract="""__CPROVER_requires(PS_SHAPE && block < numBlocks && g_ps_calls == 0)
/* exactly one std::partial_sum, on exactly this block's range; the block's last running sum is saved */
__CPROVER_ensures(g_ps_calls == 1 && g_ps_lo == BLO(block) && g_ps_hi == BLO(block + 1) && g_ps_lo <= g_ps_hi)
__CPROVER_ensures(localSums[block] == (BLO(block + 1) > 0 ? DVAL(BLO(block + 1) - 1) : 0))
__CPROVER_assigns(localSums[block], g_ps_lo, g_ps_hi, g_ps_calls)""",
    prelude=[PSP], lower=PS_L1, no_flags=['--conversion-check'], timeout=1200, inst='ValueType = uint64_t, random-access iterators as indices',
    says='partial_sum, first pass, one block: the standard partial_sum runs on exactly [min(b*bs,n), min((b+1)*bs,n)) and the block\'s last running sum is recorded; the code\'s assertion holds'))
UNITS.append(Unit(
    name='PS_block_add', src=PSTL, within=PSW, anchor=r'\[&\]\(const size_t& block\)', occurrence=1, of=2, proto='void PS_block_add(size_t block)',
    contract="""__CPROVER_requires(PS_SHAPE && block < numBlocks && g_tr_calls == 0)
__CPROVER_ensures(g_tr_calls == 1 && g_tr_lo == BLO(block) && g_tr_hi == BLO(block + 1) && g_tr_add == bulkPrefix[block])
__CPROVER_assigns(g_tr_lo, g_tr_hi, g_tr_add, g_tr_calls)""",
    prelude=[PSP], lower=[stdfn('std::min', 'gv_min_sz', 2), rx(r'assert\(blockStart <= blockEnd\);', '__CPROVER_assert(blockStart <= blockEnd, "code-assert: blockStart <= blockEnd");', 1, 1), rx(r'ValueType numToAdd', 'uint64_t numToAdd', 1, 1),
           rx(r'std::transform\(d_first \+ blockStart, d_first \+ blockEnd,\s*d_first \+ blockStart,\s*\[&\]\(ValueType& val\) \{ return val \+ numToAdd; \}\);', 'std_transform_add(blockStart, blockEnd, numToAdd);', 1, 1, flags=_re.S)],
    no_flags=['--conversion-check'], timeout=1200, inst='ValueType = uint64_t',
    says='partial_sum, second pass, one block: the block\'s offset bulkPrefix[b] is added to exactly the block\'s range'))
UNITS.append(Unit(
    name='lemma_ps_blocks', kind='lemma', prelude=[PSP],
    harness="""
  size_t b; __CPROVER_assume(PS_SHAPE && b < numBlocks - 1);
  __CPROVER_assert(BLO(0) == 0, "the first block starts at 0");
  __CPROVER_assert(BLO(numBlocks) == sizeOfVector, "the last block ends at n (numBlocks * blockSize >= n)");
  __CPROVER_assert(BLO(b) <= BLO(b + 1) && BLO(b + 1) <= BLO(b + 2), "consecutive blocks are ordered and share their boundary (block b ends where block b+1 starts, by definition)");
""",
    says='the blocks [BLO(b), BLO(b+1)) for b = 0..numBlocks-1 are ordered, adjacent, start at 0 and end at n: they partition the input'))
UNITS.append(Unit(
    name='PS_blocksize', src=PSTL, anchor=PSW, proto='size_t PS_blocksize(void)',
    contract="""__CPROVER_requires(numBlocks >= 1 && numBlocks <= MAXT && sizeOfVector >= 1 && sizeOfVector <= MAXNPS)
__CPROVER_ensures(__CPROVER_return_value >= 1 && numBlocks * __CPROVER_return_value >= sizeOfVector && (__CPROVER_return_value - 1) * numBlocks < sizeOfVector)
__CPROVER_assigns()""",
    prelude=[PSP.replace('size_t sizeOfVector, numBlocks, blockSize;', 'size_t sizeOfVector, numBlocks;')],
    lower=[rx(r'\A.*?const size_t numBlocks = galois::getActiveThreads\(\);(.*?)std::vector<ValueType> localSums.*\Z', r'\1 return blockSize;', 1, 1, flags=_re.S),   # everything between the thread count and the first pass
           rx(r'assert\(([^;]*)\);', r'__CPROVER_assert(\1, "code-assert in the block-size computation");', 0), rx(r'constexpr ', 'const ', 0), rx(r'std::max<size_t>\(', 'gv_max_sz(', 0), rx(r'std::min<size_t>\(', 'gv_min_sz(', 0),
           rx(r'substrate::GALOIS_CACHE_LINE_SIZE', '((size_t)128)', 0), rx(r'sizeof\(ValueType\)', 'sizeof(uint64_t)', 0)],
    no_flags=['--conversion-check'], timeout=600, inst='numBlocks <= 16',
    says='the block size is ceil(n / numBlocks): numBlocks blocks of that size cover the input (the code\'s own assertion) and no smaller size would',
    trusted=['S-slice: only the block-size computation and its assertion are taken from the function body']))
UNITS.append(Unit(
    name='PS_scan', src=PSTL, anchor=PSW, proto='void PS_scan(void)',
    contract="""__CPROVER_requires(numBlocks >= 1 && numBlocks <= MAXT && g_b < MAXT)
/* ghost: g_pre[i] = sum of localSums[0..i) (64-bit wrap-around arithmetic, as the code) */
__CPROVER_requires(g_pre[0] == 0 && __CPROVER_forall { unsigned q; (q < MAXT) ==> g_pre[q + 1] == g_pre[q] + localSums[q] })
__CPROVER_ensures(g_b < numBlocks ==> bulkPrefix[g_b] == g_pre[g_b])
__CPROVER_assigns(__CPROVER_object_whole(bulkPrefix))""",
    prelude=[PSP, 'uint64_t g_pre[MAXT + 1]; unsigned g_b;   /* ghost prefix sums / probe block */\n'],
    lower=[rx(r'\A.*?(ValueType runningSum = 0;\s*for \(size_t i = 0; i < numBlocks; i\+\+\) \{.*?\n    \}).*\Z', r'\1', 1, 1, flags=_re.S), rx(r'ValueType runningSum', 'uint64_t runningSum', 1, 1)],
    loops={1: '__CPROVER_assigns(i, runningSum, __CPROVER_object_whole(bulkPrefix))\n__CPROVER_loop_invariant(i <= numBlocks && numBlocks <= MAXT && runningSum == g_pre[i] && (g_b < i ==> bulkPrefix[g_b] == g_pre[g_b]))\n__CPROVER_decreases(numBlocks - i)'},
    fallback_unwind=18, no_flags=['--conversion-check'], inst='ValueType = uint64_t, numBlocks <= 16',
    says='the exclusive scan over the block sums: bulkPrefix[b] = sum of the block sums before b, for an arbitrary block',
    trusted=['S-slice: only the scan loop is taken from the function body']))

EXPLANATION = ('partial_sum: the block size (ceil(n/numBlocks), the code\'s assertion), the two per-block passes (the std algorithms run on exactly the block\'s range; the block sum recorded; the offset added), the exclusive scan over the block sums, and a lemma that the blocks partition the input.  The partition skeleton of ParallelSTL.h: partition_helper_state\'s constructor, takeLow, takeHigh, update (critical sections against a lock invariant with conservation of the range) '
               'and the sequential tail of partition() are extracted from /repo, lowered to C and proved; the value returned by partition() is a valid partition point for an arbitrary probe element '
               'in the perfect case, with leftovers on one side and with leftovers on both sides, and std::partition is only ever handed a valid range.')
NOT_DECIDED = ('partial_sum: the composition "result == std::partial_sum" (per-pass facts are proved, std::partial_sum/std::transform and do_all are trusted, the sum of the pieces is a hand-made step); dual_partition (block-local swapping loops), the parallel phase itself (assumed contract on_each_abs, justified by the proved step contracts), multiset/permutation preservation, '
               'sort, count_if, find_if, accumulate, map_reduce, partial_sum, destroy; the std:: algorithms themselves.')
ASSUMPTIONS = ['on_each_abs: what the parallel phase establishes (all blocks handed out; lock invariant; blocks not reported as leftover are fully partitioned)',
               'std::partition by the standard\'s contract (stub std_partition)',
               'iterators are random-access: lowered to 64-bit signed indices; range length <= 2^40',
               'the lock protecting partition_helper_state excludes (C06)']
