"""C14 -- Galois sequential containers behave like their standard counterparts.
Covered here: FixedSizeRing (every non-range operation + its iterator),
FixedSizeBag and ConcurrentFixedSizeBag used from one thread (FixedSizeRing.h).
Element type: an opaque 64-bit token; LazyArray<T,N>::emplace/destroy are an
array store plus a ghost live[slot] bit with the obligations "emplace on a dead
slot, destroy on a live slot" (construct / destroy exactly once)."""
from gv.unit import Unit
from gv.lower import (bind, ren, members, refs, call, fcall, index, stdfn, mkpair, casts, drop, dropcall, rx)

FSR = 'libgalois/include/galois/FixedSizeRing.h'
UNITS = []

FWD = [rx(r'std::forward<Args>\(args\)\.\.\.', 'v', 0), rx(r'std::forward<U>\(val\)', 'val', 0)]


def ring_prelude(CS):
    return '''
#define ChunkSize %du
typedef uint64_t gv_elem;
struct Ring { gv_elem datac[ChunkSize]; bool live[ChunkSize]; unsigned start, count; };
unsigned gj;   /* ghost probe POSITION in the abstract sequence */
#define VIEW(r, j) ((r)->datac[((r)->start + (j)) %% ChunkSize])
#define INWIN(r, s) ((((s) + ChunkSize - (r)->start) %% ChunkSize) < (r)->count)
/* representation invariant: window inside the ring; a slot is constructed iff it is in the window */
#define RING_INV(r) ((r)->start < ChunkSize && (r)->count <= ChunkSize && __CPROVER_forall { unsigned s_; (s_ < ChunkSize) ==> ((r)->live[s_] == INWIN(r, s_)) })
#define RING_OK(r) (__CPROVER_is_fresh(r, sizeof(*(r))) && RING_INV(r))
static inline gv_elem* la_emplace(struct Ring* r, unsigned i, gv_elem v)
{ __CPROVER_assert(i < ChunkSize, "LazyArray slot in range"); __CPROVER_assert(!r->live[i], "emplace on a dead slot (construct once)"); r->live[i] = 1; r->datac[i] = v; return &r->datac[i]; }
static inline void la_destroy(struct Ring* r, unsigned i)
{ __CPROVER_assert(i < ChunkSize, "LazyArray slot in range"); __CPROVER_assert(r->live[i], "destroy on a live slot (destroy once)"); r->live[i] = 0; }
static inline gv_elem* la_at(struct Ring* r, unsigned i) { __CPROVER_assert(i < ChunkSize, "LazyArray slot in range"); return &r->datac[i]; }
struct RingIt { gv_elem* base; unsigned cur; unsigned count; };
''' % CS


RING_LOWER = [members(['start', 'count'], minimum=1),
              rx(r'datac\.emplace\(', 'la_emplace(self, ', 0), rx(r'datac\.destroy\(', 'la_destroy(self, ', 0),
              rx(r'(?<![\w.>])at\(', 'la_at(self, ', 0),
              rx(r'(?<![\w.>])(full|empty|precondition)\(\)', r'Ring_\1(self)', 0)] + FWD
ASG = '__CPROVER_assigns(__CPROVER_object_whole(self))'

for CS in (1, 3, 4, 64):
    P = [ring_prelude(CS)]
    sfx = '_%d' % CS

    def R(name, anchor, proto, contract, says, uses=(), extra=(), loops=None, occurrence=None, of=None, ghost_prefix='', fallback_unwind=None):
        UNITS.append(Unit(
            name=name + sfx, src=FSR, within=r'class FixedSizeRing\b', anchor=anchor, occurrence=occurrence, of=of,
            proto=proto.replace('@', sfx), contract=contract, prelude=P, uses=[u + sfx for u in uses],
            lower=RING_LOWER + [rx(r'Ring_(full|empty|precondition)\(self\)', r'Ring_\1%s(self)' % sfx, 0)] + list(extra),
            loops=loops or {}, ghost_prefix=ghost_prefix, fallback_unwind=fallback_unwind,
            inst='T = opaque 64-bit token, ChunkSize = %d' % CS, says=says))

    R('Ring_precondition', r'bool precondition\(\) const', 'bool Ring_precondition@(const struct Ring* self)',
      '__CPROVER_requires(__CPROVER_is_fresh(self, sizeof(*self)))\n__CPROVER_ensures(__CPROVER_return_value == (self->count <= ChunkSize && self->start <= ChunkSize))\n__CPROVER_assigns()',
      'the class\'s own precondition predicate')
    for nm, expr in [('full', 'self->count == ChunkSize'), ('empty', 'self->count == 0')]:
        R('Ring_' + nm, r'bool %s\(\) const' % nm, 'bool Ring_%s@(const struct Ring* self)' % nm,
          '__CPROVER_requires(RING_OK(self))\n__CPROVER_ensures(__CPROVER_return_value == (%s))\n__CPROVER_assigns()' % expr,
          '%s() <=> %s' % (nm, expr), uses=['Ring_precondition'])
    R('Ring_size', r'unsigned size\(\) const', 'unsigned Ring_size@(const struct Ring* self)',
      '__CPROVER_requires(RING_OK(self))\n__CPROVER_ensures(__CPROVER_return_value == self->count)\n__CPROVER_assigns()', 'size() is the length of the sequence', uses=['Ring_precondition'])
    R('Ring_emplace_front', r'pointer emplace_front\(Args&&\.\.\. args\)', 'gv_elem* Ring_emplace_front@(struct Ring* self, gv_elem v)',
      '''__CPROVER_requires(RING_OK(self))
__CPROVER_ensures(RING_INV(self))
__CPROVER_ensures(__CPROVER_old(self->count) == ChunkSize ==> (__CPROVER_return_value == 0 && self->count == ChunkSize && self->start == __CPROVER_old(self->start) && (gj < ChunkSize ==> VIEW(self, gj) == __CPROVER_old(VIEW(self, gj)))))
__CPROVER_ensures(__CPROVER_old(self->count) < ChunkSize ==> (self->count == __CPROVER_old(self->count) + 1 && VIEW(self, 0) == v && __CPROVER_return_value == &VIEW(self, 0)))
__CPROVER_ensures((__CPROVER_old(self->count) < ChunkSize && gj < __CPROVER_old(self->count)) ==> VIEW(self, gj + 1) == __CPROVER_old(VIEW(self, gj)))
''' + ASG, 'push/emplace_front: a full ring returns null and is unchanged; otherwise the new sequence is v followed by the old sequence, the element is constructed exactly once in a dead slot', uses=['Ring_full'])
    R('Ring_emplace_back', r'pointer emplace_back\(Args&&\.\.\. args\)', 'gv_elem* Ring_emplace_back@(struct Ring* self, gv_elem v)',
      '''__CPROVER_requires(RING_OK(self))
__CPROVER_ensures(RING_INV(self) && self->start == __CPROVER_old(self->start))
__CPROVER_ensures(__CPROVER_old(self->count) == ChunkSize ==> (__CPROVER_return_value == 0 && self->count == ChunkSize))
__CPROVER_ensures(__CPROVER_old(self->count) < ChunkSize ==> (self->count == __CPROVER_old(self->count) + 1 && VIEW(self, self->count - 1) == v && __CPROVER_return_value == &VIEW(self, self->count - 1)))
__CPROVER_ensures(gj < __CPROVER_old(self->count) ==> VIEW(self, gj) == __CPROVER_old(VIEW(self, gj)))
''' + ASG, 'push/emplace_back: full ring returns null and is unchanged; otherwise the new sequence is the old sequence followed by v', uses=['Ring_full'])
    R('Ring_pop_front', r'void pop_front\(\)', 'void Ring_pop_front@(struct Ring* self)',
      '''__CPROVER_requires(RING_OK(self) && self->count >= 1)
__CPROVER_ensures(RING_INV(self) && self->count == __CPROVER_old(self->count) - 1)
__CPROVER_ensures((gj < ChunkSize && gj + 1 < __CPROVER_old(self->count)) ==> VIEW(self, gj) == __CPROVER_old(VIEW(self, gj + 1)))
''' + ASG, 'pop_front drops the first element (destroyed exactly once), the rest of the sequence is unchanged and shifted by one', uses=['Ring_precondition', 'Ring_empty'])
    R('Ring_pop_back', r'void pop_back\(\)', 'void Ring_pop_back@(struct Ring* self)',
      '''__CPROVER_requires(RING_OK(self) && self->count >= 1)
__CPROVER_ensures(RING_INV(self) && self->count == __CPROVER_old(self->count) - 1 && self->start == __CPROVER_old(self->start))
__CPROVER_ensures((gj < ChunkSize && gj + 1 < __CPROVER_old(self->count)) ==> VIEW(self, gj) == __CPROVER_old(VIEW(self, gj)))
''' + ASG, 'pop_back drops the last element (destroyed exactly once), the rest is unchanged', uses=['Ring_precondition', 'Ring_empty'])
    R('Ring_front', r'(?<!const_)reference front\(\)', 'gv_elem* Ring_front@(struct Ring* self)',
      '__CPROVER_requires(RING_OK(self) && self->count >= 1)\n__CPROVER_ensures(__CPROVER_return_value == &VIEW(self, 0) && self->live[self->start])\n__CPROVER_assigns()',
      'front() is the first element of the sequence (a constructed slot)', uses=['Ring_precondition', 'Ring_empty'], extra=[rx(r'return \*la_at', 'return la_at', 1, 1)])
    R('Ring_back', r'(?<!const_)reference back\(\)', 'gv_elem* Ring_back@(struct Ring* self)',
      '__CPROVER_requires(RING_OK(self) && self->count >= 1)\n__CPROVER_ensures(__CPROVER_return_value == &VIEW(self, self->count - 1) && self->live[(self->start + self->count - 1) % ChunkSize])\n__CPROVER_assigns()',
      'back() is the last element of the sequence (a constructed slot)', uses=['Ring_precondition', 'Ring_empty'], extra=[rx(r'return \*la_at', 'return la_at', 1, 1)])
    R('Ring_getAt', r'(?<!const_)reference getAt\(unsigned x\)', 'gv_elem* Ring_getAt@(struct Ring* self, unsigned x)',
      '__CPROVER_requires(RING_OK(self) && x < self->count)\n__CPROVER_ensures(__CPROVER_return_value == &VIEW(self, x) && self->live[(self->start + x) % ChunkSize])\n__CPROVER_assigns()',
      'getAt(x) is element x of the sequence for x < size()', uses=['Ring_precondition', 'Ring_empty'], extra=[rx(r'return \*la_at', 'return la_at', 1, 1)])
    R('Ring_clear', r'void clear\(\)', 'void Ring_clear@(struct Ring* self)',
      '''__CPROVER_requires(RING_OK(self))
__CPROVER_ensures(RING_INV(self) && self->count == 0 && self->start == 0)
''' + ASG, 'clear() destroys every element exactly once and leaves the empty sequence', uses=['Ring_precondition'],
      ghost_prefix='const unsigned c0 = self->count, s0 = self->start;', fallback_unwind=CS + 2,
      loops={1: '''
__CPROVER_assigns(x, __CPROVER_object_whole(self))
__CPROVER_loop_invariant(x <= self->count && self->count == c0 && self->start == s0 && s0 < ChunkSize && c0 <= ChunkSize)
__CPROVER_loop_invariant(__CPROVER_forall { unsigned t_; (t_ < ChunkSize) ==> (self->live[t_] == ((((t_ + ChunkSize - s0) % ChunkSize) < c0) && (((t_ + ChunkSize - s0) % ChunkSize) >= x))) })
__CPROVER_decreases(c0 - x)
'''})
    R('Ring_begin', r'(?<![\w_])iterator begin\(\)', 'struct RingIt Ring_begin@(struct Ring* self)',
      '__CPROVER_requires(RING_OK(self))\n__CPROVER_ensures(__CPROVER_return_value.base == &self->datac[0] && __CPROVER_return_value.cur == self->start && __CPROVER_return_value.count == self->count)\n__CPROVER_assigns()',
      'begin() designates position 0 with size() elements to go', extra=[rx(r'iterator\(', '(struct RingIt){', 1, 1), rx(r'count\);', 'count};', 1, 1)])
    R('Ring_end', r'(?<![\w_])iterator end\(\)', 'struct RingIt Ring_end@(struct Ring* self)',
      '__CPROVER_requires(RING_OK(self))\n__CPROVER_ensures(__CPROVER_return_value.base == &self->datac[0] && __CPROVER_return_value.cur == (self->start + self->count) % ChunkSize && __CPROVER_return_value.count == 0)\n__CPROVER_assigns()',
      'end() designates the position one past the last element, nothing to go', extra=[rx(r'iterator\(', '(struct RingIt){', 1, 1), rx(r', 0\);', ', 0};', 1, 1)])

# ---------------------------------------------------------------------------
# FixedSizeRing::Iterator
for CS in (1, 3, 4, 64):
    P = [ring_prelude(CS)]
    sfx = '_%d' % CS
    IT_OK = '__CPROVER_is_fresh(self, sizeof(*self)) && self->base != 0 && self->cur < ChunkSize && self->count <= ChunkSize'

    def I(name, anchor, proto, contract, says, extra=(), no_flags=()):
        UNITS.append(Unit(
            name=name + sfx, src=FSR, within=r'class Iterator\b', anchor=anchor, proto=proto.replace('@', sfx), contract=contract, prelude=P,
            lower=[members(['base', 'cur', 'count'], minimum=1)] + list(extra), no_flags=list(no_flags),
            inst='ChunkSize = %d' % CS, says=says))
    I('RingIt_increment', r'void increment\(\)', 'void RingIt_increment@(struct RingIt* self)',
      '__CPROVER_requires(%s && self->count != 0)\n__CPROVER_ensures(self->cur == (__CPROVER_old(self->cur) + 1) %% ChunkSize && self->count == __CPROVER_old(self->count) - 1 && self->base == __CPROVER_old(self->base))\n__CPROVER_assigns(self->cur, self->count)' % IT_OK,
      '++it moves to the next ring slot, one element less to go')
    I('RingIt_decrement', r'void decrement\(\)', 'void RingIt_decrement@(struct RingIt* self)',
      '__CPROVER_requires(%s && self->count < ChunkSize)\n__CPROVER_ensures(self->cur == (__CPROVER_old(self->cur) + ChunkSize - 1) %% ChunkSize && self->count == __CPROVER_old(self->count) + 1 && self->base == __CPROVER_old(self->base))\n__CPROVER_assigns(self->cur, self->count)' % IT_OK,
      '--it moves to the previous ring slot, one element more to go')
    I('RingIt_advance', r'void advance\(ptrdiff_t x\)', 'void RingIt_advance@(struct RingIt* self, ptrdiff_t x)',
      '__CPROVER_requires(%s && -(ptrdiff_t)ChunkSize <= x && x <= (ptrdiff_t)ChunkSize && (ptrdiff_t)self->count - x >= 0 && (ptrdiff_t)self->count - x <= (ptrdiff_t)ChunkSize)\n'
      '__CPROVER_ensures((ptrdiff_t)self->count == (ptrdiff_t)__CPROVER_old(self->count) - x && (ptrdiff_t)self->cur == ((ptrdiff_t)__CPROVER_old(self->cur) + (ptrdiff_t)ChunkSize + x) %% (ptrdiff_t)ChunkSize && self->cur < ChunkSize)\n__CPROVER_assigns(self->cur, self->count)' % IT_OK,
      'it += x for |x| <= ChunkSize inside the sequence: x slots forward (backward), x elements less (more) to go', no_flags=['--conversion-check'])
    I('RingIt_distance_to', r'ptrdiff_t distance_to\(const Iterator& o\) const', 'ptrdiff_t RingIt_distance_to@(const struct RingIt* self, const struct RingIt* o)',
      '__CPROVER_requires(%s && __CPROVER_is_fresh(o, sizeof(*o)) && o->count <= ChunkSize)\n__CPROVER_ensures(__CPROVER_return_value == (ptrdiff_t)self->count - (ptrdiff_t)o->count)\n__CPROVER_assigns()' % IT_OK,
      'o - it is the difference of the elements-to-go counters', extra=[rx(r'o\.count', 'o->count', 1, 1)])
    I('RingIt_dereference', r'U& dereference\(\) const', 'gv_elem* RingIt_dereference@(const struct RingIt* self)',
      '__CPROVER_requires(%s && __CPROVER_is_fresh(self->base, ChunkSize * sizeof(gv_elem)))\n__CPROVER_ensures(__CPROVER_return_value == &self->base[self->cur])\n__CPROVER_assigns()' % IT_OK,
      '*it is the slot the iterator designates', extra=[rx(r'return self->base\[self->cur\];', 'return &self->base[self->cur];', 1, 1)])
    # lemmas over the iterator CONTRACTS
    UNITS.append(Unit(
        name='lemma_ringit_roundtrip' + sfx, kind='lemma', prelude=P, uses=['RingIt_increment' + sfx, 'RingIt_decrement' + sfx],
        harness='''
  struct RingIt it; gv_elem arr[ChunkSize];
  it.base = arr; __CPROVER_assume(it.cur < ChunkSize && it.count <= ChunkSize && it.count != 0);
  struct RingIt it0 = it;
  RingIt_increment%(s)s(&it);
  RingIt_decrement%(s)s(&it);
  __CPROVER_assert(it.cur == it0.cur && it.count == it0.count && it.base == it0.base, "--(++it) == it: forward and backward traversal are consistent");
  struct RingIt jt; jt.base = arr; __CPROVER_assume(jt.cur < ChunkSize && jt.count < ChunkSize);
  struct RingIt jt0 = jt;
  RingIt_decrement%(s)s(&jt);
  RingIt_increment%(s)s(&jt);
  __CPROVER_assert(jt.cur == jt0.cur && jt.count == jt0.count, "++(--it) == it");
''' % dict(s=sfx), says='forward and backward traversal are consistent: ++ and -- are mutually inverse'))
    UNITS.append(Unit(
        name='lemma_ring_begin_end' + sfx, kind='lemma', prelude=P, uses=['Ring_begin' + sfx, 'Ring_end' + sfx, 'RingIt_advance' + sfx],
        harness='''
  struct Ring* r = malloc(sizeof(struct Ring)); __CPROVER_assume(r != 0);
  __CPROVER_assume(RING_INV(r));
  struct RingIt b = Ring_begin%(s)s(r);
  struct RingIt e = Ring_end%(s)s(r);
  RingIt_advance%(s)s(&b, (ptrdiff_t)r->count);
  __CPROVER_assert(b.base == e.base && b.cur == e.cur && b.count == e.count, "begin() + size() == end(): iteration visits exactly size() elements");
''' % dict(s=sfx), says='begin() advanced by size() equals end(): iteration yields exactly the sequence'))

# ---------------------------------------------------------------------------
# FixedSizeBagBase<T, ChunkSize, false>  (FixedSizeBag)  and
# FixedSizeBagBase<T, ChunkSize, true>   (ConcurrentFixedSizeBag) used from ONE
# thread: its counter is a std::atomic lowered through the interference stub
# with the rely "nobody else touches the counter" (single-thread use, which is
# what C14 is about).
def bag_prelude(CS, conc):
    return ('#define GV_RELY_EXPR(o, n) ((n) == (o))   /* used from one thread */\n#include "gv_atomic.h"\n' if conc else '') + '''
#define ChunkSize %du
typedef uint64_t gv_elem;
struct Bag { gv_elem datac[ChunkSize]; bool live[ChunkSize]; %s count; };
unsigned gj;   /* ghost probe slot */
#define CNT(b) %s
/* representation invariant: the first count slots are constructed, no other */
#define BAG_INV(b) (CNT(b) <= ChunkSize && __CPROVER_forall { unsigned s_; (s_ < ChunkSize) ==> ((b)->live[s_] == (s_ < CNT(b))) })
#define BAG_OK(b) (__CPROVER_is_fresh(b, sizeof(*(b))) && BAG_INV(b))
static inline gv_elem* la_emplace(struct Bag* r, unsigned i, gv_elem v)
{ __CPROVER_assert(i < ChunkSize, "LazyArray slot in range"); __CPROVER_assert(!r->live[i], "emplace on a dead slot (construct once)"); r->live[i] = 1; r->datac[i] = v; return &r->datac[i]; }
static inline void la_destroy(struct Bag* r, unsigned i)
{ __CPROVER_assert(i < ChunkSize, "LazyArray slot in range"); __CPROVER_assert(r->live[i], "destroy on a live slot (destroy once)"); r->live[i] = 0; }
static inline gv_elem* la_at(struct Bag* r, unsigned i) { __CPROVER_assert(i < ChunkSize, "LazyArray slot in range"); return &r->datac[i]; }
''' % (CS, 'gv_atomic' if conc else 'unsigned', '((unsigned)(b)->count.v)' if conc else '((b)->count)')


for CS in (1, 4, 64):
    sfx = '_%d' % CS
    # ---- sequential bag
    P = [bag_prelude(CS, False)]
    BL = [members(['count'], minimum=1), rx(r'datac\.emplace\(', 'la_emplace(self, ', 0), rx(r'datac\.destroy\(', 'la_destroy(self, ', 0),
          rx(r'(?<![\w.>])at\(', 'la_at(self, ', 0), rx(r'(?<![\w.>])(full|empty|precondition)\(\)', r'Bag_\1%s(self)' % sfx, 0)] + FWD

    def B(name, anchor, proto, contract, says, uses=(), extra=(), loops=None, occurrence=None, of=None, ghost_prefix='', fallback_unwind=None):
        UNITS.append(Unit(
            name=name + sfx, src=FSR, within=r'class FixedSizeBagBase\b', anchor=anchor, occurrence=occurrence, of=of,
            proto=proto.replace('@', sfx), contract=contract, prelude=P, uses=[u + sfx for u in uses], lower=BL + list(extra),
            loops=loops or {}, ghost_prefix=ghost_prefix, fallback_unwind=fallback_unwind,
            inst='FixedSizeBag<T, %d>, T = opaque 64-bit token' % CS, says=says))
    B('Bag_precondition', r'bool precondition\(\) const', 'bool Bag_precondition@(const struct Bag* self)',
      '__CPROVER_requires(__CPROVER_is_fresh(self, sizeof(*self)))\n__CPROVER_ensures(__CPROVER_return_value == (self->count <= ChunkSize))\n__CPROVER_assigns()', 'the class\'s own precondition predicate')
    for nm, expr in [('full', 'self->count == ChunkSize'), ('empty', 'self->count == 0')]:
        B('Bag_' + nm, r'bool %s\(\) const' % nm, 'bool Bag_%s@(const struct Bag* self)' % nm,
          '__CPROVER_requires(BAG_OK(self))\n__CPROVER_ensures(__CPROVER_return_value == (%s))\n__CPROVER_assigns()' % expr, '%s() <=> %s' % (nm, expr), uses=['Bag_precondition'])
    B('Bag_emplace_front', r'auto emplace_front\(Args&&\.\.\. args\) ->', 'gv_elem* Bag_emplace_front@(struct Bag* self, gv_elem v)',
      '''__CPROVER_requires(BAG_OK(self) && gj < ChunkSize)
__CPROVER_ensures(BAG_INV(self))
__CPROVER_ensures(__CPROVER_old(self->count) == ChunkSize ==> (__CPROVER_return_value == 0 && self->count == ChunkSize))
__CPROVER_ensures(__CPROVER_old(self->count) < ChunkSize ==> (self->count == __CPROVER_old(self->count) + 1 && self->datac[self->count - 1] == v && __CPROVER_return_value == &self->datac[self->count - 1]))
__CPROVER_ensures((gj < ChunkSize && gj < __CPROVER_old(self->count)) ==> self->datac[gj] == __CPROVER_old(self->datac[gj]))
__CPROVER_assigns(__CPROVER_object_whole(self))''', 'push/emplace on the bag (a stack): full bag returns null unchanged; otherwise v becomes the top, everything below is unchanged, constructed exactly once', uses=['Bag_full'])
    B('Bag_pop_front', r'auto pop_front\(\) -> typename std::enable_if<!C, bool>::type', 'bool Bag_pop_front@(struct Bag* self)',
      '''__CPROVER_requires(BAG_OK(self) && gj < ChunkSize)
__CPROVER_ensures(BAG_INV(self))
__CPROVER_ensures(__CPROVER_return_value == (__CPROVER_old(self->count) != 0) && self->count == (__CPROVER_old(self->count) != 0 ? __CPROVER_old(self->count) - 1 : 0))
__CPROVER_ensures((gj < ChunkSize && gj < self->count) ==> self->datac[gj] == __CPROVER_old(self->datac[gj]))
__CPROVER_assigns(__CPROVER_object_whole(self))''', 'pop: removes (and destroys exactly once) the top element if there is one and says whether it did; everything below is unchanged')
    B('Bag_front', r'(?<!const_)reference front\(\)', 'gv_elem* Bag_front@(struct Bag* self)',
      '__CPROVER_requires(BAG_OK(self) && self->count >= 1)\n__CPROVER_ensures(__CPROVER_return_value == &self->datac[self->count - 1] && self->live[self->count - 1])\n__CPROVER_assigns()',
      'front()/back() is the most recently pushed element still in the bag', uses=['Bag_precondition', 'Bag_empty'], extra=[rx(r'return \*la_at', 'return la_at', 1, 1)])
    B('Bag_clear', r'void clear\(\)', 'void Bag_clear@(struct Bag* self)',
      '__CPROVER_requires(BAG_OK(self))\n__CPROVER_ensures(BAG_INV(self) && self->count == 0)\n__CPROVER_assigns(__CPROVER_object_whole(self))',
      'clear() destroys every element exactly once', uses=['Bag_precondition'], ghost_prefix='const unsigned c0 = self->count;', fallback_unwind=CS + 2,
      loops={1: '''
__CPROVER_assigns(x, __CPROVER_object_whole(self))
__CPROVER_loop_invariant(x <= self->count && self->count == c0 && c0 <= ChunkSize)
__CPROVER_loop_invariant(__CPROVER_forall { unsigned t_; (t_ < ChunkSize) ==> (self->live[t_] == (x <= t_ && t_ < c0)) })
__CPROVER_decreases(c0 - x)
'''})
    # ---- concurrent bag used from one thread
    PC = [bag_prelude(CS, True)]
    CL = [casts(0), ren('std::memory_order_relaxed', 'memory_order_relaxed'), rx(r'datac\.emplace\(', 'la_emplace(self, ', 0), rx(r'datac\.destroy\(', 'la_destroy(self, ', 0),
          rx(r'(?<![\w.>])count\.load\(', '(unsigned)gv_load(&self->count, ', 1, 1),
          rx(r'(?<![\w.>])count\.compare_exchange_weak\(top, ([^()]+)\)', r'gv_cas_weak_u32(&self->count, &top, \1, memory_order_seq_cst)', 1, 1)]
    CASG = '__CPROVER_assigns(__CPROVER_object_whole(self), g_lin_count, g_lin_old, g_lin_new, g_last_read, g_last_load_order, g_last_write_order)'
    LOOP = {1: '''
__CPROVER_assigns(top, __CPROVER_object_whole(self), g_lin_count, g_lin_old, g_lin_new, g_last_read, g_last_load_order, g_last_write_order)
__CPROVER_loop_invariant(g_lin_count == 0 && self->count.v == c0 && __CPROVER_forall { unsigned t_; (t_ < ChunkSize) ==> (self->live[t_] == (t_ < c0)) } && (gj < ChunkSize ==> self->datac[gj] == d0))
'''}
    UNITS.append(Unit(
        name='CBag_push_front' + sfx, src=FSR, within=r'class FixedSizeBagBase\b', anchor=r'auto push_front\(const value_type& val\) ->',
        proto='gv_elem* CBag_push_front%s(struct Bag* self, gv_elem val)' % sfx,
        contract='''__CPROVER_requires(BAG_OK(self) && g_lin_count == 0 && self->count.v <= ChunkSize && gj < ChunkSize)
__CPROVER_ensures(BAG_INV(self))
__CPROVER_ensures(__CPROVER_old(self->count.v) == ChunkSize ==> (__CPROVER_return_value == 0 && self->count.v == ChunkSize))
__CPROVER_ensures(__CPROVER_old(self->count.v) < ChunkSize ==> (self->count.v == __CPROVER_old(self->count.v) + 1 && self->datac[self->count.v - 1] == val && __CPROVER_return_value == &self->datac[self->count.v - 1]))
__CPROVER_ensures(gj < __CPROVER_old(self->count.v) ==> self->datac[gj] == __CPROVER_old(self->datac[gj]))
''' + CASG, prelude=PC, lower=CL, loops=LOOP, ghost_prefix='const uint64_t c0 = self->count.v; const gv_elem d0 = self->datac[gj < ChunkSize ? gj : 0];',
        no_flags=['--conversion-check'], inst='ConcurrentFixedSizeBag<T, %d> used from one thread' % CS,
        says='concurrent bag, one thread: push claims the next slot with a CAS on the counter and constructs the element there exactly once; full bag returns null'))
    UNITS.append(Unit(
        name='CBag_pop_front' + sfx, src=FSR, within=r'class FixedSizeBagBase\b', anchor=r'auto pop_front\(\) -> typename std::enable_if<C, bool>::type',
        proto='bool CBag_pop_front%s(struct Bag* self)' % sfx,
        contract='''__CPROVER_requires(BAG_OK(self) && g_lin_count == 0 && self->count.v <= ChunkSize && gj < ChunkSize)
__CPROVER_ensures(BAG_INV(self))
__CPROVER_ensures(__CPROVER_return_value == (__CPROVER_old(self->count.v) != 0) && self->count.v == (__CPROVER_old(self->count.v) != 0 ? __CPROVER_old(self->count.v) - 1 : 0))
__CPROVER_ensures(gj < self->count.v ==> self->datac[gj] == __CPROVER_old(self->datac[gj]))
''' + CASG, prelude=PC, lower=CL, loops=LOOP, ghost_prefix='const uint64_t c0 = self->count.v; const gv_elem d0 = self->datac[gj < ChunkSize ? gj : 0];',
        no_flags=['--conversion-check'], inst='ConcurrentFixedSizeBag<T, %d> used from one thread' % CS,
        says='concurrent bag, one thread: pop releases the top slot with a CAS on the counter and destroys exactly the element that was on top',
        replay=dict(prog='cbag_pop', args=[], cxxflags=['-DCS=%d' % CS], lib=True)))

from contracts import C14_gdeque
UNITS += C14_gdeque.make(ring_prelude(4), ['Ring_precondition_4', 'Ring_full_4', 'Ring_empty_4', 'Ring_emplace_back_4', 'Ring_emplace_front_4', 'Ring_pop_back_4', 'Ring_pop_front_4', 'Ring_front_4', 'Ring_back_4'])
from contracts import C14_gslist
UNITS += C14_gslist.make(bag_prelude(4, False), ['Bag_precondition_4', 'Bag_full_4', 'Bag_empty_4', 'Bag_emplace_front_4', 'Bag_pop_front_4', 'Bag_front_4'])
from contracts import C14_flatmap
UNITS += C14_flatmap.UNITS
from contracts import C14_optional
UNITS += C14_optional.UNITS
from contracts import C14_twolevel
UNITS += C14_twolevel.UNITS
from contracts import C14_heap
UNITS += C14_heap.UNITS
UNITS += [u for u in C14_gdeque.make_links() if u.name == 'GD_emplace_split_links']
UNITS += C14_gdeque.make_iter()
from contracts import C14_pra
UNITS += C14_pra.UNITS

EXPLANATION = ('TwoLevelIteratorA::safe_decrement / safe_decrement_dispatch for bidirectional and forward-only iterators (contracts/C14_twolevel.py).  '
               'optional<T> (contracts/C14_optional.py): constructors, copy, assign(optional|T), get, destroy, destructor against std::optional with a ghost live bit for LazyObject.  '
               'flat_map (contracts/C14_flatmap.py): resort, both range constructors, emplace, find as a typestate contract (sorted by key, one entry per key).  '
               'gslist<T,4> non-concurrent (contracts/C14_gslist.py): emplace_front, pop_front, front, empty, extend_first, shrink_first as local contracts on the head block and its successor (an emptied head block may precede non-empty ones).  '
               'MinHeap (contracts/C14_heap.py): range constructor, push, pop, pop_internal, top as a TYPESTATE contract over the wrapped container (for which comparator it is a heap; std::make_heap/push_heap/pop_heap are stubs with the standard\'s preconditions): the container is always a heap for revCmp and every std algorithm gets the comparator the heap was built for, so top()/pop() hand out the minimum.  '
               'gdeque<T,4> (contracts/C14_gdeque.py): emplace/push_back, emplace/push_front, pop_back, pop_front, front, back, size, empty, extend_first/last, shrink as LOCAL contracts on the end block, its neighbour and first/last/num '
               '(the element arrives at / leaves exactly that end; a block that becomes empty is unlinked and freed once; a full end block gets a fresh neighbour; nothing else is touched), on the inlined FixedSizeRing bodies.  '
               'PODResizeableArray<uint8_t|uint64_t> (contracts/C14_pra.py): constructors, move, destructor, reserve/resize/clear, operator[]/at/front/back/data, begin/end/size/max_size/empty, push_back (also of an own element), insert at end, assign, swap against the abstract sequence data_[0..size_) -- same results as std::vector, every other element kept (ghost probe), block = exactly capacity_ elements, blocks freed once.  '
               'FixedSizeRing (size/empty/full, emplace_front/back, pop_front/back, front/back/getAt, clear, begin/end, iterator ++/--/+=/-/*), '
               'FixedSizeBag (emplace/pop/front/clear) and ConcurrentFixedSizeBag push/pop used from one thread are extracted from /repo, lowered to C and proved, '
               'for ChunkSize 1, 3|4 and 64, against an abstract sequence (stack) view with a representation invariant that ties "slot constructed" to "slot in the window": '
               'every operation returns what the standard container would, changes nothing else in the sequence, and constructs/destroys each element exactly once.')
NOT_DECIDED = ('FixedSizeRing::emplace(pos) in the middle (std::move_backward over ring iterators), gdeque clear()/emplace(pos)/erase/iterators/operator[] (walks over the unbounded block list) and the global "sequence = concatenation of the blocks" view, gslist, FlatMap, LazyArray/LazyObject/optional themselves, PODResizeableArray with self-referencing ranges (assign/insert from own iterators: undefined for std::vector too) and allocation failure, '
               'PriorityQueue family, InsertBag, TwoLevelIterator(A), LargeArray; other ChunkSize values (template constant instantiated concretely).')
ASSUMPTIONS = ['MinHeap: the std:: heap algorithms as typestate stubs (C++ standard: push_heap/pop_heap need a heap for the SAME comparator; make_heap establishes one); element values abstracted away',
               'gdeque: alloc_block/free_block stubs (malloc + empty ring / assert-empty + free); list shape described locally (end block + neighbour)',
               'PODResizeableArray: realloc = trusted stub over CBMC malloc (new block, content kept at the probe element, old block poisoned at the probe element instead of freed), never fails; std::copy_n/memcpy = element-wise copy at a probe index; sizes <= 2^40; NULL+0 in begin()/end() accepted (defined in C++)',
               'LazyArray<T,N> = array of N slots + ghost live bit per slot (la_emplace/la_destroy/la_at in the prelude)',
               'element type T is an opaque 64-bit token (copy = assignment); std::forward is the identity',
               'ConcurrentFixedSizeBag: counter through the interference stub with the rely "unchanged by others" (single-thread use)',
               'constant-bound __CPROVER_forall over the ChunkSize slots (expanded by CBMC on the SAT back end; logs scanned for "ignoring")']
