"""C02 -- for_each iterations are isolated: exclusive ownership, clean release.
Contracts on Context.cpp / Context.h (LockManagerBase::tryAcquire, getOwner,
SimpleRuntimeContext::acquire/addToNhood/release, shouldLock) against the
PtrLock contracts proved in C06 (the owner word IS a PtrLock: bit 0 = owned,
pointer bits = the owning context).  commitIteration/cancelIteration walk a
linked list: BOUNDED (list length <= 4)."""
from gv.unit import Unit
from gv.lower import (bind, ren, members, refs, call, fcall, index, stdfn, mkpair, casts, drop, dropcall, rx)
from contracts import C06

CTX_C = 'libgalois/src/Context.cpp'
CTX_H = 'libgalois/include/galois/runtime/Context.h'
MF_H = 'libgalois/include/galois/MethodFlags.h'
UNITS = []
C06U = {u.name: u for u in C06.UNITS}
PTRLOCK_OPS = [n for n in ('PtrLock_lock', 'PtrLock_try_lock', 'PtrLock_unlock', 'PtrLock_unlock_and_clear', 'PtrLock_unlock_and_set', 'PtrLock_setValue', 'PtrLock_getValue', 'PtrLock_CAS', 'PtrLock_is_locked') if n in C06U]
IMPORTED = [C06U[n] for n in PTRLOCK_OPS]
# every call on a lockable's owner word goes to the PtrLock CONTRACT of that name (C06), whichever method the code uses
OWNER_OPS = [rx(r'(\w+)->owner\.(\w+)\(\)', r'PtrLock_\2(&\1->owner)', 0), rx(r'(\w+)->owner\.(\w+)\(([^()]+)\)', r'PtrLock_\2(&\1->owner, \3)', 0)]

CP = '''
struct Lockable { struct PtrLock owner; struct Lockable* next; };
struct Ctx { struct Lockable* locks; bool customAcquire; };   /* SimpleRuntimeContext (LockManagerBase has no data) */
bool g_conflict;    /* signalConflict() reached (it does not return: longjmp / throw) */
static inline void signalConflict(struct Lockable* l) { g_conflict = 1; __CPROVER_assume(0); }
static inline void gv_die(void) { __CPROVER_assume(0); }
'''
ENUMS = [dict(src=CTX_H, anchor=r'enum AcquireStatus \{ FAIL, NEW_OWNER, ALREADY_OWNER \};', lower=[])]
GH = C06.GHOSTS
LASG = '__CPROVER_assigns(lockable->owner._lock.v, %s)' % GH

UNITS.append(Unit(
    name='LMB_getOwner', src=CTX_H, within=r'class LockManagerBase\b', anchor=r'inline static LockManagerBase\* getOwner\(Lockable\* lockable\)',
    proto='void* LMB_getOwner(struct Lockable* lockable)',
    contract='__CPROVER_requires(__CPROVER_is_fresh(lockable, sizeof(*lockable)))\n__CPROVER_ensures((uintptr_t)__CPROVER_return_value == (g_last_read & ~(uintptr_t)1) && (g_held ==> (lockable->owner._lock.v == __CPROVER_old(lockable->owner._lock.v) && g_last_read == lockable->owner._lock.v)))\n__CPROVER_assigns(lockable->owner._lock.v, g_last_read, g_last_load_order)',
    prelude=[C06.PLP, CP], uses=PTRLOCK_OPS, lower=OWNER_OPS + [rx(r'!= nullptr', '!= 0', 1, 1)],
    no_flags=['--conversion-check'], says='getOwner reads the pointer bits of the owner word and writes nothing'))
UNITS.append(Unit(
    name='LMB_tryAcquire', src=CTX_C, anchor=r'galois::runtime::LockManagerBase::tryAcquire\(', proto='int LMB_tryAcquire(struct Ctx* self, struct Lockable* lockable)',
    contract='''__CPROVER_requires(__CPROVER_is_fresh(self, sizeof(*self)) && __CPROVER_is_fresh(lockable, sizeof(*lockable)) && !g_held && !g_bad_write && ((uintptr_t)self & 1) == 0)
__CPROVER_ensures(!g_bad_write && (__CPROVER_return_value == NEW_OWNER) == (g_held != 0))
__CPROVER_ensures(__CPROVER_return_value == NEW_OWNER ==> (g_acq_ok && g_lin_new == ((uintptr_t)self | 1)))
__CPROVER_ensures(__CPROVER_return_value == ALREADY_OWNER ==> (g_last_read & ~(uintptr_t)1) == (uintptr_t)self)
__CPROVER_ensures(__CPROVER_return_value == FAIL || __CPROVER_return_value == NEW_OWNER || __CPROVER_return_value == ALREADY_OWNER)
''' + LASG,
    prelude=[C06.PLP, CP], pre_extract=ENUMS, uses=PTRLOCK_OPS + ['LMB_getOwner'],
    lower=OWNER_OPS + [
           rx(r'(?<![\w.>])getOwner\(lockable\)', 'LMB_getOwner(lockable)', 1, 1), rx(r'(?<![\w])this(?![\w])', '((void*)self)', 2), casts(0)],
    no_flags=['--conversion-check'],
    says='tryAcquire: NEW_OWNER iff THIS call took the owner bit (PtrLock::try_lock, an acquire RMW on a word it observed free) and then the word reads (this | owned); ALREADY_OWNER only if the word it read carries this context; FAIL otherwise; the word is never written in a way the lock protocol forbids -- two contexts never own the same lockable (given PtrLock\'s exclusion, C06)'))
UNITS.append(Unit(
    name='SRC_addToNhood', src=CTX_H, within=r'class SimpleRuntimeContext\b', anchor=r'void addToNhood\(Lockable\* lockable\)', proto='void SRC_addToNhood(struct Ctx* self, struct Lockable* lockable)',
    contract='''__CPROVER_requires(__CPROVER_is_fresh(self, sizeof(*self)) && __CPROVER_is_fresh(lockable, sizeof(*lockable)) && lockable->next == 0)
__CPROVER_ensures(self->locks == lockable && lockable->next == __CPROVER_old(self->locks))
__CPROVER_assigns(self->locks, lockable->next)''',
    prelude=[C06.PLP, CP], lower=[members(['locks'], minimum=2)], says='addToNhood pushes the lockable on the front of the neighbourhood list (it was in no list)'))
UNITS.append(Unit(
    name='SRC_acquire', src=CTX_H, within=r'class SimpleRuntimeContext\b', anchor=r'void acquire\(Lockable\* lockable, galois::MethodFlag m\)', proto='void SRC_acquire(struct Ctx* self, struct Lockable* lockable, int m)',
    contract='''__CPROVER_requires(__CPROVER_is_fresh(self, sizeof(*self)) && __CPROVER_is_fresh(lockable, sizeof(*lockable)) && !self->customAcquire && !g_held && !g_bad_write && !g_conflict && ((uintptr_t)self & 1) == 0 && lockable->next == 0)
__CPROVER_ensures(!g_bad_write && !g_conflict)
__CPROVER_ensures(g_held ==> (self->locks == lockable && lockable->next == __CPROVER_old(self->locks) && g_acq_ok))
__CPROVER_ensures(!g_held ==> (self->locks == __CPROVER_old(self->locks) && lockable->next == 0 && (g_last_read & ~(uintptr_t)1) == (uintptr_t)self))
__CPROVER_assigns(self->locks, lockable->next, g_conflict, lockable->owner._lock.v, %s)''' % GH,
    prelude=[C06.PLP, CP], pre_extract=ENUMS, uses=['LMB_tryAcquire', 'SRC_addToNhood'],
    lower=[members(['customAcquire'], minimum=1), rx(r'AcquireStatus i;', 'int i;', 1, 1), rx(r'AcquireStatus::', '', 2, 2),
           rx(r'(?<![\w.>])tryAcquire\(lockable\)', 'LMB_tryAcquire(self, lockable)', 1, 1), rx(r'(?<![\w.>])addToNhood\(lockable\)', 'SRC_addToNhood(self, lockable)', 1, 1),
           rx(r'subAcquire\(lockable, m\);', 'gv_die();', 1, 1)],
    no_flags=['--conversion-check'],
    says='acquire (returns only if there is no conflict): a newly owned lockable enters the neighbourhood list exactly once; a re-acquisition by the owner is a no-op on the list; a lockable owned by somebody else reaches signalConflict() (the call never returns) with the list and the word unchanged'))
UNITS.append(Unit(
    name='SRC_release', src=CTX_C, anchor=r'void galois::runtime::SimpleRuntimeContext::release\(', proto='void SRC_release(struct Ctx* self, struct Lockable* lockable)',
    contract='''__CPROVER_requires(__CPROVER_is_fresh(self, sizeof(*self)) && __CPROVER_is_fresh(lockable, sizeof(*lockable)) && g_held && !g_bad_write && lockable->owner._lock.v == ((uintptr_t)self | 1) && lockable->next == 0)
__CPROVER_ensures(!g_held && g_rel_ok && !g_bad_write && g_lin_new == 0)
''' + LASG,
    prelude=[C06.PLP, CP], uses=PTRLOCK_OPS + ['LMB_getOwner'],
    lower=[members(['customAcquire'], minimum=1), rx(r'(?<![\w.>])getOwner\(lockable\)', 'LMB_getOwner(lockable)', 1, 1), rx(r'(?<![\w])this(?![\w])', '((void*)self)', 1), casts(0),
           ] + OWNER_OPS,
    no_flags=['--conversion-check'],
    says='release: the owner publishes an unowned, null word with a store of order >= release (the code\'s assertions "I am the owner" and "not in a list" hold); this is the hand-over edge of a lockable to the next iteration'))

# shouldLock: truth table of the method flags
MFP = 'static inline void gv_unreachable(void) { __CPROVER_assert(0, "code-assert: assert(false) in shouldLock reached"); }\n'
UNITS.append(Unit(
    name='shouldLock', src=CTX_H, anchor=r'inline bool shouldLock\(const galois::MethodFlag g\)', proto='bool shouldLock(int g)',
    contract='''__CPROVER_requires(0 <= g && g <= 7 && (g & 3) != 3)
__CPROVER_ensures(__CPROVER_return_value == ((g & 3) == 1 || (g & 3) == 2))
__CPROVER_assigns()''',
    prelude=[MFP], pre_extract=[dict(src=MF_H, anchor=r'enum class MethodFlag : char \{.*?\};', lower=[rx(r'enum class MethodFlag : char', 'enum MethodFlag', 1, 1)])],
    lower=[rx(r'galois::MethodFlag::', '', 1, 1), rx(r'MethodFlag::', '', 4, 4), rx(r'assert\(false\);', 'gv_unreachable();', 1, 1)],
    says='shouldLock: READ and WRITE take the conflict-detection lock, UNPROTECTED and PREVIOUS (and PREVIOUS combined with nothing) do not; READ|WRITE is excluded by the precondition (it reaches assert(false))'))

# commitIteration / cancelIteration: list walk, bounded
UNITS.append(Unit(
    name='SRC_commitIteration_bounded', kind='bounded', unwind=6, bound_desc='neighbourhood lists of length <= 4 (all shapes), each lockable owned by this context',
    src=CTX_C, anchor=r'unsigned galois::runtime::SimpleRuntimeContext::commitIteration\(\)', proto='unsigned SRC_commitIteration(struct Ctx* self)',
    contract='', prelude=[C06.PLP.replace('#define GV_RELY_LOCK', '#define GV_RELY_EXPR(o, n) ((n) == (o))   /* the words of lockables I own are not written by others */'), CP, '''
static inline void compilerBarrier(void) {}
unsigned g_released;
static inline void release_stub(struct Ctx* self, struct Lockable* l)
{ __CPROVER_assert(l->next == 0, "release(): lockable already unlinked"); __CPROVER_assert(l->owner._lock.v == ((uintptr_t)self | 1), "release(): owned by this context");
  l->owner._lock.v = 0; g_released = g_released + 1; }
'''],
    lower=[members(['locks'], minimum=2), rx(r'substrate::compilerBarrier\(\)', 'compilerBarrier()', 1, 1), rx(r'(?<![\w.>])release\(lockable\)', 'release_stub(self, lockable)', 1, 1),
           rx(r'Lockable\* lockable', 'struct Lockable* lockable', 1, 1)],
    dfcc=False,
    harness='''
  struct Ctx c; struct Lockable n[4]; unsigned len; __CPROVER_assume(len <= 4);
  c.customAcquire = 0; c.locks = len ? &n[0] : 0;
  for (unsigned i = 0; i < 4; ++i) { n[i].next = (i + 1 < len) ? &n[i + 1] : 0; n[i].owner._lock.v = ((uintptr_t)&c | 1); }
  unsigned r = SRC_commitIteration(&c);
  __CPROVER_assert(r == len && g_released == len && c.locks == 0, "every acquisition is released exactly once, the count is returned, the list is empty");
  for (unsigned i = 0; i < 4; ++i) if (i < len) __CPROVER_assert(n[i].owner._lock.v == 0 && n[i].next == 0, "no lockable is left owned or linked");
''',
    no_flags=['--conversion-check'],
    says='BOUNDED: commitIteration (= cancelIteration) releases every lockable of the neighbourhood list exactly once, unlinks it first, returns the count, leaves the list empty'))

EXPLANATION = ('The conflict-detection core (Context.cpp / Context.h): LockManagerBase::getOwner and tryAcquire, SimpleRuntimeContext::addToNhood, acquire and release, and shouldLock are extracted from '
               '/repo, lowered to C and proved against the PtrLock contracts of C06 (the owner word is a PtrLock): a lockable becomes owned only through try_lock (an acquire RMW that observed it free), '
               'the owner word then carries the context; re-acquisition by the owner is a no-op; a lockable enters the neighbourhood list exactly when newly owned; a foreign lockable reaches '
               'signalConflict with nothing changed; release publishes an unowned word with >= release; the method-flag truth table.  commitIteration/cancelIteration: bounded (lists <= 4).')
NOT_DECIDED = ('that the executor calls cancelIteration, clears the push buffer and resets the per-iteration allocator on the abort path (Executor_ForEach.h, longjmp); serial equivalence of the final state; '
               'the deterministic executor\'s lock stealing (customAcquire, stealing_CAS); graph-level acquire calls (graphs/Details.h).')
ASSUMPTIONS = ['PtrLock operations through their contracts proved in C06 (interference stub, GV_RELY_LOCK)',
               'signalConflict does not return (longjmp / throw): modelled as a ghost flag + assume(false)',
               'mutual exclusion of ownership = PtrLock\'s one-word argument (C06)']
