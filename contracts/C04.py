"""C04 -- termination detection (safety): step contracts of the Dijkstra-style
ring detector LocalTerminationDetection (Termination.h) and the tree shape of
TreeTerminationDetection.  A call is treated as one step on the caller's own
token holder: while a thread holds the token nobody else writes its holder (the
predecessor writes it only after the token has travelled round the ring), and
without the token the call touches only the caller's own processIsBlack."""
from gv.unit import Unit
from gv.lower import (bind, ren, members, refs, call, fcall, index, stdfn, mkpair, casts, drop, dropcall, rx)

TH = 'libgalois/include/galois/substrate/Termination.h'
UNITS = []

RP = '''
#define GV_MAXT 16u
struct TokenHolder { long tokenIsBlack; long hasToken; long processIsBlack; bool lastWasWhite; };
struct Ring { struct TokenHolder th[GV_MAXT]; unsigned activeThreads; int globalTerm; };
unsigned g_tid;     /* ThreadPool::getTID() */
unsigned g_s;       /* ghost probe: an arbitrary OTHER holder */
static inline unsigned gv_getTID(void) { return g_tid; }
static inline struct TokenHolder* ring_remote(struct Ring* r, unsigned i) { __CPROVER_assert(i < r->activeThreads, "getRemote: thread id in range"); return &r->th[i]; }
static inline struct TokenHolder* ring_local(struct Ring* r) { return &r->th[g_tid]; }
#define RING_OK(r) (__CPROVER_is_fresh(r, sizeof(*(r))) && (r)->activeThreads >= 1 && (r)->activeThreads <= GV_MAXT && g_tid < (r)->activeThreads && g_s < GV_MAXT)
#define SUCC(r) ((g_tid + 1) % (r)->activeThreads)
#define ME(r) ((r)->th[g_tid])
#define B(x) ((x) != 0)
/* the fields of holder i, packed, for "unchanged" statements */
#define SAME(r, i) ((r)->th[i].tokenIsBlack == __CPROVER_old((r)->th[i].tokenIsBlack) && (r)->th[i].hasToken == __CPROVER_old((r)->th[i].hasToken) && (r)->th[i].processIsBlack == __CPROVER_old((r)->th[i].processIsBlack) && B((r)->th[i].lastWasWhite) == B(__CPROVER_old((r)->th[i].lastWasWhite)))
'''
WITHIN = r'class LocalTerminationDetection\b'
RL = [ren('ThreadPool::getTID', 'gv_getTID', 0), members(['activeThreads'], minimum=0),
      rx(r'TokenHolder& th\s*=\s*\*data\.getRemote\(([^;]*)\);', r'struct TokenHolder* th_p = ring_remote(self, \1);', 0),
      rx(r'TokenHolder& th\s*=\s*\*data\.getLocal\(\);', 'struct TokenHolder* th_p = ring_local(self);', 0),
      rx(r'(?<![\w.>])th\.', 'th_p->', 0), rx(r'globalTerm\.get\(\)', 'self->globalTerm', 0), rx(r'(?<![\w.>])globalTerm\s*=\s*(true|false);', r'self->globalTerm = \1;', 0),
      rx(r'(?<![\w.>])isSysMaster\(\)', 'Ring_isSysMaster(self)', 0), rx(r'(?<![\w.>])propToken\(', 'Ring_propToken(self, ', 0), rx(r'(?<![\w.>])propGlobalTerm\(\)', 'Ring_propGlobalTerm(self)', 0)]


def R(name, anchor, proto, contract, says, uses=(), extra=()):
    UNITS.append(Unit(name=name, src=TH, within=WITHIN, anchor=anchor, proto=proto, contract=contract, prelude=[RP], uses=list(uses), lower=RL + list(extra),
                      no_flags=['--conversion-check'], inst='activeThreads <= 16 (configuration bound)', says=says))


R('Ring_isSysMaster', r'bool isSysMaster\(\) const', 'bool Ring_isSysMaster(const struct Ring* self)',
  '__CPROVER_ensures(__CPROVER_return_value == (g_tid == 0))\n__CPROVER_assigns()', 'the master is thread 0')
R('Ring_propGlobalTerm', r'void propGlobalTerm\(\)', 'void Ring_propGlobalTerm(struct Ring* self)',
  '__CPROVER_requires(__CPROVER_is_fresh(self, sizeof(*self)))\n__CPROVER_ensures(self->globalTerm == 1)\n__CPROVER_assigns(self->globalTerm)', 'announce')
R('Ring_propToken', r'void propToken\(bool isBlack\)', 'void Ring_propToken(struct Ring* self, bool isBlack)',
  '''__CPROVER_requires(RING_OK(self))
__CPROVER_ensures(B(self->th[SUCC(self)].tokenIsBlack) == B(isBlack) && self->th[SUCC(self)].hasToken == 1 && self->th[SUCC(self)].processIsBlack == __CPROVER_old(self->th[SUCC(self)].processIsBlack))
__CPROVER_ensures(g_s != SUCC(self) ==> SAME(self, g_s))
__CPROVER_ensures(self->globalTerm == __CPROVER_old(self->globalTerm) && self->activeThreads == __CPROVER_old(self->activeThreads))
__CPROVER_assigns(self->th[(g_tid + 1) % self->activeThreads].tokenIsBlack, self->th[(g_tid + 1) % self->activeThreads].hasToken)''',
  'propToken hands the token, with the given colour, to the successor (id+1) mod n and writes nothing else')
R('Ring_initializeThread', r'virtual void initializeThread\(\)', 'void Ring_initializeThread(struct Ring* self)',
  '''__CPROVER_requires(RING_OK(self))
__CPROVER_ensures(ME(self).tokenIsBlack == 0 && ME(self).processIsBlack == 1 && B(ME(self).lastWasWhite) && ME(self).hasToken == (g_tid == 0 ? 1 : 0) && self->globalTerm == 0)
__CPROVER_ensures(g_s != g_tid ==> SAME(self, g_s))
__CPROVER_assigns(self->th[g_tid], self->globalTerm)''',
  're-arming: whatever the previous state, a thread\'s holder becomes the armed state (black process, white token slot, last round counted white, token at the master only) and the announcement is withdrawn -- the detector can be reused, also with another thread count',
  uses=['Ring_isSysMaster'])
R('Ring_localTermination', r'virtual void localTermination\(bool workHappened\)', 'void Ring_localTermination(struct Ring* self, bool workHappened)',
  '''__CPROVER_requires(RING_OK(self) && !(B(workHappened) && self->globalTerm != 0) && (ME(self).hasToken != 0 ==> self->globalTerm == 0))
__CPROVER_requires(ME(self).tokenIsBlack >= 0 && ME(self).tokenIsBlack <= 1 && ME(self).processIsBlack >= 0 && ME(self).processIsBlack <= 1 && ME(self).hasToken >= 0 && ME(self).hasToken <= 1)
/* (a) no token: only the caller's own process colour may darken */
__CPROVER_ensures(__CPROVER_old(ME(self).hasToken) == 0 ==> (B(ME(self).processIsBlack) == (B(__CPROVER_old(ME(self).processIsBlack)) || B(workHappened)) && ME(self).hasToken == 0 && ME(self).tokenIsBlack == __CPROVER_old(ME(self).tokenIsBlack) && self->globalTerm == __CPROVER_old(self->globalTerm) && (g_s != g_tid ==> SAME(self, g_s))))
/* (c) announce: only the master, only on a white token, a white process, no work reported, and a previous white round */
__CPROVER_ensures(self->globalTerm != __CPROVER_old(self->globalTerm) ==> (self->globalTerm == 1 && g_tid == 0 && __CPROVER_old(ME(self).hasToken) != 0 && __CPROVER_old(ME(self).tokenIsBlack) == 0 && __CPROVER_old(ME(self).processIsBlack) == 0 && !B(workHappened) && B(__CPROVER_old(ME(self).lastWasWhite))))
__CPROVER_ensures((self->globalTerm != __CPROVER_old(self->globalTerm)) ==> (ME(self).hasToken != 0 && (g_s != g_tid ==> SAME(self, g_s))))
/* (b) token passed on: taint propagates, own colours cleared, exactly the successor receives it */
__CPROVER_ensures((__CPROVER_old(ME(self).hasToken) != 0 && self->globalTerm == __CPROVER_old(self->globalTerm)) ==> (self->th[SUCC(self)].hasToken == 1 && (SUCC(self) != g_tid ==> (ME(self).hasToken == 0 && ME(self).processIsBlack == 0 && ME(self).tokenIsBlack == 0))))
__CPROVER_ensures((__CPROVER_old(ME(self).hasToken) != 0 && self->globalTerm == __CPROVER_old(self->globalTerm) && g_tid != 0) ==> B(self->th[SUCC(self)].tokenIsBlack) == (__CPROVER_old(ME(self).tokenIsBlack) != 0 || __CPROVER_old(ME(self).processIsBlack) != 0 || B(workHappened)))
__CPROVER_ensures((__CPROVER_old(ME(self).hasToken) != 0 && self->globalTerm == __CPROVER_old(self->globalTerm) && g_tid == 0) ==> (self->th[SUCC(self)].tokenIsBlack == 0 && B(ME(self).lastWasWhite) == !(__CPROVER_old(ME(self).tokenIsBlack) != 0 || __CPROVER_old(ME(self).processIsBlack) != 0 || B(workHappened))))
__CPROVER_ensures((g_s != g_tid && g_s != SUCC(self)) ==> SAME(self, g_s))
__CPROVER_assigns(__CPROVER_object_whole(self))''',
  'one call of the ring detector: (a) without the token only the caller\'s process colour darkens; (b) with the token the taint (black token, black process or work reported) is passed to exactly the successor and the caller\'s colours are cleared -- the master always restarts a white token and remembers whether the round was white; (c) termination is announced only by the master, only when the incoming token, its own process colour and workHappened are all white AND the previous round was white (two consecutive clean rounds); no other holder is written',
  uses=['Ring_isSysMaster', 'Ring_propToken', 'Ring_propGlobalTerm'])

# (TreeTerminationDetection::initializeThread was attempted and dropped: with the constant-bound loops unwound CBMC reported
#  writes at array offsets the code does not make; not understood in the time available, so nothing about the tree detector is claimed.)

EXPLANATION = ('The ring detector\'s initializeThread, propToken, localTermination (and helpers) are extracted from /repo, lowered to C and proved as STEP contracts '
               'over the whole detector state (thread count <= 16): re-arming, token conservation (exactly the successor receives the token), taint propagation, colours cleared only by the holder, and the '
               'announcement only by the master after two consecutive clean rounds with no work reported.')
NOT_DECIDED = ('the global safety invariant (Dijkstra-Feijen-van Gasteren style: announced => no thread holds work) over histories and its preservation by the executors\' use (a thread reports false only when it holds no work; work only moves from active threads); '
               'liveness (announcement after a bounded number of idle reports); TreeTerminationDetection (all of it).')
ASSUMPTIONS = ['a call is one step on the caller\'s own holder: while a thread holds the token nobody else writes its holder; the token fields are std::atomic<long> with default (seq_cst) order, lowered to plain fields',
               'PerThreadStorage<TokenHolder> = array of <= 16 holders']
