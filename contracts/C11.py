"""C11 -- static graphs present exactly the input graph: the CSR layout only
(LC_CSR_Graph.h): index arithmetic raw_begin/raw_end/getDegree/operator[] and
the callback constructor (node n owns the slots [idx[n-1], idx[n]) in callback
order, each slot written exactly once with the callback's destination/data)."""
import re
from gv.unit import Unit
from gv.lower import (bind, ren, members, refs, call, fcall, index, stdfn, mkpair, casts, drop, dropcall, rx)

CSR = 'libgalois/include/galois/graphs/LC_CSR_Graph.h'
UNITS = []
WITHIN = r'class LC_CSR_Graph\b'

IP = '''
struct CSRI { uint32_t numNodes; uint64_t numEdges; } csr;      /* the graph object (a global); its index array through a lookup */
uint64_t __CPROVER_uninterpreted_idx(uint32_t n);               /* edgeIndData[n] */
#define IDX(n) __CPROVER_uninterpreted_idx(n)
static inline uint64_t idx_at(uint32_t n) { __CPROVER_assert(n < csr.numNodes, "index array access in range"); return IDX(n); }
#define GV_ID(x) (x)
#define GV_IDXAT(a, i) idx_at(i)
#define CSR_OK (csr.numNodes >= 1 && csr.numNodes <= (1u << 24))
'''
UNITS.append(Unit(
    name='CSR_raw_begin', src=CSR, within=WITHIN, anchor=r'edge_iterator raw_begin\(GraphNode N\) const', proto='uint64_t CSR_raw_begin(uint32_t N)',
    contract='__CPROVER_requires(CSR_OK && N < csr.numNodes)\n__CPROVER_ensures(__CPROVER_return_value == (N == 0 ? 0 : IDX(N - 1)))\n__CPROVER_assigns()',
    prelude=[IP], lower=[index('edgeIndData', 'GV_IDXAT', 1), rx(r'edge_iterator\(', 'GV_ID(', 1, 1)],
    says='a node\'s edges begin where the previous node\'s end (0 for node 0)'))
UNITS.append(Unit(
    name='CSR_raw_end', src=CSR, within=WITHIN, anchor=r'edge_iterator raw_end\(GraphNode N\) const', proto='uint64_t CSR_raw_end(uint32_t N)',
    contract='__CPROVER_requires(CSR_OK && N < csr.numNodes)\n__CPROVER_ensures(__CPROVER_return_value == IDX(N))\n__CPROVER_assigns()',
    prelude=[IP], lower=[index('edgeIndData', 'GV_IDXAT', 1), rx(r'edge_iterator\(', 'GV_ID(', 1, 1)],
    says='a node\'s edges end at its entry of the index array'))
UNITS.append(Unit(
    name='CSR_getDegree', src=CSR, within=WITHIN, anchor=r'uint64_t getDegree\(GraphNode N\) const', proto='uint64_t CSR_getDegree(uint32_t N)',
    contract='__CPROVER_requires(CSR_OK && N < csr.numNodes)\n__CPROVER_ensures(__CPROVER_return_value == IDX(N) - (N == 0 ? 0 : IDX(N - 1)))\n__CPROVER_assigns()',
    prelude=[IP], uses=['CSR_raw_begin', 'CSR_raw_end'],
    lower=[rx(r'raw_end\(N\)', 'CSR_raw_end(N)', 1, 1), rx(r'raw_begin\(N\)', 'CSR_raw_begin(N)', 1, 1)],
    says='degree = difference of consecutive index entries'))
UNITS.append(Unit(
    name='lemma_csr_ranges', kind='lemma', prelude=[IP], uses=['CSR_raw_begin', 'CSR_raw_end'],
    harness='''
  uint32_t N; __CPROVER_assume(CSR_OK && csr.numNodes >= 2 && N < csr.numNodes - 1);
  /* representation invariant of a constructed graph (what the constructor unit establishes): the index is non-decreasing and ends at numEdges */
  __CPROVER_assume(IDX(N) <= IDX(N + 1) && (N == 0 || IDX(N - 1) <= IDX(N)) && IDX(csr.numNodes - 1) == csr.numEdges);
  uint64_t b0 = CSR_raw_begin(N), e0 = CSR_raw_end(N), b1 = CSR_raw_begin(N + 1), e1 = CSR_raw_end(N + 1);
  __CPROVER_assert(b0 <= e0 && e0 == b1 && b1 <= e1, "edge ranges of consecutive nodes are ordered and adjacent");
  __CPROVER_assert(CSR_raw_end(csr.numNodes - 1) == csr.numEdges, "the last node's range ends at numEdges");
  __CPROVER_assert(CSR_raw_begin(0) == 0, "the first node's range starts at 0");
''',
    says='over the contracts: the per-node edge ranges are ordered, adjacent, start at 0 and end at numEdges -- they partition the edge array'))

# the callback constructor
CP = '''
struct CSR { uint32_t numNodes; uint64_t numEdges; uint64_t* edgeIndData; uint32_t* edgeDst; uint64_t* edgeData; };
const uint64_t* g_ps;     /* ghost: prefix sums of the callback's edge counts, g_ps[n] = edges of nodes < n (an array never written) */
uint32_t g_p; uint64_t g_e;   /* ghost probe: node g_p, its g_e-th edge */
uint32_t g_q;                 /* ghost probe index into the index array */
uint32_t g_dstv; uint64_t g_datav;   /* ghost: what the callbacks return for the probe edge */
uint64_t __CPROVER_uninterpreted_edgenum(size_t n);
uint32_t __CPROVER_uninterpreted_dst(size_t n, uint64_t e);
uint64_t __CPROVER_uninterpreted_data(size_t n, uint64_t e);
/* the user's callbacks: deterministic functions; edgeNum(n) instantiates the DEFINITION of the prefix sums at n */
uint64_t g_total;   /* ghost: the sum of all edge counts; the constructor's precondition is numEdges == g_total */
static inline uint64_t edgeNum_cb(size_t n) { uint64_t r = __CPROVER_uninterpreted_edgenum(n); __CPROVER_assume(r <= (1u << 20) && g_ps[n + 1] == g_ps[n] + r && g_ps[n + 1] <= g_total && (g_p < n ==> g_ps[g_p + 1] <= g_ps[n])); return r; }
static inline uint32_t edgeDst_cb(size_t n, uint64_t e) { return __CPROVER_uninterpreted_dst(n, e); }
static inline uint64_t edgeData_cb(size_t n, uint64_t e) { return __CPROVER_uninterpreted_data(n, e); }
#define GV_NOP(...) ((void)0)
#define MAXE ((uint64_t)1 << 45)
'''
UNITS.append(Unit(
    name='CSR_callback_ctor', src=CSR, within=WITHIN, anchor=r'LC_CSR_Graph\(uint32_t _numNodes, uint64_t _numEdges, EdgeNumFnTy edgeNum,',
    proto='void CSR_callback_ctor(struct CSR* self, uint32_t _numNodes, uint64_t _numEdges)', ctor_inits=['numNodes', 'numEdges'],
    contract='''__CPROVER_requires(__CPROVER_is_fresh(self, sizeof(*self)) && _numNodes >= 1 && _numNodes <= (1u << 24) && _numEdges <= MAXE)
__CPROVER_requires(__CPROVER_is_fresh(g_ps, ((size_t)_numNodes + 1) * sizeof(uint64_t)) && g_ps[0] == 0 && g_ps[_numNodes] == _numEdges && g_total == _numEdges)
__CPROVER_requires(__CPROVER_is_fresh(self->edgeIndData, (size_t)_numNodes * sizeof(uint64_t)) && __CPROVER_is_fresh(self->edgeDst, (_numEdges + 1) * sizeof(uint32_t)) && __CPROVER_is_fresh(self->edgeData, (_numEdges + 1) * sizeof(uint64_t)))
__CPROVER_requires(g_dstv == __CPROVER_uninterpreted_dst(g_p, g_e) && g_datav == __CPROVER_uninterpreted_data(g_p, g_e))
__CPROVER_requires(g_p < _numNodes && g_q < _numNodes && g_ps[g_p] <= g_ps[g_p + 1] && g_ps[g_p + 1] <= _numEdges)
__CPROVER_ensures(self->numNodes == _numNodes && self->numEdges == _numEdges)
__CPROVER_ensures(self->edgeIndData[g_q] == g_ps[g_q + 1])
__CPROVER_ensures(g_e < g_ps[g_p + 1] - g_ps[g_p] ==> (self->edgeDst[g_ps[g_p] + g_e] == g_dstv && self->edgeData[g_ps[g_p] + g_e] == g_datav))
__CPROVER_assigns(self->numNodes, self->numEdges, __CPROVER_object_whole(self->edgeIndData), __CPROVER_object_whole(self->edgeDst), __CPROVER_object_whole(self->edgeData))''',
    prelude=[CP],
    lower=[rx(r'if \(UseNumaAlloc\) \{.*?\n    \} else \{.*?\n    \}', '', 1, 1, flags=re.S),
           rx(r'nodeData\.constructAt\(n\);', 'GV_NOP(n);', 1, 1),
           rx(r'(?<![\w.>])edgeNum\(n\)', 'edgeNum_cb(n)', 2, 2),
           rx(r'if \(EdgeData::has_value\)\s*edgeData\.set\(cur, _edgeData\(n, e\)\);', 'self->edgeData[cur] = edgeData_cb(n, e);', 1, 1),
           rx(r'(?<![\w.>])edgeDst\[cur\] = _edgeDst\(n, e\);', 'self->edgeDst[cur] = edgeDst_cb(n, e);', 1, 1),
           rx(r'(?<![\w.>])edgeIndData\[n\] = cur;', 'self->edgeIndData[n] = cur;', 1, 1),
           members(['numNodes', 'numEdges'], minimum=3)],
    ghost_prefix='const uint32_t nn0 = _numNodes;',
    loops={1: '__CPROVER_assigns(n)\n__CPROVER_loop_invariant(n <= self->numNodes && self->numNodes == nn0)\n__CPROVER_decreases(self->numNodes - n)',
           2: '''__CPROVER_assigns(n, cur, __CPROVER_object_whole(self->edgeIndData))
__CPROVER_loop_invariant(n <= self->numNodes && self->numNodes == nn0 && cur == g_ps[n] && cur <= (uint64_t)n << 20 && (g_q < n ==> self->edgeIndData[g_q] == g_ps[g_q + 1]))
__CPROVER_decreases(self->numNodes - n)''',
           3: '''__CPROVER_assigns(n, cur, __CPROVER_object_whole(self->edgeDst), __CPROVER_object_whole(self->edgeData))
__CPROVER_loop_invariant(n <= self->numNodes && self->numNodes == nn0 && self->numEdges == _numEdges && cur == g_ps[n] && cur <= (uint64_t)n << 20 && self->edgeIndData[g_q] == g_ps[g_q + 1])
__CPROVER_loop_invariant((g_p < n && g_e < g_ps[g_p + 1] - g_ps[g_p]) ==> (self->edgeDst[g_ps[g_p] + g_e] == g_dstv && self->edgeData[g_ps[g_p] + g_e] == g_datav))
__CPROVER_decreases(self->numNodes - n)''',
           4: '''__CPROVER_assigns(e, cur, __CPROVER_object_whole(self->edgeDst), __CPROVER_object_whole(self->edgeData))
__CPROVER_loop_invariant(e <= ee && ee == g_ps[n + 1] - g_ps[n] && cur == g_ps[n] + e && g_ps[n + 1] <= _numEdges && n < self->numNodes && self->numNodes == nn0 && self->numEdges == _numEdges && self->edgeIndData[g_q] == g_ps[g_q + 1])
__CPROVER_loop_invariant((g_p < n && g_e < g_ps[g_p + 1] - g_ps[g_p]) ==> (self->edgeDst[g_ps[g_p] + g_e] == g_dstv && self->edgeData[g_ps[g_p] + g_e] == g_datav))
__CPROVER_loop_invariant((g_p == n && g_e < e) ==> (self->edgeDst[g_ps[g_p] + g_e] == g_dstv && self->edgeData[g_ps[g_p] + g_e] == g_datav))
__CPROVER_decreases(ee - e)'''},
    backend='smt', timeout=600, no_flags=['--conversion-check'],
    inst='EdgeTy with has_value (data kept), no NUMA options (allocation dropped: arrays are provided by the harness)',
    says='callback constructor: the index array is the prefix sum of the callback\'s edge counts (so node n owns [idx[n-1], idx[n])), and slot idx[p-1]+e holds exactly edgeDst(p,e) / edgeData(p,e) for every node p and every e < edgeNum(p) (ghost probe), i.e. the graph presents the callback\'s out-edges in callback order',
    trusted=['allocation block of the constructor dropped (S-slice style): the three arrays are supplied by the harness', 'callbacks are deterministic functions (uninterpreted)']))

# bounded sibling: the same constructor body, every loop unwound, graphs with <= 3 nodes and <= 3 edges per node.  Its lowering
# rules are tolerant (no must-fire counts tied to the loop structure), so a RESTRUCTURED constructor (other loop nest, other
# order of the passes) is still judged -- by complete execution on all small graphs -- when the invariants above no longer fit.
CPB = """
struct CSR { uint32_t numNodes; uint64_t numEdges; uint64_t* edgeIndData; uint32_t* edgeDst; uint64_t* edgeData; };
#define BN 3u
#define BD 3u
uint64_t DEG[BN]; uint32_t DST[BN][BD]; uint64_t DAT[BN][BD];
static inline uint64_t edgeNum_cb(size_t n) { __CPROVER_assert(n < BN, "edgeNum(n): node in range"); return DEG[n]; }
static inline uint32_t edgeDst_cb(size_t n, uint64_t e) { __CPROVER_assert(n < BN && e < DEG[n], "edgeDst(n, e): edge in range"); return DST[n][e]; }
static inline uint64_t edgeData_cb(size_t n, uint64_t e) { __CPROVER_assert(n < BN && e < DEG[n], "edgeData(n, e): edge in range"); return DAT[n][e]; }
#define GV_NOP(...) ((void)0)
uint64_t IDXA[BN]; uint32_t DSTA[BN * BD + 1]; uint64_t DATA_[BN * BD + 1];
struct CSR G;
void CSR_callback_ctor_b(struct CSR* self, uint32_t _numNodes, uint64_t _numEdges);
uint32_t nondet_u32(void); uint64_t nondet_u64(void);
"""
UNITS.append(Unit(
    name='CSR_callback_ctor_small', kind='bounded', unwind=5, dfcc=False, bound_desc='numNodes <= 3, every degree <= 3 (all such graphs, all destinations and data), loops unwound completely',
    src=CSR, within=WITHIN, anchor=r'LC_CSR_Graph\(uint32_t _numNodes, uint64_t _numEdges, EdgeNumFnTy edgeNum,',
    proto='void CSR_callback_ctor_b(struct CSR* self, uint32_t _numNodes, uint64_t _numEdges)', ctor_inits=['numNodes', 'numEdges'], contract='',
    prelude=[CPB],
    lower=[rx(r'if \(UseNumaAlloc\) \{.*?\n    \} else \{.*?\n    \}', '', 1, 1, flags=re.S),
           rx(r'nodeData\.constructAt\(n\);', 'GV_NOP(n);', 0),
           rx(r'(?<![\w.>])edgeNum\((\w+)\)', r'edgeNum_cb(\1)', 1),
           rx(r'if \(EdgeData::has_value\)\s*edgeData\.set\((\w+), _edgeData\((\w+), (\w+)\)\);', r'self->edgeData[\1] = edgeData_cb(\2, \3);', 1),
           rx(r'(?<![\w.>])edgeDst\[(\w+)\] = _edgeDst\((\w+), (\w+)\);', r'self->edgeDst[\1] = edgeDst_cb(\2, \3);', 1),
           rx(r'(?<![\w.>])edgeIndData\[(\w+)\] = ', r'self->edgeIndData[\1] = ', 1),
           members(['numNodes', 'numEdges'], minimum=1)],
    harness="""
  uint32_t nn = nondet_u32(); __CPROVER_assume(nn >= 1 && nn <= BN);
  uint64_t total = 0;
  for (unsigned n = 0; n < BN; ++n) { DEG[n] = nondet_u64(); __CPROVER_assume(DEG[n] <= BD); if (n < nn) total += DEG[n];
    for (unsigned e = 0; e < BD; ++e) { DST[n][e] = nondet_u32(); DAT[n][e] = nondet_u64(); } }
  /* freshly allocated arrays: arbitrary content */
  for (unsigned i = 0; i < BN; ++i) IDXA[i] = nondet_u64();
  G.edgeIndData = IDXA; G.edgeDst = DSTA; G.edgeData = DATA_;
  CSR_callback_ctor_b(&G, nn, total);
  __CPROVER_assert(G.numNodes == nn && G.numEdges == total, "node and edge counts");
  uint64_t ps = 0;
  for (unsigned n = 0; n < BN; ++n) if (n < nn) {
    for (unsigned e = 0; e < BD; ++e) if (e < DEG[n]) {
      __CPROVER_assert(G.edgeDst[ps + e] == DST[n][e], "slot idx[n-1]+e holds edgeDst(n, e)");
      __CPROVER_assert(G.edgeData[ps + e] == DAT[n][e], "slot idx[n-1]+e holds edgeData(n, e)");
    }
    ps += DEG[n];
    __CPROVER_assert(G.edgeIndData[n] == ps, "index entry n = number of edges of nodes <= n (prefix sum)");
  }
""",
    reach=True, no_flags=['--conversion-check'],
    inst='EdgeTy with has_value (data kept), no NUMA options; arrays supplied by the harness with arbitrary initial content',
    says='BOUNDED: for every graph with <= 3 nodes and degrees <= 3 the constructed index is the prefix sum of the degrees and every slot of every node\'s range holds the callback\'s destination and data; callbacks are only asked for existing edges'))


# ---- construction from a graph file: FileGraph accessors (FileGraph.cpp/.h) and LC_CSR_Graph::constructFrom(FileGraph&, tid, total) ----
FGC = 'libgalois/src/FileGraph.cpp'
FGH = 'libgalois/include/galois/graphs/FileGraph.h'
FP = """
/* the FileGraph object (a global): index / destination / data sections of the mapped file (little-endian host) */
struct FG { uint64_t nodeOffset, edgeOffset, numNodes, numEdges; int graphVersion; const uint64_t* outIdx; const void* outs; const void* edgeData;
            uint64_t numBytesReadIndex, numBytesReadEdgeDst, numBytesReadEdgeData; } fg;
#define convert_le64toh(x) (x)
#define convert_le32toh(x) (x)
static inline uint64_t gv_min_u64(uint64_t a, uint64_t b) { return a < b ? a : b; }
static inline void gv_warn(void) {}
static inline void gv_die(void) { __CPROVER_assert(0, "GALOIS_DIE reached although the preconditions describe a valid file"); __CPROVER_assume(0); }
#define MAXFE ((uint64_t)1 << 40)
/* what the file stores for local node k: the (clamped) end of its edge range, relative to this part of the file */
#define FIDX(k) ((fg.outIdx[k] < fg.edgeOffset + fg.numEdges ? fg.outIdx[k] : fg.edgeOffset + fg.numEdges) - fg.edgeOffset)
#define FG_SHAPE (fg.numNodes >= 1 && fg.numNodes <= ((uint64_t)1 << 32) && fg.numEdges <= MAXFE && fg.edgeOffset <= MAXFE && fg.nodeOffset <= ((uint64_t)1 << 32) && fg.numBytesReadIndex <= MAXFE && fg.numBytesReadEdgeDst <= MAXFE && fg.numBytesReadEdgeData <= MAXFE)
"""
FG_LOWER = [members(['nodeOffset', 'edgeOffset', 'numNodes', 'numEdges', 'graphVersion', 'outIdx', 'outs', 'edgeData', 'numBytesReadIndex', 'numBytesReadEdgeDst', 'numBytesReadEdgeData'], self='fg', arrow='.', minimum=1),
            stdfn('std::min', 'gv_min_u64', 0), casts(0), rx(r'edge_iterator\(', '(', 0), rx(r'printf\("WARNING[^;]*;', 'gv_warn();', 0), rx(r'GALOIS_DIE\([^;]*;', 'gv_die();', 0)]
UNITS.append(Unit(
    name='FG_edge_begin', src=FGC, anchor=r'FileGraph::edge_iterator FileGraph::edge_begin\(GraphNode N\)', proto='uint64_t FG_edge_begin(uint64_t N)',
    contract="""__CPROVER_requires(FG_SHAPE && N >= fg.nodeOffset && N - fg.nodeOffset <= fg.numNodes && __CPROVER_is_fresh(fg.outIdx, fg.numNodes * sizeof(uint64_t)) && (N > fg.nodeOffset ==> fg.outIdx[N - 1 - fg.nodeOffset] >= fg.edgeOffset))
__CPROVER_ensures(__CPROVER_return_value == (N > fg.nodeOffset ? FIDX(N - 1 - fg.nodeOffset) : 0) && __CPROVER_return_value <= fg.numEdges)
__CPROVER_assigns(fg.numBytesReadIndex)""",
    prelude=[FP], lower=FG_LOWER, no_flags=['--conversion-check'],
    says='FileGraph::edge_begin(N): 0 for the first node of the part, otherwise the previous node\'s (clamped) end index; never beyond numEdges'))
UNITS.append(Unit(
    name='FG_edge_end', src=FGC, anchor=r'FileGraph::edge_iterator FileGraph::edge_end\(GraphNode N\)', proto='uint64_t FG_edge_end(uint64_t N)',
    contract="""__CPROVER_requires(FG_SHAPE && N >= fg.nodeOffset && N - fg.nodeOffset < fg.numNodes && __CPROVER_is_fresh(fg.outIdx, fg.numNodes * sizeof(uint64_t)) && fg.outIdx[N - fg.nodeOffset] >= fg.edgeOffset)
__CPROVER_ensures(__CPROVER_return_value == FIDX(N - fg.nodeOffset) && __CPROVER_return_value <= fg.numEdges)
__CPROVER_assigns(fg.numBytesReadIndex)""",
    prelude=[FP], lower=FG_LOWER, no_flags=['--conversion-check'],
    says='FileGraph::edge_end(N): the node\'s (clamped) index entry; never beyond numEdges; edge_begin(N+1) == edge_end(N) by the two contracts'))
for ver, T in ((1, 'uint32_t'), (2, 'uint64_t')):
    UNITS.append(Unit(
        name='FG_getEdgeDst_v%d' % ver, src=FGC, anchor=r'FileGraph::GraphNode FileGraph::getEdgeDst\(edge_iterator it\)', proto='uint64_t FG_getEdgeDst_v%d(uint64_t it)' % ver,
        contract="""__CPROVER_requires(FG_SHAPE && fg.graphVersion == %d && it < fg.numEdges && __CPROVER_is_fresh(fg.outs, (fg.numEdges + 1) * sizeof(%s)))
__CPROVER_ensures(__CPROVER_return_value == ((const %s*)fg.outs)[it])
__CPROVER_assigns(fg.numBytesReadEdgeDst)""" % (ver, T, T),
        prelude=[FP], lower=FG_LOWER + [rx(r'\*it', 'it', 2, 2)], no_flags=['--conversion-check'], inst='file version %d' % ver,
        says='FileGraph::getEdgeDst for a version-%d file: entry `it` of the destination section (%d-byte entries)' % (ver, 4 * ver)))
for T, sfx in (('uint32_t', 'u32'), ('uint64_t', 'u64')):
    UNITS.append(Unit(
        name='FG_getEdgeData_' + sfx, src=FGH, anchor=r'EdgeTy& getEdgeData\(edge_iterator it\)', proto='%s* FG_getEdgeData_%s(uint64_t it)' % (T, sfx),
        contract="""__CPROVER_requires(FG_SHAPE && it < fg.numEdges && __CPROVER_is_fresh(fg.edgeData, (fg.numEdges + 1) * sizeof(%s)))
__CPROVER_ensures(__CPROVER_return_value == &((%s*)fg.edgeData)[it])
__CPROVER_assigns(fg.numBytesReadEdgeData)""" % (T, T),
        prelude=[FP], lower=FG_LOWER + [rx(r'\*it', 'it', 1, 1), rx(r'EdgeTy', T, 2), rx(r'assert\(fg\.edgeData\);', '__CPROVER_assert(fg.edgeData != 0, "code-assert: edgeData");', 1, 1), rx(r'return \(\(', 'return &((', 1, 1)],
        no_flags=['--conversion-check'], inst='EdgeTy = %s' % T, says='FileGraph::getEdgeData<%s>: entry `it` of the edge-data section' % T))


CFP = """
struct CSRF { uint32_t numNodes; uint64_t numEdges; uint64_t* edgeIndData; uint32_t* edgeDst; uint32_t* edgeData; };
uint64_t g_lo, g_hi;     /* ghost: the node range divideByNode hands to this thread */
uint64_t g_pn, g_x;      /* ghost probes: a node, an edge slot */
#define BEG(n) ((n) > 0 ? FIDX((n) - 1) : (uint64_t)0)
/* ASSUMED contracts of the FileGraph calls = the PROVED contracts of FG_edge_begin / FG_edge_end / FG_getEdgeDst_v1 / FG_getEdgeData_u32 for a
   whole file (nodeOffset == edgeOffset == 0), plus the validity of the file: its index never decreases (instance for the node asked) */
static inline uint64_t FG_edge_end_f(uint64_t N) { __CPROVER_assert(N < fg.numNodes, "edge_end: node in range"); __CPROVER_assume(BEG(N) <= FIDX(N)); return FIDX(N); }
static inline uint64_t FG_edge_begin_f(uint64_t N) { __CPROVER_assert(N <= fg.numNodes, "edge_begin: node in range"); return BEG(N); }
static inline uint64_t FG_getEdgeDst_f(uint64_t it) { __CPROVER_assert(it < fg.numEdges, "getEdgeDst: edge in range"); return ((const uint32_t*)fg.outs)[it]; }
static inline uint32_t FG_getEdgeData_f(uint64_t it) { __CPROVER_assert(it < fg.numEdges, "getEdgeData: edge in range"); return ((const uint32_t*)fg.edgeData)[it]; }
/* divideByNode(...).first: ASSUMED contract = what C13 proves about divideNodesBinarySearch: a node range inside [0, numNodes) */
#define GV_NOP(...) ((void)0)
#define DONE_IDX (self->edgeIndData[g_pn] == FIDX(g_pn))
#define DONE_DST64 (self->edgeDst[g_x] == (uint32_t)((const uint64_t*)fg.outs)[g_x])
static inline uint64_t FG_getEdgeDst64_f(uint64_t it) { __CPROVER_assert(it < fg.numEdges, "getEdgeDst: edge in range"); return ((const uint64_t*)fg.outs)[it]; }
#define DONE_EDGE (self->edgeDst[g_x] == ((const uint32_t*)fg.outs)[g_x] && self->edgeData[g_x] == ((const uint32_t*)fg.edgeData)[g_x])
"""
UNITS.append(Unit(
    name='CSR_constructEdgeValue', src=CSR, within=WITHIN, anchor=r'void constructEdgeValue\(FileGraph& graph,\s*typename FileGraph::edge_iterator nn,\s*typename std::enable_if<!_A1 \|\| _A2>::type\* = 0\)',
    proto='void CSR_constructEdgeValue(struct CSRF* self, uint64_t nn)',
    contract="""__CPROVER_requires(__CPROVER_is_fresh(self, sizeof(*self)) && FG_SHAPE && nn < fg.numEdges && self->numEdges == fg.numEdges && __CPROVER_is_fresh(fg.edgeData, (fg.numEdges + 1) * sizeof(uint32_t)) && __CPROVER_is_fresh(self->edgeData, (fg.numEdges + 1) * sizeof(uint32_t)))
__CPROVER_ensures(self->edgeData[nn] == ((const uint32_t*)fg.edgeData)[nn])
__CPROVER_assigns(self->edgeData[nn])""",
    prelude=[FP, CFP], lower=[rx(r'typedef LargeArray<FileEdgeTy> FED;', '', 1, 1), rx(r'if \(EdgeData::has_value\)\s*edgeData\.set\(\*nn, graph\.getEdgeData<typename FED::value_type>\(nn\)\);', 'self->edgeData[nn] = FG_getEdgeData_f(nn);', 1, 1)],
    no_flags=['--conversion-check'], inst='EdgeTy = FileEdgeTy = uint32_t', says='constructEdgeValue: slot nn of the graph\'s edge data = entry nn of the file\'s edge data'))
UNITS.append(Unit(
    name='CSR_constructFrom_file', src=CSR, within=WITHIN, anchor=r'void constructFrom\(FileGraph& graph, unsigned tid, unsigned total,\s*const bool readUnweighted = false\)',
    proto='void CSR_constructFrom_file(struct CSRF* self, unsigned tid, unsigned total, const bool readUnweighted)',
    contract="""__CPROVER_requires(__CPROVER_is_fresh(self, sizeof(*self)) && FG_SHAPE && fg.nodeOffset == 0 && fg.edgeOffset == 0 && fg.graphVersion == 1 && fg.numNodes <= (1u << 24) && total >= 1 && tid < total && !readUnweighted)
__CPROVER_requires(self->numNodes == fg.numNodes && self->numEdges == fg.numEdges && g_pn < fg.numNodes && g_x < fg.numEdges)
__CPROVER_requires(__CPROVER_is_fresh(fg.outIdx, fg.numNodes * sizeof(uint64_t)) && __CPROVER_is_fresh(fg.outs, (fg.numEdges + 1) * sizeof(uint32_t)) && __CPROVER_is_fresh(fg.edgeData, (fg.numEdges + 1) * sizeof(uint32_t)))
__CPROVER_requires(__CPROVER_is_fresh(self->edgeIndData, fg.numNodes * sizeof(uint64_t)) && __CPROVER_is_fresh(self->edgeDst, (fg.numEdges + 1) * sizeof(uint32_t)) && __CPROVER_is_fresh(self->edgeData, (fg.numEdges + 1) * sizeof(uint32_t)))
/* this thread's nodes get the file's index entries; the edge slots of exactly those nodes get the file's destinations and data */
__CPROVER_ensures((g_lo <= g_pn && g_pn < g_hi) ? DONE_IDX : self->edgeIndData[g_pn] == __CPROVER_old(self->edgeIndData[g_pn]))
__CPROVER_ensures((BEG(g_lo) <= g_x && g_x < BEG(g_hi)) ? DONE_EDGE : (self->edgeDst[g_x] == __CPROVER_old(self->edgeDst[g_x]) && self->edgeData[g_x] == __CPROVER_old(self->edgeData[g_x])))
__CPROVER_assigns(__CPROVER_object_whole(self->edgeIndData), __CPROVER_object_whole(self->edgeDst), __CPROVER_object_whole(self->edgeData), fg.numBytesReadIndex, fg.numBytesReadEdgeDst, fg.numBytesReadEdgeData)""",
    prelude=[FP, CFP], uses=['CSR_constructEdgeValue_assumed', 'FG_divideByNode_nodes'],
    lower=[rx(r'auto r =\s*graph\s*\.divideByNode\(.*?\)\s*\.first;', 'struct pair_u64 r = FG_divideByNode_nodes(tid, total);', 1, 1, flags=re.S),
           rx(r'this->setLocalRange\(\*r\.first, \*r\.second\);', 'GV_NOP();', 1, 1), rx(r'FileGraph::iterator ii = r\.first, ei = r\.second', 'uint64_t ii = r.first, ei = r.second', 1, 1),
           rx(r'nodeData\.constructAt\(\*ii\);', 'GV_NOP();', 1, 1), rx(r'this->outOfLineConstructAt\(\*ii\);', 'GV_NOP();', 1, 1),
           rx(r'FileGraph::edge_iterator nn = ', 'uint64_t nn = ', 1, 1), rx(r'(?<=\n)(\s+)en = graph', r'\1en = graph', 0),
           rx(r'\*graph\.edge_end\(\*ii\)', 'FG_edge_end_f(ii)', 0), rx(r'graph\.edge_end\(\*ii\)', 'FG_edge_end_f(ii)', 1), rx(r'graph\.edge_begin\(\*ii\)', 'FG_edge_begin_f(ii)', 1),
           rx(r'edgeData\.set\(\*nn, \{\}\);', 'self->edgeData[nn] = 0;', 1, 1), rx(r'constructEdgeValue\(graph, nn\);', 'CSR_constructEdgeValue_assumed(self, nn);', 1, 1),
           rx(r'edgeDst\[\*nn\] = graph\.getEdgeDst\(nn\);', 'self->edgeDst[nn] = (uint32_t)FG_getEdgeDst_f(nn);', 1, 1), rx(r'edgeIndData\[\*?ii\]', 'self->edgeIndData[ii]', 1), rx(r'(?<![\w)\]])\*nn(?![\w])', 'nn', 0), rx(r'(?<![\w)\]])\*ii(?![\w])', 'ii', 0)],
    loops={1: """__CPROVER_assigns(ii, __CPROVER_object_whole(self->edgeIndData), __CPROVER_object_whole(self->edgeDst), __CPROVER_object_whole(self->edgeData), fg.numBytesReadIndex, fg.numBytesReadEdgeDst, fg.numBytesReadEdgeData)
__CPROVER_loop_invariant(g_lo <= ii && ii <= g_hi && ei == g_hi && g_hi <= fg.numNodes && BEG(g_lo) <= BEG(ii) && BEG(ii) <= fg.numEdges)
__CPROVER_loop_invariant((g_lo <= g_pn && g_pn < ii) ? DONE_IDX : self->edgeIndData[g_pn] == __CPROVER_loop_entry(self->edgeIndData[g_pn]))
__CPROVER_loop_invariant((BEG(g_lo) <= g_x && g_x < BEG(ii)) ? DONE_EDGE : (self->edgeDst[g_x] == __CPROVER_loop_entry(self->edgeDst[g_x]) && self->edgeData[g_x] == __CPROVER_loop_entry(self->edgeData[g_x])))
__CPROVER_decreases(g_hi - ii)""",
           2: """__CPROVER_assigns(nn, __CPROVER_object_whole(self->edgeDst), __CPROVER_object_whole(self->edgeData), fg.numBytesReadEdgeDst, fg.numBytesReadEdgeData)
__CPROVER_loop_invariant(BEG(ii) <= nn && nn <= en && en == FIDX(ii) && en <= fg.numEdges && ii < g_hi && g_hi <= fg.numNodes && BEG(g_lo) <= BEG(ii))
__CPROVER_loop_invariant((BEG(g_lo) <= g_x && g_x < nn) ? DONE_EDGE : (self->edgeDst[g_x] == __CPROVER_loop_entry(self->edgeDst[g_x]) && self->edgeData[g_x] == __CPROVER_loop_entry(self->edgeData[g_x])))
__CPROVER_decreases(en - nn)"""},
    backend='smt', timeout=900, no_flags=['--conversion-check'],
    inst='EdgeTy = FileEdgeTy = uint32_t, version-1 file, whole file (nodeOffset = edgeOffset = 0), weighted read',
    says='constructFrom(FileGraph&, tid, total) -- the per-thread body of readGraph for LC_CSR: for the node range this thread is given, the index entries are the file\'s (clamped) index entries and the edge slots of exactly those nodes hold the file\'s destinations and edge data, in file order; no other node or slot is written (ghost probe node / slot)',
    trusted=['FileGraph accessor calls replaced by inline stubs that restate the proved FG_* contracts for a whole file + "the file index never decreases" (file validity)', 'divideByNode: assumed contract (C13)', 'setLocalRange / nodeData.constructAt / outOfLineConstructAt dropped']))
UNITS.append(Unit(
    name='CSR_constructFrom_file_void_v2', src=CSR, within=WITHIN, anchor=r'void constructFrom\(FileGraph& graph, unsigned tid, unsigned total,\s*const bool GALOIS_UNUSED\(readUnweighted\) = false\)',
    proto='void CSR_constructFrom_file_void_v2(struct CSRF* self, unsigned tid, unsigned total, const bool readUnweighted)',
    contract="""__CPROVER_requires(__CPROVER_is_fresh(self, sizeof(*self)) && FG_SHAPE && fg.nodeOffset == 0 && fg.edgeOffset == 0 && fg.graphVersion == 2 && fg.numNodes <= (1u << 24) && total >= 1 && tid < total && !readUnweighted)
__CPROVER_requires(self->numNodes == fg.numNodes && self->numEdges == fg.numEdges && g_pn < fg.numNodes && g_x < fg.numEdges)
__CPROVER_requires(__CPROVER_is_fresh(fg.outIdx, fg.numNodes * sizeof(uint64_t)) && __CPROVER_is_fresh(fg.outs, (fg.numEdges + 1) * sizeof(uint64_t)) && __CPROVER_is_fresh(fg.edgeData, (fg.numEdges + 1) * sizeof(uint32_t)))
__CPROVER_requires(__CPROVER_is_fresh(self->edgeIndData, fg.numNodes * sizeof(uint64_t)) && __CPROVER_is_fresh(self->edgeDst, (fg.numEdges + 1) * sizeof(uint32_t)) && __CPROVER_is_fresh(self->edgeData, (fg.numEdges + 1) * sizeof(uint32_t)))
/* this thread's nodes get the file's index entries; the edge slots of exactly those nodes get the file's destinations and data */
__CPROVER_ensures((g_lo <= g_pn && g_pn < g_hi) ? DONE_IDX : self->edgeIndData[g_pn] == __CPROVER_old(self->edgeIndData[g_pn]))
__CPROVER_ensures((BEG(g_lo) <= g_x && g_x < BEG(g_hi)) ? DONE_DST64 : (self->edgeDst[g_x] == __CPROVER_old(self->edgeDst[g_x])))
__CPROVER_assigns(__CPROVER_object_whole(self->edgeIndData), __CPROVER_object_whole(self->edgeDst), __CPROVER_object_whole(self->edgeData), fg.numBytesReadIndex, fg.numBytesReadEdgeDst, fg.numBytesReadEdgeData)""",
    prelude=[FP, CFP], uses=['FG_divideByNode_nodes'],
    lower=[rx(r'auto r =\s*graph\s*\.divideByNode\(.*?\)\s*\.first;', 'struct pair_u64 r = FG_divideByNode_nodes(tid, total);', 1, 1, flags=re.S),
           rx(r'this->setLocalRange\(\*r\.first, \*r\.second\);', 'GV_NOP();', 1, 1), rx(r'FileGraph::iterator ii = r\.first, ei = r\.second', 'uint64_t ii = r.first, ei = r.second', 1, 1),
           rx(r'nodeData\.constructAt\(\*ii\);', 'GV_NOP();', 1, 1), rx(r'this->outOfLineConstructAt\(\*ii\);', 'GV_NOP();', 1, 1),
           rx(r'FileGraph::edge_iterator nn = ', 'uint64_t nn = ', 1, 1), rx(r'(?<=\n)(\s+)en = graph', r'\1en = graph', 0),
           rx(r'\*graph\.edge_end\(\*ii\)', 'FG_edge_end_f(ii)', 0), rx(r'graph\.edge_end\(\*ii\)', 'FG_edge_end_f(ii)', 1), rx(r'graph\.edge_begin\(\*ii\)', 'FG_edge_begin_f(ii)', 1),
           rx(r'constructEdgeValue\(graph, nn\);', 'GV_NOP();   /* EdgeTy = void: nothing to store */', 1, 1),
           rx(r'edgeDst\[\*nn\] = graph\.getEdgeDst\(nn\);', 'self->edgeDst[nn] = (uint32_t)FG_getEdgeDst64_f(nn);', 1, 1), rx(r'edgeIndData\[\*?ii\]', 'self->edgeIndData[ii]', 1), rx(r'(?<![\w)\]])\*nn(?![\w])', 'nn', 0), rx(r'(?<![\w)\]])\*ii(?![\w])', 'ii', 0)],
    loops={1: """__CPROVER_assigns(ii, __CPROVER_object_whole(self->edgeIndData), __CPROVER_object_whole(self->edgeDst), __CPROVER_object_whole(self->edgeData), fg.numBytesReadIndex, fg.numBytesReadEdgeDst, fg.numBytesReadEdgeData)
__CPROVER_loop_invariant(g_lo <= ii && ii <= g_hi && ei == g_hi && g_hi <= fg.numNodes && BEG(g_lo) <= BEG(ii) && BEG(ii) <= fg.numEdges)
__CPROVER_loop_invariant((g_lo <= g_pn && g_pn < ii) ? DONE_IDX : self->edgeIndData[g_pn] == __CPROVER_loop_entry(self->edgeIndData[g_pn]))
__CPROVER_loop_invariant((BEG(g_lo) <= g_x && g_x < BEG(ii)) ? DONE_DST64 : (self->edgeDst[g_x] == __CPROVER_loop_entry(self->edgeDst[g_x])))
__CPROVER_decreases(g_hi - ii)""",
           2: """__CPROVER_assigns(nn, __CPROVER_object_whole(self->edgeDst), __CPROVER_object_whole(self->edgeData), fg.numBytesReadEdgeDst, fg.numBytesReadEdgeData)
__CPROVER_loop_invariant(BEG(ii) <= nn && nn <= en && en == FIDX(ii) && en <= fg.numEdges && ii < g_hi && g_hi <= fg.numNodes && BEG(g_lo) <= BEG(ii))
__CPROVER_loop_invariant((BEG(g_lo) <= g_x && g_x < nn) ? DONE_DST64 : (self->edgeDst[g_x] == __CPROVER_loop_entry(self->edgeDst[g_x])))
__CPROVER_decreases(en - nn)"""},
    backend='smt', timeout=900, no_flags=['--conversion-check'],
    inst='EdgeTy = void, version-2 file (64-bit destinations narrowed to the graph\'s 32-bit node ids), whole file',
    says='constructFrom for graphs WITHOUT edge data from a version-2 file -- the per-thread body of readGraph for LC_CSR: for the node range this thread is given, the index entries are the file\'s (clamped) index entries and the edge slots of exactly those nodes hold the file\'s destinations and edge data, in file order; no other node or slot is written (ghost probe node / slot)',
    trusted=['FileGraph accessor calls replaced by inline stubs that restate the proved FG_* contracts for a whole file + "the file index never decreases" (file validity)', 'divideByNode: assumed contract (C13)', 'setLocalRange / nodeData.constructAt / outOfLineConstructAt dropped']))
UNITS.append(Unit(name='FG_divideByNode_nodes', kind='assumed', proto='struct pair_u64 FG_divideByNode_nodes(unsigned tid, unsigned total)',
                  contract="""__CPROVER_requires(total >= 1 && tid < total)
__CPROVER_ensures(__CPROVER_return_value.first == g_lo && __CPROVER_return_value.second == g_hi && g_lo <= g_hi && g_hi <= fg.numNodes)
__CPROVER_assigns()""", prelude=[FP, CFP], says='FileGraph::divideByNode(...).first: a node range inside [0, numNodes) (what C13 proves about divideNodesBinarySearch)'))
UNITS.append(Unit(name='CSR_constructEdgeValue_assumed', kind='assumed', proto='void CSR_constructEdgeValue_assumed(struct CSRF* self, uint64_t nn)',
                  contract="""__CPROVER_requires(nn < fg.numEdges)
__CPROVER_ensures(self->edgeData[nn] == ((const uint32_t*)fg.edgeData)[nn])
__CPROVER_assigns(self->edgeData[nn])""", prelude=[FP, CFP], says='the contract proved by CSR_constructEdgeValue, without its allocation preconditions (the caller owns the arrays)'))

EXPLANATION = ('LC_CSR_Graph raw_begin/raw_end/getDegree and the callback constructor are extracted from /repo, lowered to C and proved: per-node edge ranges come from consecutive index entries '
               '(ordered, adjacent, from 0 to numEdges: lemma over the contracts), and the constructor builds the index as the prefix sum of the callback\'s edge counts and writes every slot of a node\'s range exactly once with the callback\'s destination and data.  '
               'Construction from a graph file: FileGraph::edge_begin/edge_end/getEdgeDst (v1, v2)/getEdgeData<uint32|uint64> against the file sections, LC_CSR_Graph::constructEdgeValue, and the per-thread body constructFrom(FileGraph&, tid, total): '
               'for the node range a thread is given, index entries, destinations and edge data of exactly those nodes are the file\'s, in file order, and nothing else is written.')
NOT_DECIDED = ('every other layout (CSR+CSC, InOut, Linear, InlineEdge, Morph-LC, hypergraph), in-edges, transpose, edge sorting, binary-search lookup, NUMA options, local ranges (C13 covers the division); '
               'the composition of the per-thread constructFrom calls over all threads (the node ranges partition the nodes: C13) and the allocation/readGraph driver; constructFrom for other instantiations than (uint32 data, v1) and (void, v2); partial files (nodeOffset/edgeOffset != 0).')
ASSUMPTIONS = ['callbacks are deterministic; per-node edge count <= 2^20, numNodes <= 2^24 (size bounds)', 'the prefix-sum ghost array is defined by the instances edgeNum(n) produces (never written)', 'allocation calls dropped; LargeArray = plain arrays',
               'constructFrom: the FileGraph calls are inline stubs restating the proved FG_* contracts for a whole file, plus "the file index never decreases" (validity of the input file); divideByNode = assumed contract (C13); little-endian host']

# ---- edge lookup: findEdge (linear) and findEdgeSortedByDst (binary search) ---------------------------------------------------------------
# The std algorithms are stubs carrying the standard's effects in ghost-probe form (g_k = an arbitrary edge slot, never written):
# find_if = first position satisfying the predicate (or last); lower_bound on a range partitioned w.r.t. `dst < N` (= sorted ascending by
# destination, the documented precondition of findEdgeSortedByDst) = the partition point.  The destination array is a fresh object of
# exactly numEdges entries, so reading slot numEdges (= edge_end of the last node) is a failed pointer obligation.
LKP = '''
struct CSRL { uint64_t numEdges; uint32_t* edgeDst; } lk;
uint64_t g_k;           /* ghost probe: an arbitrary edge slot */
uint64_t g_eb, g_ee;    /* edge_begin(N1) / edge_end(N1): CSR_raw_begin / CSR_raw_end */
uint64_t nondet_u64(void);
enum { OP_LT = 1, OP_LE, OP_GT, OP_GE, OP_EQ, OP_NE };
static inline uint32_t dst_at(uint64_t e) { __CPROVER_assert(e < lk.numEdges, "getEdgeDst: edge slot inside the destination array"); return lk.edgeDst[e]; }
static inline uint64_t std_find_if_dst(uint64_t b, uint64_t e, unsigned op, uint32_t N)
{ __CPROVER_assert(op == OP_EQ, "findEdge: the predicate is `destination == N2`");
  uint64_t p = nondet_u64(); __CPROVER_assume(b <= p && p <= e);
  if (p < e) __CPROVER_assume(lk.edgeDst[p] == N);
  if (b <= g_k && g_k < p) __CPROVER_assume(lk.edgeDst[g_k] != N);
  return p; }
static inline uint64_t std_lower_bound_dst(uint64_t b, uint64_t e, uint32_t N, unsigned op, uint32_t N_)
{ __CPROVER_assert(op == OP_LT && N == N_, "findEdgeSortedByDst: lower_bound for N2 with the comparator `destination < N`");
  uint64_t p = nondet_u64(); __CPROVER_assume(b <= p && p <= e);
  if (p < e) __CPROVER_assume(!(lk.edgeDst[p] < N));
  if (b <= g_k && g_k < e) __CPROVER_assume((g_k < p) == (lk.edgeDst[g_k] < N));      /* partition point of a range sorted by destination */
  if (p < e && p <= g_k && g_k < e) __CPROVER_assume(lk.edgeDst[p] <= lk.edgeDst[g_k]);      /* the caller's precondition, for the two slots that matter: the range is sorted ascending by destination */
  return p; }
#define LK_PRE (lk.numEdges <= ((uint64_t)1 << 32) && __CPROVER_is_fresh(lk.edgeDst, lk.numEdges * sizeof(uint32_t)) && g_eb <= g_ee && g_ee <= lk.numEdges)
#define LK_POST(r) (g_eb <= (r) && (r) <= g_ee && ((r) < g_ee ? lk.edgeDst[(r)] == N2 : !(g_eb <= g_k && g_k < g_ee && lk.edgeDst[g_k] == N2)))
'''
OPS = {'<': 'OP_LT', '<=': 'OP_LE', '>': 'OP_GT', '>=': 'OP_GE', '==': 'OP_EQ', '!=': 'OP_NE'}
LK_LOWER = [rx(r'edge_begin\(N1\)', 'g_eb', 1, 1), rx(r'edge_end\(N1\)', 'g_ee', 1), rx(r'\bauto e\b', 'uint64_t e', 0),
            rx(r'\[=\]\(edge_iterator e\) \{ return getEdgeDst\(e\) (==|!=|<=|>=|<|>) N2; \}', lambda m: '%s, N2' % OPS[m.group(1)], 0),
            rx(r'\[=\]\(edge_iterator e, GraphNode N\) \{ return getEdgeDst\(e\) (==|!=|<=|>=|<|>) N; \}', lambda m: '%s, N2' % OPS[m.group(1)], 0),
            rx(r'std::find_if\(', 'std_find_if_dst(', 0), rx(r'std::lower_bound\(', 'std_lower_bound_dst(', 0), rx(r'getEdgeDst\(', 'dst_at(', 0)]
UNITS.append(Unit(
    name='CSR_findEdge', src=CSR, within=WITHIN, anchor=r'edge_iterator findEdge\(GraphNode N1, GraphNode N2\)', proto='uint64_t CSR_findEdge(uint32_t N1, uint32_t N2)',
    contract='__CPROVER_requires(LK_PRE)\n__CPROVER_ensures(LK_POST(__CPROVER_return_value))\n__CPROVER_assigns()',
    prelude=[LKP], lower=LK_LOWER, no_flags=['--conversion-check'],
    says='findEdge(N1, N2): a slot of N1\'s edge range whose destination is N2, or edge_end(N1) exactly when no slot of the range (ghost probe) has that destination; std::find_if = the standard\'s contract (trusted)'))
UNITS.append(Unit(
    name='CSR_findEdgeSortedByDst', src=CSR, within=WITHIN, anchor=r'edge_iterator findEdgeSortedByDst\(GraphNode N1, GraphNode N2\)', proto='uint64_t CSR_findEdgeSortedByDst(uint32_t N1, uint32_t N2)',
    contract='__CPROVER_requires(LK_PRE)\n__CPROVER_ensures(LK_POST(__CPROVER_return_value))\n__CPROVER_assigns()',
    prelude=[LKP], lower=LK_LOWER, no_flags=['--conversion-check'], replay=dict(prog='csr_find_sorted_last', args=[], lib=True),
    says='findEdgeSortedByDst(N1, N2) on a range sorted by destination: same answer as findEdge, and every destination read lies inside the destination array -- also when the partition point is edge_end(N1) and N1 is the last node with edges (slot numEdges does not exist); std::lower_bound = the standard\'s contract (trusted)'))

# ---- in-place transpose (bounded stand-in) -------------------------------------------------------------------------------------------------
# The whole body of LC_CSR_Graph::transpose, lowered tolerantly: every galois::do_all(iterate(a, b), [&](uint64_t i) {...}) becomes a loop
# that runs the iterations in an ARBITRARY ORDER (a nondeterministic permutation of [a, b)), the __sync builtins are the plain
# read-modify-writes (atomic at this granularity), the temporary LargeArrays are local arrays with arbitrary initial content.
TPB = """
struct CSR { uint32_t numNodes; uint64_t numEdges; uint64_t* edgeIndData; uint32_t* edgeDst; uint64_t* edgeData; };
#define BN 3u
/* BE = edge bound, from -DBE= */
uint64_t IDXA[BN]; uint32_t DSTA[BE]; uint64_t DATA_[BE];
uint64_t OIDX[BN]; uint32_t ODST[BE]; uint64_t ODAT[BE];
struct CSR G;
uint32_t nondet_u32(void); uint64_t nondet_u64(void);
#define gv_sync_add_and_fetch(p, v) (*(p) += (v))
#define gv_sync_fetch_and_add(p, v) ((*(p) += (v)) - (v))
/* an arbitrary order of the iterations a, a+1, ..., b-1 (at most BE of them) */
static inline void gv_make_perm(uint64_t* perm, uint64_t a, uint64_t b)
{ for (unsigned i = 0; i < BE; ++i) { perm[i] = nondet_u64(); __CPROVER_assume(a + i >= b || (a <= perm[i] && perm[i] < b)); for (unsigned j = 0; j < i; ++j) __CPROVER_assume(a + i >= b || perm[i] != perm[j]); } }
static inline uint32_t src_of(const uint64_t* idx, uint32_t nn, uint64_t e) { uint32_t s = 0; for (uint32_t n = 0; n < BN; ++n) if (n < nn && idx[n] <= e) s = n + 1; return s; }
void CSR_transpose_b(struct CSR* self);
"""
DO_ALL = rx(r'galois::do_all\(\s*galois::iterate\(UINT64_C\((\d+)\), (\w+)\),\s*\[&\]\(uint64_t (\w+)\) \{(.*?)\},\s*galois::no_stats\(\), galois::loopname\("\w+"\)\);',
            r'{ uint64_t gv_perm[BE]; const uint64_t gv_a = \1, gv_b = \2; __CPROVER_assert(gv_b <= gv_a || gv_b - gv_a <= BE, "bound"); gv_make_perm(gv_perm, gv_a, gv_b); for (uint64_t gv_i = gv_a; gv_i < gv_b; ++gv_i) { const uint64_t \3 = gv_perm[gv_i - gv_a]; \4 } }', 1, flags=re.S)
for _be, _tier, _to in ((3, 'quick', 600), (4, 'thorough', 1800)):
  UNITS.append(Unit(
    name='CSR_transpose_small_e%d' % _be, kind='bounded', unwind=6, dfcc=False, defines=['BE=%du' % _be], tier=_tier, bound_desc='numNodes <= 3, numEdges <= %d (all such graphs' % _be + ', all destinations and edge data), every do_all in every ORDER of its iterations (iteration = atomic step), loops unwound completely',
    src=CSR, within=WITHIN, anchor=r'void transpose\(const char\* regionName = NULL\)', proto='void CSR_transpose_b(struct CSR* self)', contract='',
    prelude=[TPB],
    lower=[rx(r'galois::StatTimer timer\([^;]*;\s*timer\.start\(\);', '', 1, 1), rx(r'timer\.stop\(\);', '', 1, 1),
           rx(r'EdgeDst edgeDst_old;', 'uint32_t edgeDst_old[BE];', 1, 1), rx(r'EdgeData edgeData_new;', 'uint64_t edgeData_new[BE];', 1, 1),
           rx(r'EdgeIndData edgeIndData_old;', 'uint64_t edgeIndData_old[BN];', 1, 1), rx(r'EdgeIndData edgeIndData_temp;', 'uint64_t edgeIndData_temp[BN];', 1, 1),
           rx(r'if \(UseNumaAlloc\) \{.*?\n    \} else \{.*?\n    \}', '', 1, 1, flags=re.S),
           DO_ALL,
           rx(r'edgeDataCopy\((\w+), (\w+), (\w+), (\w+)\);', r'\1[\3] = \2[\4];      /* edgeDataCopy, non-void edge data */', 1),
           rx(r'if \(EdgeData::has_value\)', 'if (1)', 0),
           rx(r'__sync_add_and_fetch\(', 'gv_sync_add_and_fetch(', 0), rx(r'__sync_fetch_and_add\(', 'gv_sync_fetch_and_add(', 0),
           rx(r'\bauto dst\b', 'uint32_t dst', 0), rx(r'\bauto e_new\b', 'uint64_t e_new', 0),
           rx(r'(?<![\w.>])(edgeIndData|edgeDst|edgeData)\[', r'self->\1[', 1),
           rx(r'UINT64_C\((\d+)\)', r'\1ull', 0),
           members(['numNodes', 'numEdges'], minimum=1)],
    harness="""
  uint32_t nn = nondet_u32(); __CPROVER_assume(nn <= BN);
  uint64_t ne = nondet_u64(); __CPROVER_assume(ne <= BE && (nn > 0 || ne == 0));
  for (unsigned n = 0; n < BN; ++n) { IDXA[n] = nondet_u64(); if (n < nn) { __CPROVER_assume(IDXA[n] <= ne && (n == 0 || IDXA[n - 1] <= IDXA[n])); if (n == nn - 1) __CPROVER_assume(IDXA[n] == ne); } OIDX[n] = IDXA[n]; }
  for (unsigned e = 0; e < BE; ++e) { DSTA[e] = nondet_u32(); DATA_[e] = nondet_u64(); if (e < ne) __CPROVER_assume(DSTA[e] < nn); ODST[e] = DSTA[e]; ODAT[e] = DATA_[e]; }
  G.numNodes = nn; G.numEdges = ne; G.edgeIndData = IDXA; G.edgeDst = DSTA; G.edgeData = DATA_;
  CSR_transpose_b(&G);
  __CPROVER_assert(G.numNodes == nn && G.numEdges == ne, "node and edge counts unchanged");
  for (unsigned n = 0; n < BN; ++n) if (n < nn) {
    __CPROVER_assert(IDXA[n] <= ne && (n == 0 || IDXA[n - 1] <= IDXA[n]), "transposed index array: non-decreasing, inside the edge array");
    if (n == nn - 1) __CPROVER_assert(IDXA[n] == ne, "transposed index array ends at numEdges");
  }
  /* the transposed graph presents exactly the reversed edge multiset, edge data included: every original edge (s -> d, w)
     occurs as often as (d -> s, w) does afterwards (same total number of edges, so the multisets are equal) */
  for (unsigned e0 = 0; e0 < BE; ++e0) if (e0 < ne) {
    uint32_t s = src_of(OIDX, nn, e0), d = ODST[e0]; uint64_t w = ODAT[e0];
    unsigned before = 0, after = 0;
    for (unsigned e = 0; e < BE; ++e) if (e < ne) {
      if (src_of(OIDX, nn, e) == s && ODST[e] == d && ODAT[e] == w) before++;
      if (src_of(IDXA, nn, e) == d && DSTA[e] == s && DATA_[e] == w) after++;
    }
    __CPROVER_assert(before == after, "every edge (s -> d, data) of the input occurs equally often as (d -> s, data) in the transposed graph");
  }
""",
    reach=True, no_flags=['--conversion-check'], timeout=_to,
    replay=dict(prog='csr_transpose', lib=True, args=['nn', 'ne'] + ['OIDX[%dl]' % i for i in range(3)] + ['ODST[%dl]' % i for i in range(_be)] + ['ODAT[%dl]' % i for i in range(_be)]),
    inst='EdgeTy with has_value (edge data moved with the edge), no NUMA options; temporary arrays = locals with arbitrary initial content',
    says='BOUNDED: in-place transpose of every graph with <= 3 nodes and <= %d edges,' % _be + ' the iterations of every parallel loop taken in every order: the index array is a valid CSR index again and the graph presents exactly the reversed edge multiset with each edge\'s data (the atomic counters hand every edge its own slot of its new source\'s range)',
    trusted=['galois::do_all runs every iteration exactly once (C03/C04); iterations are interleaved at iteration granularity only (each shared access inside is one atomic read-modify-write or touches a slot no other iteration touches)', 'allocation block dropped; edgeDataCopy inlined by rule (non-void overload)']))

# ---- in-edges of LC_CSR_CSC_Graph (bounded stand-ins) ---------------------------------------------------------------------------------------
# constructIncomingEdges = zero the counters; determineInEdgeIndices (count, prefix sum, copy); determineInEdgeDestAndData (start offsets,
# scatter with atomic counters).  Instantiation: EdgeDataByValue = false, non-void EdgeTy: every in-edge stores the POSITION of its out-edge,
# so the exact statement is: in-slot k of node d  |->  inEdgeData[k] is a bijection onto the out-edge slots, the out-edge it names ends in d
# and starts at inEdgeDst[k].  Same lowering of galois::do_all as for transpose (iterations in every order).
CSCF = 'libgalois/include/galois/graphs/LC_CSR_CSC_Graph.h'
CSCW = r'class LC_CSR_CSC_Graph\b'
CSCP = """
struct CSC { uint32_t numNodes; uint64_t numEdges; uint64_t* edgeIndData; uint32_t* edgeDst; uint64_t* inEdgeIndData; uint32_t* inEdgeDst; uint64_t* inEdgeData; };
#define BN 3u
/* BE = edge bound, from -DBE= */
uint64_t IDXA[BN]; uint32_t DSTA[BE]; uint64_t OIDX[BN]; uint32_t ODST[BE];
uint64_t INIDX[BN]; uint32_t INDST[BE]; uint64_t INDAT[BE]; uint64_t DBUF[BN];
struct CSC G;
uint32_t nn; uint64_t ne;
uint32_t nondet_u32(void); uint64_t nondet_u64(void);
#define gv_sync_add_and_fetch(p, v) (*(p) += (v))
#define gv_sync_fetch_and_add(p, v) ((*(p) += (v)) - (v))
static inline void gv_make_perm(uint64_t* perm, uint64_t a, uint64_t b)
{ for (unsigned i = 0; i < BE; ++i) { perm[i] = nondet_u64(); __CPROVER_assume(a + i >= b || (a <= perm[i] && perm[i] < b)); for (unsigned j = 0; j < i; ++j) __CPROVER_assume(a + i >= b || perm[i] != perm[j]); } }
static inline uint32_t src_of(const uint64_t* idx, uint32_t n_, uint64_t e) { uint32_t s = 0; for (uint32_t n = 0; n < BN; ++n) if (n < n_ && idx[n] <= e) s = n + 1; return s; }
/* an arbitrary valid CSR out-graph; freshly allocated in-arrays with arbitrary content */
static inline void gv_any_graph(void)
{ nn = nondet_u32(); __CPROVER_assume(nn <= BN); ne = nondet_u64(); __CPROVER_assume(ne <= BE && (nn > 0 || ne == 0));
  for (unsigned n = 0; n < BN; ++n) { IDXA[n] = nondet_u64(); if (n < nn) { __CPROVER_assume(IDXA[n] <= ne && (n == 0 || IDXA[n - 1] <= IDXA[n])); if (n == nn - 1) __CPROVER_assume(IDXA[n] == ne); } OIDX[n] = IDXA[n]; INIDX[n] = nondet_u64(); DBUF[n] = nondet_u64(); }
  for (unsigned e = 0; e < BE; ++e) { DSTA[e] = nondet_u32(); if (e < ne) __CPROVER_assume(DSTA[e] < nn); ODST[e] = DSTA[e]; INDST[e] = nondet_u32(); INDAT[e] = nondet_u64(); }
  G.numNodes = nn; G.numEdges = ne; G.edgeIndData = IDXA; G.edgeDst = DSTA; G.inEdgeIndData = INIDX; G.inEdgeDst = INDST; G.inEdgeData = INDAT; }
static inline uint64_t indeg_upto(uint32_t n) { uint64_t c = 0; for (unsigned e = 0; e < BE; ++e) if (e < ne && ODST[e] <= n) c++; return c; }
static inline void gv_check_out_unchanged(void)
{ __CPROVER_assert(G.numNodes == nn && G.numEdges == ne, "node and edge counts unchanged");
  for (unsigned n = 0; n < BN; ++n) if (n < nn) __CPROVER_assert(IDXA[n] == OIDX[n], "out-edge index untouched");
  for (unsigned e = 0; e < BE; ++e) if (e < ne) __CPROVER_assert(DSTA[e] == ODST[e], "out-edge destinations untouched"); }
static inline void gv_check_in_index(void)
{ for (unsigned n = 0; n < BN; ++n) if (n < nn) __CPROVER_assert(INIDX[n] == indeg_upto(n), "in-edge index entry n = number of edges whose destination is <= n"); }
static inline void gv_check_in_edges(void)
{ for (unsigned k = 0; k < BE; ++k) if (k < ne) {
    uint32_t d = src_of(INIDX, nn, k); uint64_t o = INDAT[k];
    __CPROVER_assert(o < ne, "an in-edge names an existing out-edge slot");
    if (o < ne) { __CPROVER_assert(ODST[o] == d, "in-slot k of node d names an out-edge that ends in d");
                  __CPROVER_assert(src_of(OIDX, nn, o) == INDST[k], "the in-edge's other end is the source of that out-edge"); }
    for (unsigned k2 = 0; k2 < k; ++k2) __CPROVER_assert(INDAT[k2] != o, "no out-edge is presented twice as an in-edge (bijection)");
  } }
void CSC_createEdgeData(struct CSC* self, const uint64_t e_new, const uint64_t e);
void CSC_determineInEdgeIndices(struct CSC* self, uint64_t* dataBuffer);
void CSC_determineInEdgeDestAndData(struct CSC* self, uint64_t* dataBuffer);
void CSC_constructIncomingEdges(struct CSC* self);
"""
DO_ALL2 = rx(r'galois::do_all\(\s*galois::iterate\(UINT64_C\((\d+)\), (\w+)\),\s*\[&\]\(uint64_t (\w+)\) \{(.*?)\}(?:,\s*galois::no_stats\(\), galois::loopname\("\w+"\))?\);',
             r'{ uint64_t gv_perm[BE]; const uint64_t gv_a = \1, gv_b = \2; __CPROVER_assert(gv_b <= gv_a || gv_b - gv_a <= BE, "bound"); gv_make_perm(gv_perm, gv_a, gv_b); for (uint64_t gv_i = gv_a; gv_i < gv_b; ++gv_i) { const uint64_t \3 = gv_perm[gv_i - gv_a]; \4 } }', 0, flags=re.S)      # min 0: createEdgeData has no loop; an unlowered do_all does not compile as C (= undecided)
CSC_LOWER = [rx(r'BaseGraph::', '', 0), rx(r'galois::StatTimer \w+\([^;]*;\s*\w+\.start\(\);', '', 0), rx(r'\w+Timer\.stop\(\);', '', 0),
             rx(r'EdgeIndData dataBuffer;', 'uint64_t dataBuffer[BN];', 0), rx(r'\w+\.allocateInterleaved\([^;]*\);', ';', 0),
             DO_ALL2, rx(r'!std::is_void<EdgeTy>::value', '1', 0),
             rx(r'__sync_add_and_fetch\(', 'gv_sync_add_and_fetch(', 0), rx(r'__sync_fetch_and_add\(', 'gv_sync_fetch_and_add(', 0),
             rx(r'\bauto dst\b', 'uint32_t dst', 0), rx(r'\bauto e_new\b', 'uint64_t e_new', 0),
             rx(r'(?<![\w.>])createEdgeData\(', 'CSC_createEdgeData(self, ', 0),
             rx(r'(?<![\w.>])determineInEdgeIndices\(', 'CSC_determineInEdgeIndices(self, ', 0), rx(r'(?<![\w.>])determineInEdgeDestAndData\(', 'CSC_determineInEdgeDestAndData(self, ', 0),
             rx(r'(?<![\w.>])(edgeIndData|edgeDst|inEdgeIndData|inEdgeDst|inEdgeData)\[', r'self->\1[', 0),
             rx(r'UINT64_C\((\d+)\)', r'\1ull', 0), members(['numNodes', 'numEdges'], minimum=0)]
_CSC_TRUSTED = ['galois::do_all runs every iteration exactly once (C03/C04); iterations interleave at iteration granularity only', 'allocation calls dropped: arrays supplied by the harness with arbitrary content']
for _be, _tier, _to in ((4, 'quick', 900), (5, 'thorough', 3000)):
    _sfx = '_e%d' % _be
    _kw = dict(kind='bounded', unwind=_be + 2, dfcc=False, defines=['BE=%du' % _be], tier=_tier, src=CSCF, within=CSCW, contract='', prelude=[CSCP], lower=CSC_LOWER, reach=True,
               no_flags=['--conversion-check'], timeout=_to, inst='EdgeDataByValue = false, non-void EdgeTy (in-edges store the position of their out-edge)', trusted=_CSC_TRUSTED)
    _bd = 'numNodes <= 3, numEdges <= %d (all such graphs), every do_all in every order of its iterations, loops unwound completely' % _be
    _rp = dict(prog='csc_inedges', lib=True, args=['nn', 'ne'] + ['OIDX[%dl]' % i for i in range(3)] + ['ODST[%dl]' % i for i in range(_be)])      # end-to-end native run on the counterexample's out-graph
    UNITS.append(Unit(name='CSC_createEdgeData' + _sfx, anchor=r'void createEdgeData\(const uint64_t e_new, const uint64_t e\)', occurrence=1, of=2,
                      proto='void CSC_createEdgeData(struct CSC* self, const uint64_t e_new, const uint64_t e)', bound_desc=_bd,
                      harness='  gv_any_graph();\n  uint64_t k = nondet_u64(), e = nondet_u64(); __CPROVER_assume(k < ne && e < ne);\n  CSC_createEdgeData(&G, k, e);\n  __CPROVER_assert(INDAT[k] == e, "in-edge k names out-edge e");\n  gv_check_out_unchanged();\n',
                      says='BOUNDED: createEdgeData (by-reference overload): in-edge slot e_new records the position e of its out-edge', **_kw))
    UNITS.append(Unit(name='CSC_determineInEdgeIndices' + _sfx, replay=_rp, anchor=r'void determineInEdgeIndices\(EdgeIndData& dataBuffer\)',
                      proto='void CSC_determineInEdgeIndices(struct CSC* self, uint64_t* dataBuffer)', bound_desc=_bd,
                      harness='  gv_any_graph();\n  for (unsigned n = 0; n < BN; ++n) DBUF[n] = 0;      /* constructIncomingEdges zeroes the counters first */\n  CSC_determineInEdgeIndices(&G, DBUF);\n  gv_check_in_index();\n  for (unsigned n = 0; n < BN; ++n) if (n < nn) __CPROVER_assert(DBUF[n] == INIDX[n], "the buffer holds the same prefix sums");\n  gv_check_out_unchanged();\n',
                      says='BOUNDED: determineInEdgeIndices from zeroed counters: in-edge index entry n = number of edges with destination <= n (prefix sum of the in-degrees), out-edges untouched', **_kw))
    UNITS.append(Unit(name='CSC_determineInEdgeDestAndData' + _sfx, replay=_rp, anchor=r'void determineInEdgeDestAndData\(EdgeIndData& dataBuffer\)',
                      proto='void CSC_determineInEdgeDestAndData(struct CSC* self, uint64_t* dataBuffer)', bound_desc=_bd, inline=['CSC_createEdgeData' + _sfx],
                      harness='  gv_any_graph();\n  for (unsigned n = 0; n < BN; ++n) if (n < nn) INIDX[n] = indeg_upto(n);      /* what determineInEdgeIndices leaves */\n  CSC_determineInEdgeDestAndData(&G, DBUF);\n  gv_check_in_index();\n  gv_check_in_edges();\n  gv_check_out_unchanged();\n',
                      says='BOUNDED: determineInEdgeDestAndData on a correct in-edge index and an arbitrary buffer: the in-edge slots are a bijection onto the out-edge slots, each in-edge of node d names an out-edge ending in d and carries that edge\'s source', **_kw))
    UNITS.append(Unit(name='CSC_constructIncomingEdges' + _sfx, replay=_rp, anchor=r'void constructIncomingEdges\(\)',
                      proto='void CSC_constructIncomingEdges(struct CSC* self)', bound_desc=_bd, inline=['CSC_createEdgeData' + _sfx, 'CSC_determineInEdgeIndices' + _sfx, 'CSC_determineInEdgeDestAndData' + _sfx],
                      harness='  gv_any_graph();\n  CSC_constructIncomingEdges(&G);\n  gv_check_in_index();\n  gv_check_in_edges();\n  gv_check_out_unchanged();\n',
                      says='BOUNDED: constructIncomingEdges end to end (real bodies of the three helpers inlined): the in-edge view presents exactly the reversed out-edges -- in-edge index = prefix sums of the in-degrees, in-slots <-> out-slots bijective with matching end points -- for every graph with <= 3 nodes and <= %d edges' % _be, **_kw))

# ---- edge sorting: the proxy reference std::sort moves edges through (Details.h) ------------------------------------------------------------
# sortEdges* hand std::sort a range of EdgeSortIterator; every move std::sort makes goes through EdgeSortReference::operator=, operator*
# and swap().  Under contract: each of them moves the (destination, data) PAIR of a slot as a unit and touches no other slot (ghost probe),
# so whatever sequence of moves the algorithm makes keeps the node's edges a permutation of the same (destination, data) multiset.
DET = 'libgalois/include/galois/graphs/Details.h'
ESP = '''
struct ESV { uint64_t val; uint32_t rawDst; uint32_t dst; };      /* EdgeSortValue: StrictObject<EdgeTy> value, rawDst, dst */
struct ESR { uint64_t at; uint32_t* edgeDst; uint64_t* edgeData; };
uint64_t g_n;        /* ghost: number of edge slots of the two arrays */
uint64_t g_k;        /* ghost probe: an arbitrary slot, never written */
uint32_t __CPROVER_uninterpreted_conv(uint32_t);      /* GraphNodeConverter()(raw destination): a pure function (identity for LC_CSR_Graph) */
#define GV_CONV(x) __CPROVER_uninterpreted_conv(x)
#define LA_SET(arr, i, v) ((arr)[i] = (v))
#define LA_AT(arr, i) ((arr)[i])
/* EdgeSortValue(d, rd, v) : Super(v), rawDst(rd), dst(d) -- the member-initialiser list, restated (trusted) */
static inline struct ESV ESV_make(uint32_t d, uint32_t rd, uint64_t v) { struct ESV r; r.val = v; r.rawDst = rd; r.dst = d; return r; }
#define ESR_OK(r) (g_n >= 1 && g_n <= ((uint64_t)1 << 32) && (r)->at < g_n && __CPROVER_is_fresh((r)->edgeDst, g_n * sizeof(uint32_t)) && __CPROVER_is_fresh((r)->edgeData, g_n * sizeof(uint64_t)))
'''
ES_LOWER = [rx(r'(?<![\w.>])(edgeDst|edgeData)->set\(', r'LA_SET(self->\1, ', 0), rx(r'(?<![\w.>])(edgeDst|edgeData)->at\(', r'LA_AT(self->\1, ', 0),
            rx(r'(?<![\w.>])at\b(?!\s*\()', 'self->at', 0), rx(r'\bx\.rawDst\b', 'x->rawDst', 0), rx(r'\bx\.get\(\)', 'x->val', 0), rx(r'\bx\.at\b', 'x->at', 0),
            rx(r'return \*this;', 'return;', 0),
            rx(r'return EdgeSortValue<GraphNode, EdgeTy>\(\s*GraphNodeConverter\(\)\(', 'return ESV_make(GV_CONV(', 0)]
ESW = r'struct EdgeSortReference\b'
UNITS.append(Unit(
    name='ESR_assign_value', src=DET, within=ESW, anchor=r'EdgeSortReference operator=\(const EdgeSortValue<GraphNode, EdgeTy>& x\)', proto='void ESR_assign_value(struct ESR* self, const struct ESV* x)',
    contract='''__CPROVER_requires(__CPROVER_is_fresh(self, sizeof(*self)) && __CPROVER_is_fresh(x, sizeof(*x)) && ESR_OK(self) && g_k < g_n)
__CPROVER_ensures(self->edgeDst[self->at] == x->rawDst && self->edgeData[self->at] == x->val)
__CPROVER_ensures(g_k != self->at ==> (self->edgeDst[g_k] == __CPROVER_old(self->edgeDst[g_k]) && self->edgeData[g_k] == __CPROVER_old(self->edgeData[g_k])))
__CPROVER_assigns(__CPROVER_object_whole(self->edgeDst), __CPROVER_object_whole(self->edgeData))''',
    prelude=[ESP], lower=ES_LOWER, no_flags=['--conversion-check'],
    says='reference = value: slot `at` receives the value\'s raw destination AND its data; no other slot changes'))
UNITS.append(Unit(
    name='ESR_assign_ref', src=DET, within=ESW, anchor=r'EdgeSortReference operator=\(const EdgeSortReference& x\)', proto='void ESR_assign_ref(struct ESR* self, uint64_t x_at)',
    contract='''__CPROVER_requires(__CPROVER_is_fresh(self, sizeof(*self)) && ESR_OK(self) && g_k < g_n && x_at < g_n)
__CPROVER_ensures(self->edgeDst[self->at] == __CPROVER_old(self->edgeDst[x_at]) && self->edgeData[self->at] == __CPROVER_old(self->edgeData[x_at]))
__CPROVER_ensures(g_k != self->at ==> (self->edgeDst[g_k] == __CPROVER_old(self->edgeDst[g_k]) && self->edgeData[g_k] == __CPROVER_old(self->edgeData[g_k])))
__CPROVER_assigns(__CPROVER_object_whole(self->edgeDst), __CPROVER_object_whole(self->edgeData))''',
    prelude=[ESP], lower=[rx(r'\bx\.at\b', 'x_at', 2, 2)] + ES_LOWER, no_flags=['--conversion-check'],
    says='reference = reference (same arrays): slot `at` receives the pair of slot x.at; no other slot changes'))
UNITS.append(Unit(
    name='ESR_deref', src=DET, within=ESW, anchor=r'EdgeSortValue<GraphNode, EdgeTy> operator\*\(\) const', proto='struct ESV ESR_deref(const struct ESR* self)',
    contract='''__CPROVER_requires(__CPROVER_is_fresh(self, sizeof(*self)) && ESR_OK(self))
__CPROVER_ensures(__CPROVER_return_value.rawDst == self->edgeDst[self->at] && __CPROVER_return_value.dst == GV_CONV(self->edgeDst[self->at]) && __CPROVER_return_value.val == self->edgeData[self->at])
__CPROVER_assigns()''',
    prelude=[ESP], lower=ES_LOWER, no_flags=['--conversion-check'],
    says='*reference: the value carries the slot\'s raw destination, its converted destination and its data (the pair of ONE slot)'))
UNITS.append(Unit(
    name='ESR_swap', src=DET, anchor=r'void swap\(EdgeSortReference<A, B, C, D, E> a,\s*EdgeSortReference<A, B, C, D, E> b\)', proto='void ESR_swap(struct ESR* a, struct ESR* b)',
    contract='''__CPROVER_requires(__CPROVER_is_fresh(a, sizeof(*a)) && __CPROVER_is_fresh(b, sizeof(*b)) && ESR_OK(a) && b->at < g_n && g_k < g_n)
__CPROVER_ensures(a->edgeDst[a->at] == __CPROVER_old(a->edgeDst[b->at]) && a->edgeData[a->at] == __CPROVER_old(a->edgeData[b->at]))
__CPROVER_ensures(a->edgeDst[b->at] == __CPROVER_old(a->edgeDst[a->at]) && a->edgeData[b->at] == __CPROVER_old(a->edgeData[a->at]))
__CPROVER_ensures((g_k != a->at && g_k != b->at) ==> (a->edgeDst[g_k] == __CPROVER_old(a->edgeDst[g_k]) && a->edgeData[g_k] == __CPROVER_old(a->edgeData[g_k])))
__CPROVER_assigns(__CPROVER_object_whole(a->edgeDst), __CPROVER_object_whole(a->edgeData), b->edgeDst, b->edgeData)''',      # b's two pointers: the ghost prefix below (by-value copies in the real code)
    prelude=[ESP], inline=['ESR_deref', 'ESR_assign_value'],
    ghost_prefix='b->edgeDst = a->edgeDst; b->edgeData = a->edgeData;   /* both references point into the same graph (set here, not assumed: value sets) */',
    lower=[rx(r'auto (\w+)\s*= \*(a|b);', r'struct ESV \1 = ESR_deref(\2);', 1), rx(r'(?<![\w.>])(a|b)\s*= (\w+);', r'ESR_assign_value(\1, &\2);', 1)],
    no_flags=['--conversion-check'],
    says='swap(a, b) of two proxy references into the same arrays (real bodies of operator* and operator= inlined): the two slots exchange their (destination, data) pairs, every other slot is unchanged -- also when a and b name the same slot'))
