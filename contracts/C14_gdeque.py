"""C14 (part) -- galois::gdeque<T, 4> (gdeque.h): the operations at the two ends, which is how the worklists use it.
A gdeque is a doubly linked list of FixedSizeRing blocks; the list is unbounded, so the contracts are LOCAL: they describe
the end block, its neighbour and the deque's first/last/num fields, and say that the operation touches nothing else.
The ring operations underneath are the extracted FixedSizeRing bodies (contracts/C14.py), inlined.  Not decided: clear(),
emplace/erase in the middle, iterators, operator[] (walks over an unbounded list)."""
import re
from gv.unit import Unit
from gv.lower import (bind, ren, members, refs, call, fcall, index, stdfn, mkpair, casts, drop, dropcall, rx)

GDQ = 'libgalois/include/galois/gdeque.h'
W = r'class gdeque\b'
UNITS = []
CS = 4
SFX = '_%d' % CS


def make(ring_prelude, RING_UNITS):
    """called from C14.py with its ring prelude for ChunkSize 4 and the names of the ring units to inline"""
    P = [ring_prelude, '''
#include <stdlib.h>
struct Block { struct Ring ring; struct Block* next; struct Block* prev; };     /* Block : FixedSizeRing<T, 4> (base class first) */
struct GDeque { struct Block* first; struct Block* last; unsigned num; };
bool g_empty, g_hasnb;      /* ghost: the deque is empty / the end block has a neighbour */
unsigned g_back;            /* ghost (shrink): the block is the last (1) / the first (0) block */
/* alloc_block(): FixedSizeAllocator::allocate(1) + placement new Block() -- a fresh block holding the empty ring, unlinked (trusted stub; never fails) */
static inline struct Block* gd_alloc_block(void)
{ struct Block* b = (struct Block*)malloc(sizeof(struct Block)); __CPROVER_assume(b != 0); b->ring.start = 0; b->ring.count = 0; b->ring.live[0] = 0; b->ring.live[1] = 0; b->ring.live[2] = 0; b->ring.live[3] = 0; b->next = 0; b->prev = 0; return b; }
/* free_block(): ~Block() (the ring must not hold live elements any more) + deallocate */
static inline void gd_free_block(struct Block* b)
{ __CPROVER_assert(b->ring.count == 0, "free_block: no element is lost (the block is empty)"); free(b); }
#define BLK_OK(b) (RING_INV(&(b)->ring) && (b)->ring.count >= 1)     /* list invariant: no empty block */
/* shape seen from the back (the front mirrors it): */
#define BACK_SHAPE(d) (__CPROVER_is_fresh(d, sizeof(*(d))) && (g_empty ? ((d)->first == 0 && (d)->last == 0 && (d)->num == 0) \\
   : ((d)->num >= 1 && (d)->num < 0x7fffffff && __CPROVER_is_fresh((d)->last, sizeof(struct Block)) && BLK_OK((d)->last) && (d)->last->next == 0 && \\
      (g_hasnb ? (__CPROVER_is_fresh((d)->last->prev, sizeof(struct Block)) && (d)->first != 0 && (d)->first != (d)->last) : ((d)->last->prev == 0 && (d)->first == (d)->last)))))
#define FRONT_SHAPE(d) (__CPROVER_is_fresh(d, sizeof(*(d))) && (g_empty ? ((d)->first == 0 && (d)->last == 0 && (d)->num == 0) \\
   : ((d)->num >= 1 && (d)->num < 0x7fffffff && __CPROVER_is_fresh((d)->first, sizeof(struct Block)) && BLK_OK((d)->first) && (d)->first->prev == 0 && \\
      (g_hasnb ? (__CPROVER_is_fresh((d)->first->next, sizeof(struct Block)) && (d)->last != 0 && (d)->last != (d)->first) : ((d)->first->next == 0 && (d)->last == (d)->first)))))
''']
    M = members(['first', 'last', 'num'], minimum=1)
    COMMON = [rx(r'#ifndef NDEBUG\n(.*?)#else.*?#endif', r'\1', 0, flags=re.S), rx(r'std::forward<Args>\(args\)\.\.\.', 'v', 0), rx(r'\bNULL\b', '0', 0),
              rx(r'(?<![\w.>])(last|first)->(full|empty)\(\)', r'Ring_\2%s(&\1->ring)' % SFX, 0), rx(r'(?<![\w.>])(last|first)->(emplace_back|emplace_front)\(', r'Ring_\2%s(&\1->ring, ' % SFX, 0),
              rx(r'(?<![\w.>])(last|first)->(pop_back|pop_front|front|back)\(\)', r'Ring_\2%s(&\1->ring)' % SFX, 0),
              rx(r'(?<![\w.>])pointer p = ', 'gv_elem* p = ', 0), rx(r'assert\(p\);', '__CPROVER_assert(p != 0, "code-assert: p");', 0),
              rx(r'assert\(precondition\(\)\);', '__CPROVER_assert(GD_precondition(self), "code-assert: precondition()");', 0), rx(r'assert\(!empty\(\)\);', '__CPROVER_assert(!GD_empty(self), "code-assert: !empty()");', 0),
              rx(r'(?<![\w.>])(extend_last|extend_first)\(\)', r'GD_\1(self)', 0), rx(r'(?<![\w.>])shrink\((\w+)\)', r'GD_shrink(self, \1)', 0),
              rx(r'(?<![\w.>])alloc_block\(\)', 'gd_alloc_block()', 0), rx(r'(?<![\w.>])free_block\((\w+)\)', r'gd_free_block(\1)', 0), rx(r'(?<![\w.>])Block\*', 'struct Block*', 0)]
    RI = list(RING_UNITS)

    def U(name, anchor, proto, contract, says, inl=(), extra=(), **kw):
        UNITS.append(Unit(name='GD_' + name, src=GDQ, within=W, anchor=anchor, proto=proto, contract=contract, prelude=P, inline=RI + ['GD_' + i for i in inl],
                          lower=list(extra) + COMMON + [M], no_flags=['--conversion-check'], inst='T = opaque 64-bit token, ChunkSize = 4', says=says, **kw))

    U('precondition', r'bool precondition\(\) const', 'bool GD_precondition(const struct GDeque* self)',
      '__CPROVER_requires(__CPROVER_is_fresh(self, sizeof(*self)))\n__CPROVER_ensures(__CPROVER_return_value == ((self->num == 0 && self->first == 0 && self->last == 0) || (self->num > 0 && self->first != 0 && self->last != 0)))\n__CPROVER_assigns()',
      'the class\'s own precondition predicate')
    U('size', r'size_t size\(\) const', 'size_t GD_size(const struct GDeque* self)',
      '__CPROVER_requires(BACK_SHAPE(self))\n__CPROVER_ensures(__CPROVER_return_value == self->num)\n__CPROVER_assigns()', 'size() = num (the code\'s own assertion holds)', inl=['precondition'])
    U('empty', r'bool empty\(\) const', 'bool GD_empty(const struct GDeque* self)',
      '__CPROVER_requires(BACK_SHAPE(self))\n__CPROVER_ensures(__CPROVER_return_value == (self->num == 0))\n__CPROVER_assigns()', 'empty() <=> num == 0', inl=['precondition'])
    U('extend_last', r'Block\* extend_last\(\)', 'struct Block* GD_extend_last(struct GDeque* self)',
      '''__CPROVER_requires(BACK_SHAPE(self))
__CPROVER_ensures(__CPROVER_is_fresh(__CPROVER_return_value, sizeof(struct Block)) && self->last == __CPROVER_return_value && self->last->ring.count == 0 && self->last->next == 0 && self->last->prev == __CPROVER_old(self->last))
__CPROVER_ensures(__CPROVER_old(self->last) != 0 ? (__CPROVER_old(self->last)->next == self->last && self->first == __CPROVER_old(self->first)) : self->first == self->last)
__CPROVER_ensures(self->num == __CPROVER_old(self->num))
__CPROVER_assigns(self->first, self->last; self->last != 0: self->last->next)''',
      'extend_last(): a fresh empty block is linked behind the old last block (or becomes the only block); nothing else changes')
    U('extend_first', r'Block\* extend_first\(\)', 'struct Block* GD_extend_first(struct GDeque* self)',
      '''__CPROVER_requires(FRONT_SHAPE(self))
__CPROVER_ensures(__CPROVER_is_fresh(__CPROVER_return_value, sizeof(struct Block)) && self->first == __CPROVER_return_value && self->first->ring.count == 0 && self->first->prev == 0 && self->first->next == __CPROVER_old(self->first))
__CPROVER_ensures(__CPROVER_old(self->first) != 0 ? (__CPROVER_old(self->first)->prev == self->first && self->last == __CPROVER_old(self->last)) : self->last == self->first)
__CPROVER_ensures(self->num == __CPROVER_old(self->num))
__CPROVER_assigns(self->first, self->last; self->first != 0: self->first->prev)''',
      'extend_first(): a fresh empty block is linked in front of the old first block (or becomes the only block); nothing else changes')
    U('emplace_back', r'void emplace_back\(Args&&\.\.\. args\)', 'void GD_emplace_back(struct GDeque* self, gv_elem v)',
      '''__CPROVER_requires(BACK_SHAPE(self))
/* the new element is the last element of the last block; the deque grew by one */
__CPROVER_ensures(self->num == __CPROVER_old(self->num) + 1 && self->last != 0 && BLK_OK(self->last) && VIEW(&self->last->ring, self->last->ring.count - 1) == v && self->last->next == 0)
/* room in the old last block: same block, its elements kept in place, links untouched */
__CPROVER_ensures((!g_empty && __CPROVER_old(self->last->ring.count) < ChunkSize) ==> (self->last == __CPROVER_old(self->last) && self->first == __CPROVER_old(self->first) && self->last->ring.count == __CPROVER_old(self->last->ring.count) + 1 && self->last->prev == __CPROVER_old(self->last->prev) && (gj < __CPROVER_old(self->last->ring.count) ==> VIEW(&self->last->ring, gj) == __CPROVER_old(VIEW(&self->last->ring, gj)))))
/* otherwise: a new block with exactly this element, linked behind the old last block, which is untouched */
__CPROVER_ensures((g_empty || __CPROVER_old(self->last->ring.count) == ChunkSize) ==> (self->last->ring.count == 1 && self->last->prev == __CPROVER_old(self->last) && (g_empty ? self->first == self->last : (self->first == __CPROVER_old(self->first) && __CPROVER_old(self->last)->next == self->last && __CPROVER_old(self->last)->ring.count == ChunkSize && (gj < ChunkSize ==> VIEW(&__CPROVER_old(self->last)->ring, gj) == __CPROVER_old(VIEW(&self->last->ring, gj)))))))
__CPROVER_assigns(self->first, self->last, self->num; self->last != 0: __CPROVER_object_whole(self->last))''',
      'emplace_back/push_back: the deque grows by exactly v at the back -- in the last block if it has room (its other elements in place), otherwise in a fresh block linked behind it; the code\'s assertions hold',
      inl=['precondition', 'extend_last'])
    U('emplace_front', r'void emplace_front\(Args&&\.\.\. args\)', 'void GD_emplace_front(struct GDeque* self, gv_elem v)',
      '''__CPROVER_requires(FRONT_SHAPE(self))
__CPROVER_ensures(self->num == __CPROVER_old(self->num) + 1 && self->first != 0 && BLK_OK(self->first) && VIEW(&self->first->ring, 0) == v && self->first->prev == 0)
__CPROVER_ensures((!g_empty && __CPROVER_old(self->first->ring.count) < ChunkSize) ==> (self->first == __CPROVER_old(self->first) && self->last == __CPROVER_old(self->last) && self->first->ring.count == __CPROVER_old(self->first->ring.count) + 1 && self->first->next == __CPROVER_old(self->first->next) && (gj < __CPROVER_old(self->first->ring.count) ==> VIEW(&self->first->ring, gj + 1) == __CPROVER_old(VIEW(&self->first->ring, gj)))))
__CPROVER_ensures((g_empty || __CPROVER_old(self->first->ring.count) == ChunkSize) ==> (self->first->ring.count == 1 && self->first->next == __CPROVER_old(self->first) && (g_empty ? self->last == self->first : (self->last == __CPROVER_old(self->last) && __CPROVER_old(self->first)->prev == self->first && __CPROVER_old(self->first)->ring.count == ChunkSize && (gj < ChunkSize ==> VIEW(&__CPROVER_old(self->first)->ring, gj) == __CPROVER_old(VIEW(&self->first->ring, gj)))))))
__CPROVER_assigns(self->first, self->last, self->num; self->first != 0: __CPROVER_object_whole(self->first))''',
      'emplace_front/push_front: mirror image of emplace_back', inl=['precondition', 'extend_first'])
    U('shrink', r'void shrink\(Block\* b\)', 'void GD_shrink(struct GDeque* self, struct Block* b)',
      '''__CPROVER_requires(__CPROVER_is_fresh(self, sizeof(*self)) && __CPROVER_is_fresh(b, sizeof(struct Block)) && b->ring.count == 0 && RING_INV(&b->ring) && g_back <= 1)
/* b is the last (g_back) or the first block, with (g_hasnb) or without a neighbour on the other side */
__CPROVER_requires(g_back ? (self->last == b && b->next == 0 && (g_hasnb ? (__CPROVER_is_fresh(b->prev, sizeof(struct Block)) && self->first != 0 && self->first != b) : (b->prev == 0 && self->first == b)))
                          : (self->first == b && b->prev == 0 && (g_hasnb ? (__CPROVER_is_fresh(b->next, sizeof(struct Block)) && self->last != 0 && self->last != b) : (b->next == 0 && self->last == b))))
/* the (empty) end block is unlinked and freed exactly once; its neighbour becomes the end block */
__CPROVER_ensures(__CPROVER_was_freed(b))
__CPROVER_ensures(!g_hasnb ==> (self->first == 0 && self->last == 0))
__CPROVER_ensures((g_hasnb && g_back) ==> (self->last == __CPROVER_old(b->prev) && self->last->next == 0 && self->first == __CPROVER_old(self->first)))
__CPROVER_ensures((g_hasnb && !g_back) ==> (self->first == __CPROVER_old(b->next) && self->first->prev == 0 && self->last == __CPROVER_old(self->last)))
__CPROVER_assigns(self->first, self->last; (g_hasnb && g_back): b->prev->next; (g_hasnb && !g_back): b->next->prev)
__CPROVER_frees(b)''',
      'shrink(b) for an end block: the block is unlinked (the neighbour\'s link cleared, first/last updated) and freed exactly once; it is asserted empty first, so no element is lost')
    U('pop_back', r'void pop_back\(\)', 'void GD_pop_back(struct GDeque* self)',
      '''__CPROVER_requires(BACK_SHAPE(self) && !g_empty)
__CPROVER_ensures(self->num == __CPROVER_old(self->num) - 1)
/* more than one element in the last block: same block, last element dropped, the others in place */
__CPROVER_ensures(__CPROVER_old(self->last->ring.count) > 1 ==> (self->last == __CPROVER_old(self->last) && self->first == __CPROVER_old(self->first) && self->last->ring.count == __CPROVER_old(self->last->ring.count) - 1 && self->last->next == 0 && self->last->prev == __CPROVER_old(self->last->prev) && (gj + 1 < __CPROVER_old(self->last->ring.count) ==> VIEW(&self->last->ring, gj) == __CPROVER_old(VIEW(&self->last->ring, gj)))))
/* it was the block's only element: the block is unlinked and freed, its neighbour (untouched) becomes the last block */
__CPROVER_ensures(__CPROVER_old(self->last->ring.count) == 1 ==> (__CPROVER_was_freed(__CPROVER_old(self->last)) && self->last == __CPROVER_old(self->last->prev) && (g_hasnb ? (self->last->next == 0 && self->first == __CPROVER_old(self->first)) : (self->first == 0 && self->last == 0))))
__CPROVER_assigns(self->first, self->last, self->num, __CPROVER_object_whole(self->last); g_hasnb: self->last->prev->next)
__CPROVER_frees(self->last)''',
      'pop_back: the deque loses exactly its last element; a block that becomes empty is unlinked and freed (no empty block stays in the list), its neighbour is untouched',
      inl=['precondition', 'empty', 'shrink'])
    U('pop_front', r'void pop_front\(\)', 'void GD_pop_front(struct GDeque* self)',
      '''__CPROVER_requires(FRONT_SHAPE(self) && !g_empty)
__CPROVER_ensures(self->num == __CPROVER_old(self->num) - 1)
__CPROVER_ensures(__CPROVER_old(self->first->ring.count) > 1 ==> (self->first == __CPROVER_old(self->first) && self->last == __CPROVER_old(self->last) && self->first->ring.count == __CPROVER_old(self->first->ring.count) - 1 && self->first->prev == 0 && self->first->next == __CPROVER_old(self->first->next) && (gj + 1 < __CPROVER_old(self->first->ring.count) ==> VIEW(&self->first->ring, gj) == __CPROVER_old(VIEW(&self->first->ring, gj + 1)))))
__CPROVER_ensures(__CPROVER_old(self->first->ring.count) == 1 ==> (__CPROVER_was_freed(__CPROVER_old(self->first)) && self->first == __CPROVER_old(self->first->next) && (g_hasnb ? (self->first->prev == 0 && self->last == __CPROVER_old(self->last)) : (self->first == 0 && self->last == 0))))
__CPROVER_assigns(self->first, self->last, self->num, __CPROVER_object_whole(self->first); g_hasnb: self->first->next->prev)
__CPROVER_frees(self->first)''',
      'pop_front: mirror image of pop_back', inl=['precondition', 'empty', 'shrink'])
    U('back', r'(?<!const_)reference back\(\)', 'gv_elem* GD_back(struct GDeque* self)',
      '__CPROVER_requires(BACK_SHAPE(self) && !g_empty)\n__CPROVER_ensures(__CPROVER_return_value == &VIEW(&self->last->ring, self->last->ring.count - 1))\n__CPROVER_assigns()',
      'back() = last element of the last block', inl=['precondition', 'empty'], extra=[rx(r'return last->back\(\);', 'return Ring_back%s(&last->ring);' % SFX, 1, 1)])
    U('front', r'(?<!const_)reference front\(\)', 'gv_elem* GD_front(struct GDeque* self)',
      '__CPROVER_requires(FRONT_SHAPE(self) && !g_empty)\n__CPROVER_ensures(__CPROVER_return_value == &VIEW(&self->first->ring, 0))\n__CPROVER_assigns()',
      'front() = first element of the first block', inl=['precondition', 'empty'], extra=[rx(r'return first->front\(\);', 'return Ring_front%s(&first->ring);' % SFX, 1, 1)])
    return UNITS


def make_links(ring_prelude_unused=None):
    """emplace(Block* b, iterator ii, args) -- the SPLIT of a full block in the middle: the list links around the block, the new
    block and the old successor (elements abstracted to counts; the ring operations are proved elsewhere)."""
    P = ['''
#include <stdlib.h>
#define ChunkSize 4u
struct LBlock { unsigned count; struct LBlock* next; struct LBlock* prev; };      /* a block = its element count + links */
struct LDeque { struct LBlock* first; struct LBlock* last; unsigned num; };
bool g_hassucc;       /* ghost: the block that is split has a successor */
unsigned g_off;       /* ghost: offset of the insertion position inside the block */
/* alloc_block(move_iterator(ii), move_iterator(b->end())): a fresh unlinked block holding the d moved elements */
static inline struct LBlock* ld_alloc_block_range(unsigned d) { struct LBlock* n = (struct LBlock*)malloc(sizeof(struct LBlock)); __CPROVER_assume(n != 0); n->count = d; n->next = 0; n->prev = 0; return n; }
static inline void lb_pop_back(struct LBlock* b) { __CPROVER_assert(b->count >= 1, "pop_back on a non-empty block"); b->count--; }
static inline void lb_emplace_at_end(struct LBlock* b, unsigned off) { __CPROVER_assert(off == b->count && b->count < ChunkSize, "Block::emplace at the end of a block with room"); b->count++; }
''']
    UNITS.append(Unit(
        name='GD_emplace_split_links', src=GDQ, within=W, anchor=r'emplace\(Block\* b, typename Block::iterator ii, Args&&\.\.\. args\)', proto='struct LBlock* GD_emplace_split_links(struct LDeque* self, struct LBlock* b, unsigned ii)',
        contract="""__CPROVER_requires(__CPROVER_is_fresh(self, sizeof(*self)) && __CPROVER_is_fresh(b, sizeof(*b)) && b->count == ChunkSize && ii < ChunkSize && self->num < 0x7fffffff && self->first != 0 && self->last != 0)
/* a FULL block that is not the front position of the deque: either not the first block, or a position behind its first element */
__CPROVER_requires((self->first != b || ii > 0) && (g_hassucc ? (__CPROVER_is_fresh(b->next, sizeof(struct LBlock)) && b->next->prev == b && self->last != b) : (b->next == 0 && self->last == b)))
/* the block is split: a fresh block n with the elements from the position on follows b; ALL FOUR links around n are set; the element goes to the end of b */
__CPROVER_ensures(__CPROVER_return_value == b && b->next != 0 && b->next != __CPROVER_old(b->next) && b->next->prev == b && b->next->next == __CPROVER_old(b->next))
__CPROVER_ensures(g_hassucc ? (__CPROVER_old(b->next)->prev == b->next && self->last == __CPROVER_old(self->last)) : self->last == b->next)
__CPROVER_ensures(b->count == ii + 1 && b->next->count == ChunkSize - ii && self->num == __CPROVER_old(self->num) + 1 && self->first == __CPROVER_old(self->first))
__CPROVER_assigns(self->num, self->last, __CPROVER_object_whole(b); g_hassucc: b->next->prev)""",
        prelude=P,
        lower=[rx(r'std::forward<Args>\(args\)\.\.\.', 'v', 0), rx(r'if \(!b\) \{.*?\n    \} else if \(b == first && ii == b->begin\(\)\) \{.*?\n    \} else if \(b->full\(\)\) \{', 'if (b->count == ChunkSize) {', 1, 1, flags=re.S),   # S-slice: the two end cases are the units GD_emplace_back / GD_emplace_front
               rx(r'auto d\s*=\s*std::distance\(ii, b->end\(\)\);', 'unsigned d = b->count - ii;', 1, 1),
               rx(r'Block\* n = alloc_block\(std::make_move_iterator\(ii\),\s*std::make_move_iterator\(b->end\(\)\)\);', 'struct LBlock* n = ld_alloc_block_range(d);', 1, 1, flags=re.S),
               rx(r'b->pop_back\(\);', 'lb_pop_back(b);', 1, 1), rx(r'ii\s*=\s*b->end\(\);', 'ii = b->count;', 1, 1),
               rx(r'unsigned boff = std::distance\(b->begin\(\), ii\);', 'unsigned boff = ii;', 1, 1), rx(r'b->emplace\(ii, v\);', 'lb_emplace_at_end(b, ii);', 1, 1),
               rx(r'return std::make_pair\(b, b->begin\(\) \+ boff\);', 'return b;', 1, 1), members(['first', 'last', 'num'], minimum=2)],
        loops={1: '__CPROVER_assigns(d, b->count)\n__CPROVER_loop_invariant(d <= ChunkSize && b->count == ii + d)\n__CPROVER_decreases(d)'},
        fallback_unwind=6, no_flags=['--conversion-check'], inst='ChunkSize = 4; elements abstracted to counts',
        replay=dict(prog='gdeque_split_backward', args=[], lib=True),
        says='emplace(pos) in the middle of a FULL block: the block is split, the new block is linked in BOTH directions to both neighbours (so backward traversal sees it), last is updated if the split block was the last one, counts add up',
        trusted=['S-slice: only the split branch and the common tail of emplace(Block*, iterator, ...) are verified here', 'elements abstracted to counts; Block::emplace(pos) is only ever asked to insert at the end of a block with room in this branch']))
    return UNITS


def make_iter():
    """the gdeque iterator (the non-_NEW_ITERATOR struct Iterator {b, last, offset}) over the block list; blocks as counts + links"""
    P = ['''
struct LBlock { unsigned count; struct LBlock* next; struct LBlock* prev; };
struct GIt { struct LBlock* b; struct LBlock* last; unsigned offset; };      /* b == NULL: the end iterator */
bool g_hasn, g_hasp;      /* ghost: the block has a successor / predecessor */
#define BLK_NE(p) ((p)->count >= 1 && (p)->count <= 4)                       /* list invariant: no empty block */
''']
    new = []
    new.append(Unit(
        name='GDIt_increment', src=GDQ, within=r'struct Iterator\b', anchor=r'void increment\(\)', proto='void GDIt_increment(struct GIt* self)',
        contract="""__CPROVER_requires(__CPROVER_is_fresh(self, sizeof(*self)) && __CPROVER_is_fresh(self->b, sizeof(struct LBlock)) && BLK_NE(self->b) && self->offset < self->b->count && (g_hasn ? (__CPROVER_is_fresh(self->b->next, sizeof(struct LBlock)) && BLK_NE(self->b->next)) : self->b->next == 0))
/* next element of the block, else the first element of the next block, else the end (b == NULL, offset 0) */
__CPROVER_ensures(__CPROVER_old(self->offset) + 1 < __CPROVER_old(self->b)->count ? (self->b == __CPROVER_old(self->b) && self->offset == __CPROVER_old(self->offset) + 1) : (self->b == __CPROVER_old(self->b->next) && self->offset == 0))
__CPROVER_assigns(self->b, self->offset)""",
        prelude=P, lower=[rx(r'b->size\(\)', 'b->count', 1, 1), members(['b', 'offset', 'last'], minimum=2)], no_flags=['--conversion-check'], inst='blocks as counts + links',
        says='gdeque iterator ++: successor inside the block, else first element of the next block, else end()'))
    new.append(Unit(
        name='GDIt_decrement', src=GDQ, within=r'struct Iterator\b', anchor=r'void decrement\(\)', proto='void GDIt_decrement(struct GIt* self)',
        contract="""__CPROVER_requires(__CPROVER_is_fresh(self, sizeof(*self)) && g_end <= 1)
/* the end iterator of a non-empty deque, or an element that is not the first one */
__CPROVER_requires(g_end ? (self->b == 0 && __CPROVER_is_fresh(self->last, sizeof(struct LBlock)) && BLK_NE(self->last))
                         : (__CPROVER_is_fresh(self->b, sizeof(struct LBlock)) && BLK_NE(self->b) && self->offset < self->b->count && (self->offset == 0 ==> (__CPROVER_is_fresh(self->b->prev, sizeof(struct LBlock)) && BLK_NE(self->b->prev)))))
/* predecessor: last element of the deque / previous element of the block / last element of the previous block */
__CPROVER_ensures(g_end ? (self->b == self->last && self->offset == self->last->count - 1)
                        : (__CPROVER_old(self->offset) > 0 ? (self->b == __CPROVER_old(self->b) && self->offset == __CPROVER_old(self->offset) - 1) : (self->b == __CPROVER_old(self->b->prev) && self->offset == self->b->count - 1)))
__CPROVER_assigns(self->b, self->offset)""",
        prelude=P + ['unsigned g_end;\n'], lower=[rx(r'b->size\(\)', 'b->count', 2, 2), members(['b', 'offset', 'last'], minimum=2)], no_flags=['--conversion-check'], inst='blocks as counts + links',
        says='gdeque iterator --: from end() to the last element, otherwise to the predecessor (through the prev link at a block boundary -- the link F18 was about)'))
    return new
