"""C09 -- allocators hand out disjoint, aligned, sufficiently large live blocks.
Contracts on runtime/Mem.h (BumpHeap, BumpWithMallocHeap, BlockHeap,
FreeListHeap, Pow_2_BlockHeap) and PerThreadStorage.cpp (PerBackend offsets)."""
from gv.unit import Unit
from gv.lower import (bind, ren, members, refs, call, fcall, index, stdfn, mkpair, casts, drop, dropcall, rx)

MEM = 'libgalois/include/galois/runtime/Mem.h'
PTS = 'libgalois/src/PerThreadStorage.cpp'

UNITS = []

# ---------------------------------------------------------------------------
# Source heap: ASSUMED contract (OS / page pool): a fresh chunk of AllocSize
# bytes, disjoint from everything that exists.  Alignment is stated relative
# to the chunk start (chunks are 2 MB pages / malloc blocks, suitably aligned).
HEAP = '''
#define ALLOC_SIZE ((size_t)2 * 1024 * 1024)   /* SystemHeap::AllocSize */
typedef struct Block Block;
struct Block { union { Block* next; double dummy; }; };
struct BumpHeap { Block* head; Block* fallbackHead; int offset; };
/* ghost: ONE arbitrary live block of the current chunk, [gl_off, gl_off+gl_len) */
size_t gl_off, gl_len;
#define OFF(p) ((size_t)__CPROVER_POINTER_OFFSET(p))
#define ALIGN8(n) (((n) + sizeof(double) - 1) & ~(sizeof(double) - 1))
/* representation invariant of a bump heap */
#define BH_INV(h) ((h)->head == 0 || ((h)->offset >= (int)sizeof(Block) && (size_t)(h)->offset <= ALLOC_SIZE && (h)->offset % 8 == 0 && OFF((h)->head) == 0))
#define BH_FRESH(h) (__CPROVER_is_fresh(h, sizeof(*(h))) && ((h)->head != 0 ==> __CPROVER_is_fresh((h)->head, ALLOC_SIZE)) && (h)->offset >= 0 && (size_t)(h)->offset <= ALLOC_SIZE && (h)->offset % 8 == 0)
/* the ghost live block lies in the used part of the current chunk */
#define GL_OK(h) (gl_len >= 1 && ((h)->head != 0 ==> (gl_off >= sizeof(Block) && gl_off + gl_len <= (size_t)(h)->offset)))
static inline void gv_abort(void) { __CPROVER_assert(0, "std::abort() reached"); __CPROVER_assume(0); }
'''
UNITS.append(Unit(
    name='src_alloc', kind='assumed', prelude=[HEAP],
    proto='void* src_alloc(size_t size)',
    contract='__CPROVER_requires(size == ALLOC_SIZE)\n__CPROVER_ensures(__CPROVER_is_fresh(__CPROVER_return_value, ALLOC_SIZE))\n__CPROVER_assigns()',
    says='ASSUMED: SourceHeap::allocate(AllocSize) (page pool / OS) returns a fresh chunk of AllocSize bytes, disjoint from every existing object'))
UNITS.append(Unit(
    name='gv_malloc', kind='assumed', prelude=[HEAP],
    proto='void* gv_malloc(size_t size)',
    contract='__CPROVER_requires(size >= 1 && size <= ((size_t)1 << 40))\n__CPROVER_ensures(__CPROVER_is_fresh(__CPROVER_return_value, size))\n__CPROVER_assigns()',
    says='ASSUMED: malloc returns a fresh object of the requested size (out-of-memory not modelled)'))

BH_LOWER = [members(['head', 'offset'], minimum=2), ren('SourceHeap::allocate', 'src_alloc', 0), ren('SourceHeap::AllocSize', 'ALLOC_SIZE', 0),
            rx(r'(?<![\w.>])refill\(\)', 'BumpHeap_refill(self)', 0)]
UNITS.append(Unit(
    name='BumpHeap_refill', src=MEM, within=r'class BumpHeap\b', anchor=r'void refill\(\)',
    proto='void BumpHeap_refill(struct BumpHeap* self)',
    contract='''__CPROVER_requires(BH_FRESH(self))
__CPROVER_ensures(self->head != 0 && __CPROVER_is_fresh(self->head, ALLOC_SIZE) && self->head->next == __CPROVER_old(self->head) && self->offset == (int)sizeof(Block))
__CPROVER_assigns(self->head, self->offset)''',
    prelude=[HEAP], uses=['src_alloc'], lower=BH_LOWER, backend='smt',
    says='refill links a fresh chunk in front of the chunk list and starts bumping just after the chunk header'))
UNITS.append(Unit(
    name='BumpHeap_allocate', src=MEM, within=r'class BumpHeap\b', anchor=r'inline void\* allocate\(size_t size\)',
    proto='void* BumpHeap_allocate(struct BumpHeap* self, size_t size)',
    contract='''__CPROVER_requires(BH_FRESH(self) && BH_INV(self) && GL_OK(self) && size <= ALLOC_SIZE - sizeof(Block) - 8)
__CPROVER_ensures(__CPROVER_return_value != 0 && __CPROVER_same_object(__CPROVER_return_value, self->head) && BH_INV(self) && self->head != 0)
__CPROVER_ensures(OFF(__CPROVER_return_value) % 8 == 0 && OFF(__CPROVER_return_value) >= sizeof(Block) && OFF(__CPROVER_return_value) + ALIGN8(size) <= ALLOC_SIZE && ALIGN8(size) >= size)
__CPROVER_ensures((size_t)self->offset == OFF(__CPROVER_return_value) + ALIGN8(size))
__CPROVER_ensures(self->head == __CPROVER_old(self->head) ==> OFF(__CPROVER_return_value) >= gl_off + gl_len)
__CPROVER_ensures(self->head != __CPROVER_old(self->head) ==> self->head->next == __CPROVER_old(self->head))
__CPROVER_assigns(self->head, self->offset)''',
    prelude=[HEAP], uses=['BumpHeap_refill'],
    lower=BH_LOWER + [ren('std::abort', 'gv_abort'), rx(r'throw std::bad_alloc\(\);', '', 1, 1)],
    no_flags=['--conversion-check'],
    says='bump allocation: non-null, inside the current chunk after its header, 8-aligned (relative to the chunk), at least the requested size, above everything handed out before from this chunk (hence disjoint from the ghost live block), or at the start of a fresh chunk; old chunks stay linked; abort() unreachable for sizes that fit a chunk',
    replay=dict(prog='bumpheap', args=['size'], cxxflags=['-DWHICH=1'], lib=True)))
UNITS.append(Unit(
    name='BumpHeap_allocate_partial', src=MEM, within=r'class BumpHeap\b', anchor=r'inline void\* allocate\(size_t size, size_t& allocated\)',
    proto='void* BumpHeap_allocate_partial(struct BumpHeap* self, size_t size, size_t* allocated)',
    contract='''__CPROVER_requires(BH_FRESH(self) && BH_INV(self) && GL_OK(self) && size >= 1 && size <= ((size_t)1 << 40) && __CPROVER_is_fresh(allocated, sizeof(*allocated)))
__CPROVER_ensures(__CPROVER_return_value != 0 && self->head != 0 && __CPROVER_same_object(__CPROVER_return_value, self->head) && BH_INV(self))
__CPROVER_ensures(OFF(__CPROVER_return_value) % 8 == 0 && OFF(__CPROVER_return_value) >= sizeof(Block))
__CPROVER_ensures(*allocated >= 1 && *allocated <= size && OFF(__CPROVER_return_value) + *allocated <= ALLOC_SIZE && (size_t)self->offset >= OFF(__CPROVER_return_value) + *allocated)
__CPROVER_ensures(self->head == __CPROVER_old(self->head) ==> OFF(__CPROVER_return_value) >= gl_off + gl_len)
__CPROVER_assigns(self->head, self->offset, *allocated)''',
    prelude=[HEAP], uses=['BumpHeap_refill'],
    lower=BH_LOWER + [refs(['allocated'], 1)],
    no_flags=['--conversion-check'],
    says='may-fail bump allocation: a non-null, 8-aligned block of 1 <= allocated <= size bytes inside the current chunk, disjoint from the ghost live block',
    replay=dict(prog='bumpheap', args=['size'], cxxflags=['-DWHICH=2'], lib=True)))
