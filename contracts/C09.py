"""C09 -- allocators hand out disjoint, aligned, sufficiently large live blocks.
Contracts on runtime/Mem.h (BumpHeap, BumpWithMallocHeap, BlockHeap,
FreeListHeap, Pow_2_BlockHeap) and PerThreadStorage.cpp (PerBackend offsets)."""
from gv.unit import Unit
from gv.lower import (bind, ren, members, refs, call, fcall, index, stdfn, mkpair, casts, drop, dropcall, rx)

MEM = 'libgalois/include/galois/runtime/Mem.h'
PTS = 'libgalois/src/PerThreadStorage.cpp'

UNITS = []

# ---------------------------------------------------------------------------
# Source heap: ASSUMED contract (OS / page pool): a fresh chunk of AllocSize
# bytes, disjoint from everything that exists.  Alignment is stated relative
# to the chunk start (chunks are 2 MB pages / malloc blocks, suitably aligned).
HEAP = '''
#define ALLOC_SIZE ((size_t)2 * 1024 * 1024)   /* SystemHeap::AllocSize */
typedef struct Block Block;
struct Block { union { Block* next; double dummy; }; };
struct BumpHeap { Block* head; Block* fallbackHead; int offset; };
/* ghost: ONE arbitrary live block of the current chunk, [gl_off, gl_off+gl_len) */
size_t gl_off, gl_len;
#define OFF(p) ((size_t)__CPROVER_POINTER_OFFSET(p))
#define ALIGN8(n) (((n) + sizeof(double) - 1) & ~(sizeof(double) - 1))
/* representation invariant of a bump heap */
#define BH_INV(h) ((h)->head == 0 || ((h)->offset >= (int)sizeof(Block) && (size_t)(h)->offset <= ALLOC_SIZE && (h)->offset % 8 == 0 && OFF((h)->head) == 0))
#define BH_FRESH(h) (__CPROVER_is_fresh(h, sizeof(*(h))) && ((h)->head != 0 ==> __CPROVER_is_fresh((h)->head, ALLOC_SIZE)) && (h)->offset >= 0 && (size_t)(h)->offset <= ALLOC_SIZE && (h)->offset % 8 == 0)
/* the ghost live block lies in the used part of the current chunk */
#define GL_OK(h) (gl_len >= 1 && ((h)->head != 0 ==> (gl_off >= sizeof(Block) && gl_off + gl_len <= (size_t)(h)->offset)))
static inline void gv_abort(void) { __CPROVER_assert(0, "std::abort() reached"); __CPROVER_assume(0); }
'''
UNITS.append(Unit(
    name='src_alloc', kind='assumed', prelude=[HEAP],
    proto='void* src_alloc(size_t size)',
    contract='__CPROVER_requires(size == ALLOC_SIZE)\n__CPROVER_ensures(__CPROVER_is_fresh(__CPROVER_return_value, ALLOC_SIZE))\n__CPROVER_assigns()',
    says='ASSUMED: SourceHeap::allocate(AllocSize) (page pool / OS) returns a fresh chunk of AllocSize bytes, disjoint from every existing object'))
UNITS.append(Unit(
    name='gv_malloc', kind='assumed', prelude=[HEAP],
    proto='void* gv_malloc(size_t size)',
    contract='__CPROVER_requires(size >= 1 && size <= ((size_t)1 << 41))\n__CPROVER_ensures(__CPROVER_is_fresh(__CPROVER_return_value, size))\n__CPROVER_assigns()',
    says='ASSUMED: malloc returns a fresh object of the requested size (out-of-memory not modelled)'))

BH_LOWER = [members(['head', 'offset'], minimum=2), ren('SourceHeap::allocate', 'src_alloc', 0), ren('SourceHeap::AllocSize', 'ALLOC_SIZE', 0),
            rx(r'(?<![\w.>])refill\(\)', 'BumpHeap_refill(self)', 0)]
UNITS.append(Unit(
    name='BumpHeap_refill', src=MEM, within=r'class BumpHeap\b', anchor=r'void refill\(\)',
    proto='void BumpHeap_refill(struct BumpHeap* self)',
    contract='''__CPROVER_requires(BH_FRESH(self))
__CPROVER_ensures(self->head != 0 && __CPROVER_is_fresh(self->head, ALLOC_SIZE) && self->head->next == __CPROVER_old(self->head) && self->offset == (int)sizeof(Block))
__CPROVER_assigns(self->head, self->offset)''',
    prelude=[HEAP], uses=['src_alloc'], lower=BH_LOWER, backend='smt',
    says='refill links a fresh chunk in front of the chunk list and starts bumping just after the chunk header'))
UNITS.append(Unit(
    name='BumpHeap_allocate', src=MEM, within=r'class BumpHeap\b', anchor=r'inline void\* allocate\(size_t size\)',
    proto='void* BumpHeap_allocate(struct BumpHeap* self, size_t size)',
    contract='''__CPROVER_requires(BH_FRESH(self) && BH_INV(self) && GL_OK(self) && size <= ALLOC_SIZE - sizeof(Block) - 8)
__CPROVER_ensures(__CPROVER_return_value != 0 && __CPROVER_same_object(__CPROVER_return_value, self->head) && BH_INV(self) && self->head != 0)
__CPROVER_ensures(OFF(__CPROVER_return_value) % 8 == 0 && OFF(__CPROVER_return_value) >= sizeof(Block) && OFF(__CPROVER_return_value) + ALIGN8(size) <= ALLOC_SIZE && ALIGN8(size) >= size)
__CPROVER_ensures((size_t)self->offset == OFF(__CPROVER_return_value) + ALIGN8(size))
__CPROVER_ensures(self->head == __CPROVER_old(self->head) ==> OFF(__CPROVER_return_value) >= gl_off + gl_len)
__CPROVER_ensures(self->head != __CPROVER_old(self->head) ==> self->head->next == __CPROVER_old(self->head))
__CPROVER_assigns(self->head, self->offset)''',
    prelude=[HEAP], uses=['BumpHeap_refill'],
    lower=BH_LOWER + [ren('std::abort', 'gv_abort'), rx(r'throw std::bad_alloc\(\);', '', 1, 1)],
    no_flags=['--conversion-check'],
    says='bump allocation: non-null, inside the current chunk after its header, 8-aligned (relative to the chunk), at least the requested size, above everything handed out before from this chunk (hence disjoint from the ghost live block), or at the start of a fresh chunk; old chunks stay linked; abort() unreachable for sizes that fit a chunk',
    replay=dict(prog='bumpheap', args=['size'], cxxflags=['-DWHICH=1'], lib=True)))
UNITS.append(Unit(
    name='BumpHeap_allocate_partial', src=MEM, within=r'class BumpHeap\b', anchor=r'inline void\* allocate\(size_t size, size_t& allocated\)',
    proto='void* BumpHeap_allocate_partial(struct BumpHeap* self, size_t size, size_t* allocated)',
    contract='''__CPROVER_requires(BH_FRESH(self) && BH_INV(self) && GL_OK(self) && size >= 1 && size <= ((size_t)1 << 40) && __CPROVER_is_fresh(allocated, sizeof(*allocated)))
__CPROVER_ensures(__CPROVER_return_value != 0 && self->head != 0 && __CPROVER_same_object(__CPROVER_return_value, self->head) && BH_INV(self))
__CPROVER_ensures(OFF(__CPROVER_return_value) % 8 == 0 && OFF(__CPROVER_return_value) >= sizeof(Block))
__CPROVER_ensures(*allocated >= 1 && *allocated <= size && OFF(__CPROVER_return_value) + *allocated <= ALLOC_SIZE && (size_t)self->offset >= OFF(__CPROVER_return_value) + *allocated)
__CPROVER_ensures(self->head == __CPROVER_old(self->head) ==> OFF(__CPROVER_return_value) >= gl_off + gl_len)
__CPROVER_assigns(self->head, self->offset, *allocated)''',
    prelude=[HEAP], uses=['BumpHeap_refill'],
    lower=BH_LOWER + [refs(['allocated'], 1)],
    no_flags=['--conversion-check'],
    says='may-fail bump allocation: a non-null, 8-aligned block of 1 <= allocated <= size bytes inside the current chunk, disjoint from the ghost live block',
    replay=dict(prog='bumpheap', args=['size'], cxxflags=['-DWHICH=2'], lib=True)))

for u in UNITS:
    if u.kind != 'assumed':
        u.backend = 'smt'

# ---------------------------------------------------------------------------
# BumpWithMallocHeap (the per-iteration allocator's heap, galois/Mem.h
# IterAllocBaseTy = BumpWithMallocHeap<FreeListHeap<SystemHeap>>)
UNITS.append(Unit(
    name='BWM_refill', src=MEM, within=r'class BumpWithMallocHeap\b', anchor=r'void refill\(void\* P, Block\*& h, int\* o\)',
    proto='void BWM_refill(struct BumpHeap* self, void* P, Block** h, int* o)',
    contract='''__CPROVER_requires(__CPROVER_is_fresh(P, sizeof(Block)) && __CPROVER_is_fresh(h, sizeof(*h)) && (o != 0 ==> __CPROVER_is_fresh(o, sizeof(*o))))
__CPROVER_ensures(*h == (Block*)P && (*h)->next == __CPROVER_old(*h) && (o != 0 ==> *o == (int)sizeof(Block)))
__CPROVER_assigns(*h, ((Block*)P)->next; o != 0: *o)''',
    prelude=[HEAP], backend='smt',
    lower=[rx(r'(?<![\w*>])h(?![\w])', '(*h)', 2, 2)],
    says='refill(P, h, o): chunk P becomes the head of list h (old head linked behind it), the bump offset starts after the header'))
UNITS.append(Unit(
    name='BWM_allocate', src=MEM, within=r'class BumpWithMallocHeap\b', anchor=r'inline void\* allocate\(size_t size\)',
    proto='void* BWM_allocate(struct BumpHeap* self, size_t size)',
    contract='''__CPROVER_requires(BH_FRESH(self) && BH_INV(self) && GL_OK(self) && size <= ((size_t)1 << 40))
__CPROVER_ensures(__CPROVER_return_value != 0 && OFF(__CPROVER_return_value) % 8 == 0 && OFF(__CPROVER_return_value) >= sizeof(Block) && ALIGN8(size) >= size && BH_INV(self))
__CPROVER_ensures(sizeof(Block) + ALIGN8(size) <= ALLOC_SIZE ==> (self->head != 0 && __CPROVER_same_object(__CPROVER_return_value, self->head) && OFF(__CPROVER_return_value) + ALIGN8(size) <= ALLOC_SIZE && (size_t)self->offset == OFF(__CPROVER_return_value) + ALIGN8(size) && self->fallbackHead == __CPROVER_old(self->fallbackHead)))
__CPROVER_ensures((sizeof(Block) + ALIGN8(size) <= ALLOC_SIZE && self->head == __CPROVER_old(self->head)) ==> OFF(__CPROVER_return_value) >= gl_off + gl_len)
__CPROVER_ensures(sizeof(Block) + ALIGN8(size) > ALLOC_SIZE ==> (self->fallbackHead != 0 && __CPROVER_same_object(__CPROVER_return_value, self->fallbackHead) && OFF(__CPROVER_return_value) == sizeof(Block) && __CPROVER_OBJECT_SIZE(__CPROVER_return_value) == ALIGN8(size) + sizeof(Block) && self->fallbackHead->next == __CPROVER_old(self->fallbackHead) && self->head == __CPROVER_old(self->head) && self->offset == __CPROVER_old(self->offset)))
__CPROVER_assigns(self->head, self->offset, self->fallbackHead)''',
    prelude=[HEAP], uses=['src_alloc', 'gv_malloc'], inline=['BWM_refill'], backend='smt', reach_backend='sat', reach_timeout=300,
    lower=[members(['head', 'offset', 'fallbackHead'], minimum=4), ren('SourceHeap::allocate', 'src_alloc'), ren('SourceHeap::AllocSize', 'ALLOC_SIZE', 3),
           rx(r'(?<![\w])malloc\(', 'gv_malloc(', 1, 1),
           rx(r'refill\(p, self->fallbackHead, NULL\)', 'BWM_refill(self, p, &self->fallbackHead, NULL)', 1, 1),
           rx(r'refill\(src_alloc\(ALLOC_SIZE\), self->head, &self->offset\)', 'BWM_refill(self, src_alloc(ALLOC_SIZE), &self->head, &self->offset)', 1, 1)],
    no_flags=['--conversion-check'],
    says='per-iteration bump heap: small requests are bump-allocated (non-null, 8-aligned, inside the current chunk, above everything handed out before or in a fresh chunk); requests that do not fit a chunk get their own malloc block of aligned size + header, linked in the fallback list so that only clear() releases it'))

# ---------------------------------------------------------------------------
# FreeListHeap: LIFO of freed blocks.
FL = [HEAP, '''
typedef struct FreeNode FreeNode;
struct FreeNode { FreeNode* next; };
struct FreeListHeap { FreeNode* head; } flh;   /* the heap object (a global) */
#define GV_NOP(...) ((void)0)
''']
FL_LOWER = [members(['head'], self='flh', arrow='.', minimum=2), ren('SourceHeap::allocate', 'src_alloc', 0), rx(r'dbg::print\(', 'GV_NOP(', 1), rx(r'\bthis\b', '&flh', 0)]
UNITS.append(Unit(
    name='FreeListHeap_allocate', src=MEM, within=r'class FreeListHeap\b', anchor=r'inline void\* allocate\(size_t size\)',
    proto='void* FreeListHeap_allocate(size_t size)',
    contract='''__CPROVER_requires(size == ALLOC_SIZE && (flh.head != 0 ==> __CPROVER_is_fresh(flh.head, ALLOC_SIZE)))
__CPROVER_ensures(__CPROVER_old(flh.head) != 0 ==> (__CPROVER_return_value == __CPROVER_old(flh.head) && flh.head == ((FreeNode*)__CPROVER_return_value)->next))
__CPROVER_ensures(__CPROVER_old(flh.head) == 0 ==> (__CPROVER_is_fresh(__CPROVER_return_value, ALLOC_SIZE) && flh.head == 0))
__CPROVER_assigns(flh.head)''',
    prelude=FL, uses=['src_alloc'], lower=FL_LOWER, backend='smt',
    says='allocate pops the most recently freed block if there is one (it is on the list only because deallocate put it there: reuse only after free), otherwise takes a fresh chunk from the source heap'))
UNITS.append(Unit(
    name='FreeListHeap_deallocate', src=MEM, within=r'class FreeListHeap\b', anchor=r'inline void deallocate\(void\* ptr\)',
    proto='void FreeListHeap_deallocate(void* ptr)',
    contract='''__CPROVER_requires((ptr != 0 ==> __CPROVER_is_fresh(ptr, ALLOC_SIZE)))
__CPROVER_ensures(ptr != 0 ==> (flh.head == (FreeNode*)ptr && flh.head->next == __CPROVER_old(flh.head)))
__CPROVER_ensures(ptr == 0 ==> flh.head == __CPROVER_old(flh.head))
__CPROVER_assigns(flh.head; ptr != 0: ((FreeNode*)ptr)->next)''',
    prelude=FL, lower=FL_LOWER + [rx(r'assert\(\(uintptr_t\)ptr > 0x100\);', '', 1, 1)], backend='smt',
    says='deallocate pushes the block on the free list (null is ignored); nothing else changes',
    trusted=['FreeListHeap::deallocate: the debug assertion (uintptr_t)ptr > 0x100 is dropped (CBMC pointers are abstract)']))
# (a lemma unit chaining deallocate/allocate through their contracts was
# dropped: with two replaced calls that both carry is_fresh preconditions the
# DFCC instrumentation made the end of the harness unreachable; the vacuity
# guard caught it.  The LIFO behaviour is what the two per-function contracts
# say: deallocate makes ptr the head, allocate returns the head.)

# ---------------------------------------------------------------------------
# BlockHeap<ElemSize, SourceHeap>: fixed-size elements carved out of chunks.
# The element/array layout (struct TyEq, struct Block_basic, the enum that
# computes how many elements fit, struct Block) is EXTRACTED verbatim from the
# class, so the "how many fit" arithmetic that is verified is the code's own.
for ES in (8, 24, 40, 1):
    BHP = '''
#define ElemSize %du
typedef struct Block_basic Block_basic;
typedef struct BHBlock BHBlock;
typedef struct TyEq TyEq;
size_t g_live_idx;   /* ghost: index of an arbitrary live element of the current block */
''' % ES
    PRE = [dict(src=MEM, anchor=r'struct TyEq \{.*?\n  \};', lower=[]),
           dict(src=MEM, anchor=r'struct Block_basic \{.*?\n  \};', lower=[]),
           dict(src=MEM, anchor=r'enum \{\s*BytesLeft.*?\n  \};', lower=[ren('SourceHeap::AllocSize', 'ALLOC_SIZE')]),
           dict(src=MEM, anchor=r'struct Block \{\s*union \{\s*Block\* next;\s*double dummy;\s*\};\s*TyEq data\[TotalFit\];\s*\};',
                lower=[rx(r'struct Block \{', 'struct BHBlock {', 1, 1), rx(r'Block\* next', 'BHBlock* next', 1, 1)])]
    BHS = 'struct BlockHeap { BHBlock* head; int headIndex; };\n' \
          '#define BLK_INV(h) ((h)->head == 0 || ((h)->headIndex >= 0 && (h)->headIndex <= TotalFit))\n' \
          '#define BLK_FRESH(h) (__CPROVER_is_fresh(h, sizeof(*(h))) && ((h)->head != 0 ==> __CPROVER_is_fresh((h)->head, ALLOC_SIZE)))\n'

    def mk(name, anchor, proto, contract, uses, says, extra_lower=()):
        UNITS.append(Unit(
            name='%s_%d' % (name, ES), src=MEM, within=r'class BlockHeap\b', anchor=anchor, proto=proto % ES, contract=contract,
            prelude=[HEAP, BHP], pre_extract=PRE, uses=uses, backend='smt',
            ghost_prefix='', inst='ElemSize=%d, SourceHeap::AllocSize = 2 MB' % ES, says=says,
            lower=[members(['head', 'headIndex'], minimum=2), ren('SourceHeap::allocate', 'src_alloc', 0), ren('SourceHeap::AllocSize', 'ALLOC_SIZE', 0),
                   rx(r'(?<![\w])Block\* BP = \(Block\*\)P;', 'BHBlock* BP = (BHBlock*)P;', 0)] + list(extra_lower)))
    # struct BlockHeap must come after the extracted declarations: put it in ghost-free prelude via pre_extract trick
    UNITS_BH = []
    mk('BlockHeap_refill', r'void refill\(\)', 'void BlockHeap_refill_%d(struct BlockHeap* self)',
       '''__CPROVER_requires(BLK_FRESH(self))
__CPROVER_ensures(self->head != 0 && __CPROVER_is_fresh(self->head, ALLOC_SIZE) && self->head->next == __CPROVER_old(self->head) && self->headIndex == 0)
__CPROVER_assigns(self->head, self->headIndex)''', ['src_alloc'], 'refill links a fresh chunk and restarts the element index')
    mk('BlockHeap_allocate', r'inline void\* allocate\(size_t GALOIS_USED_ONLY_IN_DEBUG\(size\)\)', 'void* BlockHeap_allocate_%d(struct BlockHeap* self, size_t size)',
       '''__CPROVER_requires(BLK_FRESH(self) && BLK_INV(self) && size == ElemSize && (self->head != 0 ==> g_live_idx < (size_t)self->headIndex))
__CPROVER_ensures(sizeof(struct BHBlock) <= ALLOC_SIZE && sizeof(TyEq) >= ElemSize && sizeof(TyEq) % 8 == 0)
__CPROVER_ensures(__CPROVER_return_value != 0 && self->head != 0 && __CPROVER_same_object(__CPROVER_return_value, self->head) && BLK_INV(self))
__CPROVER_ensures(OFF(__CPROVER_return_value) == 8 + sizeof(TyEq) * (size_t)(self->headIndex - 1) && OFF(__CPROVER_return_value) + sizeof(TyEq) <= ALLOC_SIZE && OFF(__CPROVER_return_value) % 8 == 0)
__CPROVER_ensures(self->head == __CPROVER_old(self->head) ==> (self->headIndex == __CPROVER_old(self->headIndex) + 1 && (size_t)(self->headIndex - 1) != g_live_idx))
__CPROVER_ensures(self->head != __CPROVER_old(self->head) ==> (self->headIndex == 1 && self->head->next == __CPROVER_old(self->head)))
__CPROVER_assigns(self->head, self->headIndex)''', ['BlockHeap_refill_%d' % ES],
       'fixed-size allocation: element headIndex of the current block -- non-null, inside the 2 MB chunk (the extracted TotalFit arithmetic never lets an element stick out), 8-aligned, at least ElemSize bytes, a different element than every one handed out before from this block; a full block is replaced by a fresh one',
       extra_lower=[rx(r'GALOIS_USED_ONLY_IN_DEBUG\(size\)', 'size', 0), rx(r'(?<![\w.>])refill\(\)', 'BlockHeap_refill_%d(self)' % ES, 1, 1)])
    for u in UNITS[-2:]:
        u.prelude = [HEAP, BHP]
        u.post_pre = BHS

# ---------------------------------------------------------------------------
# Pow_2_BlockHeap: size classes.
P2_PRE = [dict(src=MEM, anchor=r'static const bool USE_MALLOC_AS_BACKUP = true;', lower=[]),
          dict(src=MEM, anchor=r'static const size_t LOG2_MIN_SIZE = \d+;', lower=[]),
          dict(src=MEM, anchor=r'static const size_t LOG2_MAX_SIZE = \d+;', lower=[])]
P2 = '''
unsigned g_class;   /* ghost: the size class the last block was taken from / returned to */
#define GV_NOP(...) ((void)0)
'''
P2_TABLE = '''
/* ASSUMED (populateTable, by inspection): the table has LOG2_MAX_SIZE+1 fixed-size heaps, heap i serving blocks of 2^i bytes */
static inline size_t ht_size(void) { return LOG2_MAX_SIZE + 1; }
void* ht_allocate(unsigned i, size_t sz)
__CPROVER_requires(i <= LOG2_MAX_SIZE && sz == ((size_t)1 << i))
__CPROVER_ensures(__CPROVER_is_fresh(__CPROVER_return_value, sz) && g_class == i)
__CPROVER_assigns(g_class);
void ht_deallocate(unsigned i, void* ptr)
__CPROVER_requires(i <= LOG2_MAX_SIZE)
__CPROVER_ensures(g_class == i)
__CPROVER_assigns(g_class);
'''
UNITS.append(Unit(name='ht_allocate', kind='assumed', proto='void* ht_allocate(unsigned i, size_t sz)', contract='', prelude=[]))
UNITS.append(Unit(name='ht_deallocate', kind='assumed', proto='void ht_deallocate(unsigned i, void* ptr)', contract='', prelude=[]))
for u in UNITS[-2:]:
    u.decl = lambda: ''      # declared (with contract) in P2_TABLE, after the extracted constants
UNITS.append(Unit(
    name='Pow2_pow2', src=MEM, within=r'class Pow_2_BlockHeap\b', anchor=r'static inline size_t pow2\(unsigned i\)',
    proto='size_t Pow2_pow2(unsigned i)', contract='__CPROVER_requires(i < 32)\n__CPROVER_ensures(__CPROVER_return_value == ((size_t)1 << i))\n__CPROVER_assigns()',
    prelude=[HEAP, P2], pre_extract=P2_PRE, says='pow2(i) = 2^i for i < 32'))
UNITS.append(Unit(
    name='Pow2_nextLog2', src=MEM, within=r'class Pow_2_BlockHeap\b', anchor=r'static unsigned nextLog2\(const size_t allocSize\)',
    proto='unsigned Pow2_nextLog2(size_t allocSize)',
    contract='''__CPROVER_requires(allocSize <= ((size_t)1 << LOG2_MAX_SIZE))
__CPROVER_ensures(LOG2_MIN_SIZE <= __CPROVER_return_value && __CPROVER_return_value <= LOG2_MAX_SIZE && ((size_t)1 << __CPROVER_return_value) >= allocSize)
__CPROVER_ensures(__CPROVER_return_value == LOG2_MIN_SIZE || ((size_t)1 << (__CPROVER_return_value - 1)) < allocSize)
__CPROVER_assigns()''',
    prelude=[HEAP, P2], pre_extract=P2_PRE, uses=['Pow2_pow2'],
    lower=[rx(r'(?<![\w])pow2\(', 'Pow2_pow2(', 1, 1)],
    loops={1: '''
__CPROVER_assigns(i)
__CPROVER_loop_invariant(LOG2_MIN_SIZE <= i && i <= LOG2_MAX_SIZE && (i == LOG2_MIN_SIZE || ((size_t)1 << (i - 1)) < allocSize))
__CPROVER_decreases(LOG2_MAX_SIZE - i)
'''},
    says='size class of a request: the least i >= 3 with 2^i >= allocSize, at most 16; a function of allocSize only (same class on free as on allocate)'))
for nm, anchor, proto, post in [
        ('Pow2_allocateBlock', r'void\* allocateBlock\(const size_t allocSize\)', 'void* Pow2_allocateBlock(size_t allocSize)',
         '__CPROVER_ensures(__CPROVER_return_value != 0 && __CPROVER_OBJECT_SIZE(__CPROVER_return_value) >= allocSize && OFF(__CPROVER_return_value) == 0)\n__CPROVER_ensures(allocSize <= ((size_t)1 << LOG2_MAX_SIZE) ==> (g_class >= LOG2_MIN_SIZE && ((size_t)1 << g_class) >= allocSize && (g_class == LOG2_MIN_SIZE || ((size_t)1 << (g_class - 1)) < allocSize)))'),
        ('Pow2_deallocateBlock', r'void deallocateBlock\(void\* ptr, const size_t allocSize\)', 'void Pow2_deallocateBlock(void* ptr, size_t allocSize)',
         '__CPROVER_ensures(allocSize <= ((size_t)1 << LOG2_MAX_SIZE) ==> (g_class >= LOG2_MIN_SIZE && ((size_t)1 << g_class) >= allocSize && (g_class == LOG2_MIN_SIZE || ((size_t)1 << (g_class - 1)) < allocSize)))')]:
    UNITS.append(Unit(
        name=nm, src=MEM, within=r'class Pow_2_BlockHeap\b', anchor=anchor, proto=proto,
        contract='__CPROVER_requires(allocSize >= 1 && allocSize <= ((size_t)1 << 40)' + (' && __CPROVER_is_fresh(ptr, allocSize)' if 'dealloc' in nm else '') + ')\n' + post + '\n__CPROVER_assigns(g_class' + ('; __CPROVER_object_whole(ptr)' if 'dealloc' in nm else '') + ')' + ('\n__CPROVER_frees(ptr)' if 'dealloc' in nm else ''),
        prelude=[HEAP, P2], pre_extract=P2_PRE, post_pre=P2_TABLE, uses=['Pow2_nextLog2', 'Pow2_pow2', 'gv_malloc', 'ht_allocate', 'ht_deallocate'],
        lower=[rx(r'(?<![\w])pow2\(', 'Pow2_pow2(', 1), rx(r'(?<![\w])nextLog2\(', 'Pow2_nextLog2(', 1, 1),
               rx(r'(?<![\w])malloc\(', 'gv_malloc(', 0), rx(r'fprintf\(stderr,', 'GV_NOP(', 1), rx(r'throw std::bad_alloc\(\);', '', 1),
               rx(r'heapTable\.size\(\)', 'ht_size()', 1, 1), rx(r'heapTable\[i\]\.allocate\(', 'ht_allocate(i, ', 0), rx(r'heapTable\[i\]\.deallocate\(', 'ht_deallocate(i, ', 0)],
        backend='smt',
        says='%s: requests above 64 KB go to malloc/free; every other request is served by the heap of its size class (class i with 2^i >= allocSize, the least such i >= 3), the same class on free as on allocate; the block is at least allocSize bytes; the code\'s table-index assertion holds' % nm,
        trusted=['heap table stub (ht_size/ht_allocate/ht_deallocate): LOG2_MAX_SIZE+1 heaps, heap i serves 2^i-byte blocks (populateTable, by inspection)']))

# ---------------------------------------------------------------------------
# PerBackend (PerThreadStorage.cpp): offsets inside the per-thread page.
# nextLoc is shared: thread-modular with the rely
#   "nextLoc stays a multiple of the cache line and stays above the ghost
#    live block"  (other threads only fetch_add cache-line multiples, and lower
#    nextLoc only when they free the top block, above which nothing is live).
# The free lists (vector<vector<unsigned>>, under freeOffsetsLock) are a stub
# whose push REQUIRES and whose back ENSURES the list invariant: an entry of
# class i is a cache-line multiple, fits the page, and is disjoint from the
# ghost live block.
PB_PRE = [dict(src=PTS, anchor=r'constexpr unsigned MAX_SIZE = \d+;', lower=[rx('constexpr', 'static const', 1, 1)]),
          dict(src=PTS, anchor=r'constexpr unsigned MIN_SIZE = \d+;', lower=[rx('constexpr', 'static const', 1, 1)])]
PB = '''
#define ptAllocSize ((unsigned)(2u * 1024 * 1024))   /* galois::substrate::allocSize() */
unsigned pl_off, pl_len;     /* ghost: an arbitrary live block [pl_off, pl_off+pl_len) of the page */
/* nextLoc <= 2^30: a thread adds to nextLoc only after seeing nextLoc + size <= page size, so nextLoc never exceeds
   (threads + 1) * 2 MB -- below 2^30 for up to 511 threads; beyond that the unsigned sums in allocOffset could wrap */
#define GV_RELY_EXPR(o, n) ((n) % 128 == 0 && (n) >= (uint64_t)pl_off + pl_len && (n) <= ((uint64_t)1 << 30))
#include "gv_atomic.h"
struct PerBackend { gv_atomic nextLoc; bool invalid; } pb;
#define DISJ(o, sz) ((uint64_t)(o) + (sz) <= pl_off || (uint64_t)pl_off + pl_len <= (o))
#define FO_ENTRY_OK(i, o) ((o) % 128 == 0 && (uint64_t)(o) + ((uint64_t)1 << (i)) <= ptAllocSize && DISJ(o, (uint64_t)1 << (i)))
static inline void gv_abort(void) { __CPROVER_assert(0, "abort() reached"); __CPROVER_assume(0); }
static inline void gv_die(void) { __CPROVER_assume(0); }   /* GALOIS_DIE: out of memory / use after delete -- terminates the program */
bool g_lock_held;   /* freeOffsetsLock (std::lock_guard) */
bool nondet_bool(void); unsigned nondet_unsigned(void);
bool g_fo_nonempty_at; unsigned g_fo_probe;   /* ghost: emptiness answers must be consistent for the class that is popped */
'''
PB_FO = '''
/* emptiness of list i: arbitrary but consistent within the call (the lists only change under the lock this call holds) */
bool __CPROVER_uninterpreted_fo_empty(unsigned i);
static inline bool fo_empty(unsigned i)
{ __CPROVER_assert(g_lock_held && i < MAX_SIZE, "free lists are read under the lock, class in range"); return __CPROVER_uninterpreted_fo_empty(i); }
static inline unsigned fo_back(unsigned i)
{ __CPROVER_assert(g_lock_held && i < MAX_SIZE && !__CPROVER_uninterpreted_fo_empty(i), "back() on a non-empty list, under the lock");
  unsigned o = nondet_unsigned(); __CPROVER_assume(FO_ENTRY_OK(i, o)); return o; }
static inline void fo_pop_back(unsigned i) { __CPROVER_assert(g_lock_held && i < MAX_SIZE, "pop under the lock"); }
static inline void fo_push_back(unsigned i, unsigned o)
{ __CPROVER_assert(g_lock_held && i < MAX_SIZE, "push under the lock, class in range");
  __CPROVER_assert(FO_ENTRY_OK(i, o), "pushed entry keeps the free-list invariant: cache-line multiple, inside the page, disjoint from every live block"); }
'''
UNITS.append(Unit(
    name='PerBackend_nextLog2', src=PTS, anchor=r'unsigned galois::substrate::PerBackend::nextLog2\(unsigned size\)',
    proto='unsigned PerBackend_nextLog2(unsigned size)',
    contract='''__CPROVER_requires(size <= (1u << (MAX_SIZE - 1)))
__CPROVER_ensures(MIN_SIZE <= __CPROVER_return_value && __CPROVER_return_value < MAX_SIZE && (1u << __CPROVER_return_value) >= size)
__CPROVER_ensures(__CPROVER_return_value == MIN_SIZE || (1u << (__CPROVER_return_value - 1)) < size)
__CPROVER_assigns()''',
    prelude=[PB], pre_extract=PB_PRE, lower=[rx(r'(?<![\w])abort\(\)', 'gv_abort()', 1, 1)],
    loops={1: '''
__CPROVER_assigns(i)
__CPROVER_loop_invariant(MIN_SIZE <= i && i < MAX_SIZE && (i == MIN_SIZE || (1u << (i - 1)) < size))
__CPROVER_decreases(MAX_SIZE - i)
'''},
    says='per-thread storage size class: the least i >= 7 (one cache line) with 2^i >= size; abort() unreachable for sizes up to 2^29'))
UNITS.append(Unit(
    name='PerBackend_allocOffset', src=PTS, anchor=r'unsigned galois::substrate::PerBackend::allocOffset\(const unsigned sz\)',
    proto='unsigned PerBackend_allocOffset(unsigned sz)',
    contract='''__CPROVER_requires(sz >= 1 && sz <= ptAllocSize && pl_len >= 1 && (uint64_t)pl_off + pl_len <= ptAllocSize && pb.nextLoc.v % 128 == 0 && pb.nextLoc.v >= (uint64_t)pl_off + pl_len && pb.nextLoc.v <= ((uint64_t)1 << 30) && !g_lock_held && !g_fo_nonempty_at && !pb.invalid)
__CPROVER_ensures(__CPROVER_return_value % 128 == 0)
__CPROVER_ensures((uint64_t)__CPROVER_return_value + sz <= ptAllocSize)
__CPROVER_ensures(DISJ(__CPROVER_return_value, sz))
__CPROVER_assigns(pb.nextLoc.v, g_lin_count, g_lin_old, g_lin_new, g_last_read, g_last_load_order, g_last_write_order, g_lock_held, g_fo_nonempty_at, g_fo_probe)''',
    prelude=[PB], pre_extract=PB_PRE, post_pre=PB_FO, uses=['PerBackend_nextLog2'],
    lower=[ren('std::memory_order_relaxed', 'memory_order_relaxed'),
           rx(r'(?<![\w])nextLog2\(', 'PerBackend_nextLog2(', 1, 1),
           rx(r'nextLoc\.load\(', '(unsigned)gv_load(&pb.nextLoc, ', 1, 1),
           rx(r'nextLoc\.fetch_add\(size\)', '(unsigned)gv_fetch_add(&pb.nextLoc, size, memory_order_seq_cst)', 1, 1),
           rx(r'(?<![\w.])invalid(?![\w])', 'pb.invalid', 1, 1),
           rx(r'GALOIS_DIE\([^;]*\);', 'gv_die();', 2, 2),
           rx(r'std::lock_guard<Lock> llock\(freeOffsetsLock\);', 'g_lock_held = 1;', 1, 1),
           rx(r'freeOffsets\[(\w+)\]\.empty\(\)', r'fo_empty(\1)', 3), rx(r'freeOffsets\[(\w+)\]\.back\(\)', r'fo_back(\1)', 2, 2),
           rx(r'freeOffsets\[(\w+)\]\.pop_back\(\)', r'fo_pop_back(\1)', 2, 2), rx(r'freeOffsets\[(\w+)\]\.push_back\(', r'fo_push_back(\1, ', 1, 1)],
    loops={1: '''
__CPROVER_assigns(index)
__CPROVER_loop_invariant(ll <= index && index <= MAX_SIZE && g_lock_held && ll >= MIN_SIZE && ll < MAX_SIZE && size == (1u << ll))
__CPROVER_decreases(MAX_SIZE - index)
''', 2: '''
__CPROVER_assigns(i, start)
__CPROVER_loop_invariant(g_lock_held && MIN_SIZE <= ll && ll < index && index < MAX_SIZE && size == (1u << ll) && ll <= i + 1 && i < index &&
  end == offset + (1u << index) && FO_ENTRY_OK(index, offset) && start <= end && (uint64_t)end - start == ((uint64_t)1 << (i + 1)) - size && start % 128 == 0 && start >= offset + size)
__CPROVER_decreases(i + 1)
'''},
    no_flags=['--conversion-check'], backend='smt',
    says='per-thread storage offsets: the returned offset is a cache-line multiple, the block fits the page and is disjoint from every live block (ghost), on the bump path (under interference on nextLoc), when recycled from a free list, and when split off a bigger free block -- the "change" pieces pushed back tile the remainder exactly (each push keeps the free-list invariant)',
    trusted=['free-list stub fo_* (vector<vector<unsigned>> under freeOffsetsLock): entries satisfy the invariant FO_ENTRY_OK; std::lock_guard = lock held to the end of the function',
             'rely on nextLoc: cache-line multiple, above every live block (argued in the unit comment)']))

EXPLANATION = ('BumpHeap (refill, allocate, may-fail allocate), BumpWithMallocHeap (the per-iteration heap), BlockHeap<1|8|24|40> (with the layout '
               'arithmetic extracted from the class), FreeListHeap, Pow_2_BlockHeap size classes and PerBackend offsets are extracted from /repo, lowered to C '
               'and proved against contracts: returned block non-null, inside its chunk/page, aligned (relative to the chunk), at least the requested size, '
               'disjoint from an arbitrary ghost live block (hence from every live block); reuse only through the free list.')
NOT_DECIDED = ('concurrent alloc/free on shared heaps beyond PerBackend::nextLoc; LargeArray/NumaMem (mmap + libnuma), PageAlloc.cpp, the page pool; '
               'absolute alignment of chunks (OS/page pool); clear() list walks; SizedHeapFactory map; deallocOffset; that the executor resets the per-iteration heap only at commit/abort.')
ASSUMPTIONS = ['source heap / malloc return fresh objects of the requested size (assumed contracts src_alloc, gv_malloc); out-of-memory not modelled',
               'alignment is relative to the chunk start (chunks are 2 MB pages or malloc blocks)',
               'PerBackend: rely on nextLoc (cache-line multiple, above live blocks, <= 2^30 i.e. at most 511 threads); free-list stub with the stated entry invariant; lock_guard holds the lock to the end of the function',
               'Pow_2_BlockHeap heap table: 17 heaps, heap i serves 2^i bytes (populateTable, by inspection)',
               'GALOIS_DIE / abort terminate the program']
