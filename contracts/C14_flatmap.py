"""C14 (part) -- galois::flat_map (FlatMap.h): a sorted std::vector of pairs used as a map.
TYPESTATE contract over the wrapped vector: is it sorted by key, does it hold at most one entry per key.  The std algorithms
are stubs with the standard's preconditions/effects (sort sorts; unique on a sorted range leaves one of each run; lower_bound
needs a sorted range and finds the first entry not less than the key).  Class invariant: sorted and unique -- what every lookup
relies on and what makes size/erase/count agree with std::map."""
import re
from gv.unit import Unit
from gv.lower import (bind, ren, members, refs, call, fcall, index, stdfn, mkpair, casts, drop, dropcall, rx)

FM = 'libgalois/include/galois/FlatMap.h'
W = r'class flat_map\b'
UNITS = []
P = ["""
struct FlatMapS { size_t n; bool sorted; bool uniq; };     /* the wrapped vector, abstractly: length, sorted by key, one entry per key */
bool g_present;      /* ghost: the key of this call is present in the map (before the call) */
bool g_v_lt_last, g_last_lt_v;   /* ghost: how the key of this call compares with the LAST (largest) key of the map: comp(k, last), comp(last, k) */
size_t g_dups;       /* ghost: entries of an input range beyond the first of each key */
#define FM_OK(m) ((m)->sorted && (m)->uniq && (m)->n <= ((size_t)1 << 40))
static inline void std_sort(struct FlatMapS* m) { m->sorted = 1; }
static inline void std_stable_sort(struct FlatMapS* m) { m->sorted = 1; }
/* erase(unique(begin, end, same_key), end) on a SORTED range: one entry per key remains */
static inline void std_unique_erase(struct FlatMapS* m) { __CPROVER_assert(m->sorted, "std::unique removes all repeated keys only on a sorted range"); m->n -= g_dups; m->uniq = 1; }
/* std::lower_bound: precondition sorted; on a sorted range with one entry per key, "found the key" <=> the key is present */
static inline bool std_lower_bound_hits(const struct FlatMapS* m) { __CPROVER_assert(m->sorted, "std::lower_bound precondition: the range is sorted by key"); return m->uniq ? g_present : nondet_bool(); }
bool nondet_bool(void);
"""]


def U(name, anchor, proto, contract, says, extra=(), **kw):
    UNITS.append(Unit(name='FlatMap_' + name, src=FM, within=W, anchor=anchor, proto=proto, contract=contract, prelude=P, lower=list(extra), no_flags=['--conversion-check'],
                      inst='flat_map<int, int> over std::vector (abstract)', says=says, **kw))


RESORT = [rx(r'std::sort\(_data\.begin\(\), _data\.end\(\), value_comp\(\)\);', 'std_sort(self);', 0), rx(r'std::stable_sort\(_data\.begin\(\), _data\.end\(\), value_comp\(\)\);', 'std_stable_sort(self);', 0),
          rx(r'_data\.erase\(\s*std::unique\(.*?\),\s*_data\.end\(\)\);', 'std_unique_erase(self);', 0, flags=re.S)]
U('resort', r'void resort\(\)', 'void FlatMap_resort(struct FlatMapS* self)',
  '__CPROVER_requires(__CPROVER_is_fresh(self, sizeof(*self)) && self->n <= ((size_t)1 << 40) && g_dups <= self->n && (g_dups == 0) == (self->uniq != 0))\n__CPROVER_ensures(FM_OK(self) && self->n == __CPROVER_old(self->n) - g_dups)\n__CPROVER_assigns(__CPROVER_object_whole(self))',
  'resort() (what every range constructor calls on arbitrary input): afterwards the vector is sorted by key AND holds one entry per key, i.e. as many entries as there are distinct keys -- like std::map built from the same range',
  extra=RESORT, replay=dict(prog='flatmap_range_ctor', args=[], lib=False))
for k, anchor in enumerate([r'flat_map\(_InputIterator __first, _InputIterator __last\)', r'flat_map\(_InputIterator __first, _InputIterator __last, const _Compare&,']):
    U('ctor_range%d' % (k + 1), anchor, 'void FlatMap_ctor_range%d(struct FlatMapS* self, size_t n)' % (k + 1),
      '__CPROVER_requires(__CPROVER_is_fresh(self, sizeof(*self)) && n <= ((size_t)1 << 40) && g_dups <= n)\n__CPROVER_ensures(FM_OK(self) && self->n == n - g_dups)\n__CPROVER_assigns(__CPROVER_object_whole(self))',
      'flat_map(first, last%s): the class invariant holds and the map has one entry per distinct key of the range' % (', comp, alloc' if k else ''),
      extra=[rx(r'resort\(\);', 'FlatMap_resort_inl(self);', 1, 1)], ghost_prefix='self->n = n; self->sorted = 0; self->uniq = (g_dups == 0);   /* _data(first, last): the range as given */',
      post_pre='void FlatMap_resort_inl(struct FlatMapS* self);\n', inline=['FlatMap_resort_inl'])
UNITS.append(Unit(name='FlatMap_resort_inl', kind='assumed', src=FM, within=W, anchor=r'void resort\(\)', proto='void FlatMap_resort_inl(struct FlatMapS* self)', contract='', lower=RESORT))
U('emplace', r'std::pair<iterator, bool> emplace\(Args&&\.\.\. args\)', 'bool FlatMap_emplace(struct FlatMapS* self)',
  '__CPROVER_requires(__CPROVER_is_fresh(self, sizeof(*self)) && FM_OK(self) && self->n < ((size_t)1 << 40))\n/* strict weak order: not both; equivalent to the last key => present; greater than the last key => absent; empty map => absent */\n__CPROVER_requires(!(g_v_lt_last != 0 && g_last_lt_v != 0) && ((g_v_lt_last == 0 && g_last_lt_v == 0 && self->n >= 1) ==> g_present != 0) && ((g_last_lt_v != 0 || self->n == 0) ==> g_present == 0))\n__CPROVER_ensures(FM_OK(self) && (__CPROVER_return_value != 0) == !(g_present != 0) && self->n == __CPROVER_old(self->n) + (g_present ? 0 : 1))\n__CPROVER_assigns(__CPROVER_object_whole(self))',
  'emplace/insert(pair): inserted (at its sorted position) iff the key was absent; the vector stays sorted with one entry per key; an existing entry is left alone',
  extra=[rx(r'_data\.emplace_back\(std::forward<Args>\(args\)\.\.\.\);', 'self->n++;   /* emplace_back: the candidate sits behind the sorted part */', 1, 1),
         rx(r'value_type& v = _data\.back\(\);\s*auto ee\s*=\s*_data\.end\(\);\s*--ee;', '', 1, 1),
         rx(r'auto __i = std::lower_bound\(_data\.begin\(\), ee, v\.first, value_key_comp\(\)\);', 'bool hit = std_lower_bound_hits(self);   /* on [begin, end-1): the sorted part */', 1, 1),
         rx(r'bool retval = __i == ee \|\| key_comp\(\)\(v\.first, \(\*__i\)\.first\);', 'bool retval = !hit;', 1, 1),
         rx(r'if \(__i != ee\) \{.*?_data\.pop_back\(\);\s*\}', '{ /* move the candidate from the back to its sorted position (or leave it: it is the largest) */ }', 1, 1, flags=re.S),
         rx(r'_data\.pop_back\(\);', 'self->n--;', 1, 1), rx(r'return std::make_pair\(\w+, retval\);', 'return retval;', 1), rx(r'return std::make_pair\(\w+, true\);', 'return 1;', 0), rx(r'return std::make_pair\(\w+, false\);', 'return 0;', 0),
         # comparisons with the last element / emptiness tests a shortcut might use (the candidate already sits at the back: n was incremented)
         rx(r'ee == _data\.begin\(\)', '(self->n == 1)', 0), rx(r'key_comp\(\)\(v\.first, \(\*\(ee - 1\)\)\.first\)', '(g_v_lt_last != 0)', 0), rx(r'key_comp\(\)\(\(\*\(ee - 1\)\)\.first, v\.first\)', '(g_last_lt_v != 0)', 0)])
U('find', r'(?<!const_)iterator find\(const key_type& __x\)', 'bool FlatMap_find(struct FlatMapS* self)',
  '__CPROVER_requires(__CPROVER_is_fresh(self, sizeof(*self)) && FM_OK(self))\n__CPROVER_ensures((__CPROVER_return_value != 0) == (g_present != 0))\n__CPROVER_assigns()',
  'find(k) != end() <=> k is present (lower_bound on a sorted range with one entry per key)',
  extra=[rx(r'auto i = lower_bound\(__x\);', 'bool hit = std_lower_bound_hits(self);', 1, 1), rx(r'if \(i != end\(\) && key_eq\(i->first, __x\)\)\s*return i;', 'if (hit) return 1;', 1, 1), rx(r'return end\(\);', 'return 0;', 1, 1)])

# operator[], at, erase(key): lookups go through lower_bound (sorted range needed); operator[] inserts AT the lower bound, which keeps the order
P2 = P + ["""
bool g_thrown;
static inline void gv_out_of_range(void) { g_thrown = 1; }
/* _data.emplace(lower_bound position, ...): inserting a key that is absent at its lower-bound position keeps the vector sorted with one entry per key */
static inline void data_emplace_at_lb(struct FlatMapS* m) { __CPROVER_assert(m->sorted && m->uniq && g_present == 0, "vector::emplace at the lower bound of an absent key"); m->n++; }
static inline void data_erase_found(struct FlatMapS* m) { __CPROVER_assert(m->n >= 1 && g_present != 0, "vector::erase of the found entry"); m->n--; }
"""]
LBHIT = [rx(r'(const_)?iterator __i = lower_bound\(__k\);', 'bool hit = std_lower_bound_hits(self);', 1, 1), rx(r'__i == end\(\) \|\| key_comp\(\)\(__k, \(\*__i\)\.first\)', '!hit', 1, 1)]
UNITS.append(Unit(name='FlatMap_index', src=FM, within=W, anchor=r'mapped_type& operator\[\]\(const key_type& __k\)', proto='void FlatMap_index(struct FlatMapS* self)',
                  contract='__CPROVER_requires(__CPROVER_is_fresh(self, sizeof(*self)) && FM_OK(self) && self->n < ((size_t)1 << 40))\n__CPROVER_ensures(FM_OK(self) && self->n == __CPROVER_old(self->n) + (g_present ? 0 : 1))\n__CPROVER_assigns(__CPROVER_object_whole(self))',
                  prelude=P2, lower=LBHIT + [rx(r'__i = _data\.emplace\(__i, std::piecewise_construct,\s*std::forward_as_tuple\(__k\), std::tuple<>\(\)\);', 'data_emplace_at_lb(self);', 1, 1, flags=re.S), rx(r'return \(\*__i\)\.second;', 'return;', 1, 1)],
                  no_flags=['--conversion-check'], inst='flat_map<int, int> (abstract)', says='operator[](k): a missing key is inserted at its lower-bound position (order and uniqueness kept), an existing one is found; size grows by one exactly when the key was absent'))
UNITS.append(Unit(name='FlatMap_at', src=FM, within=W, anchor=r'(?<!const )mapped_type& at\(const key_type& __k\)', proto='void FlatMap_at(struct FlatMapS* self)',
                  contract='__CPROVER_requires(__CPROVER_is_fresh(self, sizeof(*self)) && FM_OK(self) && !g_thrown)\n__CPROVER_ensures((g_thrown != 0) == (g_present == 0))\n__CPROVER_assigns(g_thrown)',
                  prelude=P2, lower=LBHIT + [rx(r'throw std::out_of_range\("flat_map::at"\);', '{ gv_out_of_range(); return; }', 1, 1), rx(r'return \(\*__i\)\.second;', 'return;', 1, 1)],
                  no_flags=['--conversion-check'], inst='flat_map<int, int> (abstract)', says='at(k): std::out_of_range exactly when the key is absent'))
UNITS.append(Unit(name='FlatMap_erase_key', src=FM, within=W, anchor=r'size_type erase\(const key_type& __x\)', proto='size_t FlatMap_erase_key(struct FlatMapS* self)',
                  contract='__CPROVER_requires(__CPROVER_is_fresh(self, sizeof(*self)) && FM_OK(self) && (g_present != 0 ==> self->n >= 1))\n__CPROVER_ensures(FM_OK(self) && __CPROVER_return_value == (g_present ? 1u : 0u) && self->n == __CPROVER_old(self->n) - (g_present ? 1 : 0))\n__CPROVER_assigns(__CPROVER_object_whole(self))',
                  prelude=P2, lower=[rx(r'auto i = find\(__x\);', 'bool found = FlatMap_find_inl(self);', 1, 1), rx(r'i != end\(\)', 'found', 1, 1), rx(r'_data\.erase\(i\);', 'data_erase_found(self);', 1, 1)],
                  post_pre='static inline bool FlatMap_find_inl(struct FlatMapS* self) { return std_lower_bound_hits(self); }   /* = the proved contract of find(): found <=> present */\n',
                  no_flags=['--conversion-check'], inst='flat_map<int, int> (abstract)', says='erase(k): removes the entry of k if there is one (returns 1) and nothing otherwise (returns 0); order and uniqueness kept'))
