// Native replay: the REAL GReduceMax<GV_T> / GReduceMin<GV_T> (Reduction.h): after a
// single update(x) the reduced value must be x.
#include "gv_replay.h"
#include "galois/Galois.h"
#include "galois/Reduction.h"
#include <cmath>
#include <type_traits>

int main(int argc, char** argv) {
  GvArgs a(argc, argv);
  galois::SharedMemSys G;
  galois::setActiveThreads(2);
  std::string key;
  for (auto& kv : a.m) if (kv.first.rfind("g_x_", 0) == 0) key = kv.first;
  GV_T x;
  if (std::is_floating_point<GV_T>::value) x = (GV_T)strtod(a.m[key].c_str(), nullptr);
  else x = (GV_T)a.u(key.c_str());
#if WHICH == 1
  galois::GReduceMax<GV_T> r;
#else
  galois::GReduceMin<GV_T> r;
#endif
  r.update(x);
  GV_T got = r.reduce();
  printf("update(%.17g) then reduce() = %.17g\n", (double)x, (double)got);
  GV_CHECK(got == x, "reduce() after one update does not return the update: identity law broken");
  fflush(stdout);
  return gv_bad;
}
