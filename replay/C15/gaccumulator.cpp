// Native replay: the REAL GAccumulator<uint64_t> operator+= / operator-=.
#include "gv_replay.h"
#include "galois/Galois.h"
#include "galois/Reduction.h"
int main(int argc, char** argv) {
  GvArgs a(argc, argv);
  galois::SharedMemSys G;
  uint64_t rhs = a.u("rhs"), start = 1000;
  galois::GAccumulator<uint64_t> acc;
  acc += start;
#if OP == 1
  acc += rhs;
  uint64_t want = start + rhs;
#else
  acc -= rhs;
  uint64_t want = start - rhs;
#endif
  uint64_t got = acc.reduce();
  printf("start %llu, op %d with %llu -> %llu (expected %llu)\n", (unsigned long long)start, OP, (unsigned long long)rhs,
         (unsigned long long)got, (unsigned long long)want);
  GV_CHECK(got == want, "accumulator does not hold the sequential sum");
  fflush(stdout);
  return gv_bad;
}
