// Native replay: an INDEPENDENT writer lays a graph out per the documented
// format; the REAL FileGraph::fromMem (compiled from the working tree) must
// find the sections.  Small exhaustive sweep over versions, node/edge counts
// (odd and even) and edge-data widths.
#include "gv_replay.h"
#include "galois/Galois.h"
#include "galois/graphs/FileGraph.h"   // -fno-access-control
#include <vector>
#include <unistd.h>
int main() {
  galois::SharedMemSys G;
  for (int v = 1; v <= 2; ++v) for (uint64_t n = 1; n <= 4; ++n) for (uint64_t m = 0; m <= 5; ++m) for (uint64_t s : {0, 4, 8}) {
    uint64_t w = v == 1 ? 4 : 8;
    uint64_t dst = 32 + 8 * n, data = (dst + w * m + 7) & ~7ull, total = data + s * m;
    std::vector<uint64_t> buf((total + 7) / 8 + 2, 0);
    char* base = (char*)buf.data();
    uint64_t hdr[4] = {(uint64_t)v, s, n, m};
    memcpy(base, hdr, 32);
    for (uint64_t i = 0; i < n; ++i) ((uint64_t*)(base + 32))[i] = (i + 1 == n) ? m : 0;   // all edges on the last node
    for (uint64_t e = 0; e < m; ++e) { if (v == 1) ((uint32_t*)(base + dst))[e] = (uint32_t)(e % n); else ((uint64_t*)(base + dst))[e] = e % n; }
    for (uint64_t e = 0; e < m; ++e) { if (s == 4) ((uint32_t*)(base + data))[e] = 111 * (uint32_t)(e + 1); if (s == 8) ((uint64_t*)(base + data))[e] = 111 * (e + 1); }
    galois::graphs::FileGraph g;
    g.fromMem(base, 0, 0, 0);
    bool ok = (char*)g.outIdx == base + 32 && (char*)g.outs == base + dst && g.edgeData == base + data && g.numNodes == n && g.numEdges == m && g.sizeofEdge == s;
    if (!ok) {
      printf("version %d, %llu nodes, %llu edges, %llu-byte edge data: edge data found at offset %lld, format says %llu\n", v,
             (unsigned long long)n, (unsigned long long)m, (unsigned long long)s, (long long)(g.edgeData - base), (unsigned long long)data);
      GV_CHECK(ok, "FileGraph::fromMem does not find the sections of the documented layout");
    }
    g.outIdx = nullptr; g.outs = nullptr; g.edgeData = nullptr;
  }
  fflush(stdout);
  _exit(gv_bad);
}
