// Native replay: the REAL galois::block_range (gstl.h) on the verifier's
// counterexample; exit 1 iff the real code violates the contract's posts.
#include "gv_replay.h"
#include <boost/iterator/counting_iterator.hpp>
#include "galois/gstl.h"

typedef unsigned __int128 u128;
static u128 spec_lo(u128 d, u128 id, u128 num) {
  u128 per = (d + num - 1) / num;
  u128 x   = per * id;
  return x < d ? x : d;
}

int main(int argc, char** argv) {
  GvArgs a(argc, argv);
  IT b = (IT)a.u("b"), e = (IT)a.u("e");
  unsigned id = (unsigned)a.u("id"), num = (unsigned)a.u("num");
#ifdef ITER
  auto r  = galois::block_range(boost::counting_iterator<IT>(b), boost::counting_iterator<IT>(e), id, num);
  IT first = *r.first, second = *r.second;
#else
  auto r  = galois::block_range<IT>(b, e, id, num);
  IT first = r.first, second = r.second;
#endif
  printf("block_range(b=%llu, e=%llu, id=%u, num=%u) = [%llu, %llu)\n", (unsigned long long)b,
         (unsigned long long)e, id, num, (unsigned long long)first, (unsigned long long)second);
  u128 d = (u128)(IT)(e - b);
  GV_CHECK(b <= first && first <= second && second <= e, "piece not inside [b,e) or reversed");
  GV_CHECK((u128)(IT)(first - b) == spec_lo(d, id, num), "piece begins at %llu, spec says %llu",
           (unsigned long long)first, (unsigned long long)(b + (IT)spec_lo(d, id, num)));
  GV_CHECK((u128)(IT)(second - b) == spec_lo(d, (u128)id + 1, num), "piece ends at %llu, spec says %llu",
           (unsigned long long)second, (unsigned long long)(b + (IT)spec_lo(d, (u128)id + 1, num)));
  if (id == 0) GV_CHECK(first == b, "first piece does not start at b");
  if (id + 1 == num) GV_CHECK(second == e, "last piece does not end at e: input not covered");
  return gv_bad;
}
