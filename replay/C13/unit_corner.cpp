// Native replay: the REAL galois::graphs::internal::unitRangeCornerCaseHandle
// (GraphHelpers.cpp, compiled from the working tree) on the verifier's inputs.
#include "gv_replay.h"
#include "galois/graphs/GraphHelpers.h"

int main(int argc, char** argv) {
  GvArgs a(argc, argv);
  uint32_t units = (uint32_t)a.u("unitsToSplit"), b = (uint32_t)a.u("beginNode"), e = (uint32_t)a.u("endNode");
  if (units > (1u << 20)) { printf("units too large to replay\n"); return 0; }
  std::vector<uint32_t> r(units + 1, 0xdeadbeef);
  bool done = galois::graphs::internal::unitRangeCornerCaseHandle(units, b, e, r);
  printf("unitRangeCornerCaseHandle(units=%u, begin=%u, end=%u) -> %d :", units, b, e, (int)done);
  for (uint32_t i = 0; i <= units && i < 12; ++i) printf(" %u", r[i]);
  printf("\n");
  if (done) {
    GV_CHECK(r[0] == b, "offsets do not start at beginNode");
    GV_CHECK(r[units] == e, "offsets end at %u, not at endNode %u: input not covered", r[units], e);
    for (uint32_t i = 0; i < units; ++i) {
      if (r[i] > r[i + 1]) { GV_CHECK(r[i] <= r[i + 1], "offsets decrease at unit %u: %u > %u", i, r[i], r[i + 1]); break; }
    }
  } else {
    GV_CHECK(b != e && units != 1 && units <= e - b, "not a corner case but reported as none");
  }
  return gv_bad;
}
