// Native replay: the REAL FileGraph::divideByEdge (compiled from the working
// tree) on a FileGraph object with 4 nodes and g_E edges, all on node 0.
// Only the index array is materialised (divideByEdge reads nothing else), so
// any edge count the verifier comes up with can be replayed.
#include "gv_replay.h"
#include <unistd.h>
#include "galois/Galois.h"
#include "galois/graphs/FileGraph.h"   // built with -fno-access-control

int main(int argc, char** argv) {
  GvArgs a(argc, argv);
  galois::SharedMemSys G;
  uint64_t E = a.u("g_E"), id = a.u("id"), total = a.u("total");
  galois::graphs::FileGraph g;
  uint64_t idx[4] = {E, E, E, E};
  g.outIdx = idx; g.numNodes = 4; g.numEdges = E; g.nodeOffset = 0; g.edgeOffset = 0;
  auto r  = g.divideByEdge(0, 1, id, total);
  uint64_t aa = *r.second.first, ea = *r.second.second;
  unsigned __int128 per = ((unsigned __int128)E + total - 1) / total;
  unsigned __int128 lo = per * id, hi = per * (id + 1);
  if (lo > E) lo = E;
  if (hi > E) hi = E;
  printf("divideByEdge(id=%llu,total=%llu) on %llu edges: edges [%llu,%llu) spec [%llu,%llu)\n", (unsigned long long)id,
         (unsigned long long)total, (unsigned long long)E, (unsigned long long)aa, (unsigned long long)ea,
         (unsigned long long)lo, (unsigned long long)hi);
  GV_CHECK(aa <= ea && ea <= E, "edge piece reversed or outside [0,numEdges)");
  GV_CHECK(aa == (uint64_t)lo, "edge piece begins at %llu, spec %llu", (unsigned long long)aa, (unsigned long long)lo);
  GV_CHECK(ea == (uint64_t)hi, "edge piece ends at %llu, spec %llu", (unsigned long long)ea, (unsigned long long)hi);
  g.outIdx = nullptr;
  fflush(stdout);
  _exit(gv_bad);
}
