// Native replay for galois::ParallelSTL::partition (REAL code, working tree).
//  (a) one thread, 2048 ints, first half fail / second half satisfy the
//      predicate: no block is left over ("perfect" case);
//  (b) a legal 2-thread interleaving of the parallel phase: the call
//      on_each(P(&s)) inside the REAL partition() is redirected (macro) to a
//      hook that runs the body of the REAL partition_helper::operator() for two
//      logical threads step by step (steps = the lock-protected
//      takeLow/takeHigh/update and dual_partition on thread-private blocks);
//      the REAL sequential tail of partition() then runs unchanged.
#include "gv_replay.h"
// the build puts a copy of the working tree's ParallelSTL.h first on the include path in which the one call
// `on_each(P(&s));` of partition() reads `gv_on_each_hook(P(&s));` (gv/replay.py hook_headers); nothing else differs
template <typename H> void gv_on_each_hook(H helper);
static bool gv_reenact = false;
#include "galois/Galois.h"
#include "galois/ParallelSTL.h"
#include <vector>
#include <unistd.h>
#include <sys/wait.h>

template <typename H>
void gv_on_each_hook(H helper) {
  if (!gv_reenact) { galois::on_each(helper); return; }
  typedef typename H::RP RP;
  auto& s = *helper.state;
  struct Thr { RP low, high; } t0, t1;
  auto step = [&](Thr& t) {
    RP parts = galois::ParallelSTL::dual_partition(t.low.first, t.low.second, t.high.first, t.high.second, s.pred);
    t.low.first = parts.first; t.high.second = parts.second;
    if (t.low.first == t.low.second) t.low = s.takeLow();
    if (t.high.first == t.high.second) t.high = s.takeHigh();
    return t.low.first != t.low.second && t.high.first != t.high.second;
  };
  bool c0 = step(t0), c1 = step(t1);   // both threads take their first low and high block
  while (c0) c0 = step(t0);            // thread 0 (all-true low blocks) runs ahead and finishes
  s.update(t0.low, t0.high);
  while (c1) c1 = step(t1);
  s.update(t1.low, t1.high);
}

static bool valid(const std::vector<int>& v, long p, long ones, const char* what) {
  long o = 0; bool ok = true;
  for (long i = 0; i < (long)v.size(); ++i) { o += v[i]; if ((i < p) != (v[i] == 1)) ok = false; }
  printf("%s: returned point %ld, %s, multiset %s\n", what, p, ok ? "valid partition point" : "NOT a partition point", o == ones ? "preserved" : "CHANGED");
  return ok && o == ones;
}

int main() {
  galois::SharedMemSys G;
  auto pred = [](int x) { return x == 1; };
  {
    galois::setActiveThreads(1);
    std::vector<int> v(2048, 0);
    for (int i = 1024; i < 2048; ++i) v[i] = 1;
    // run in a child so that a crash (reversed range handed to std::partition) is reported, not fatal
    pid_t pid = fork();
    if (pid == 0) { auto it = galois::ParallelSTL::partition(v.begin(), v.end(), pred); _exit(valid(v, it - v.begin(), 1024, "(a) perfect case") ? 0 : 1); }
    int st = 0; waitpid(pid, &st, 0);
    GV_CHECK(WIFEXITED(st) && WEXITSTATUS(st) == 0, "(a) one thread, 2048 ints, no leftover block: crash or invalid result (status %d)", st);
  }
  {
    const int B = 1024, NB = 8;
    std::vector<int> v(B * NB, 1);
    for (int i = 0; i < B; ++i) { v[1 * B + i] = 0; v[7 * B + i] = i % 2; }
    long ones = 0; for (int x : v) ones += x;
    gv_reenact = true;
    auto it = galois::ParallelSTL::partition(v.begin(), v.end(), pred);
    gv_reenact = false;
    GV_CHECK(valid(v, it - v.begin(), ones, "(b) 2-thread interleaving, leftover only in the top block"), "(b) result is not a partition of the input");
  }
  fflush(stdout);
  _exit(gv_bad);
}
