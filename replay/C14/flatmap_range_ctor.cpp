// Native demonstration for C14 / galois::flat_map (finding F15): a flat_map
// built from a range with repeated keys must hold one entry per key, like
// std::map (size, erase by key, count).  The real header from the working tree
// is used.  exit 1 = property violated, exit 0 = held.
#include <functional>
#include <memory>
#include <tuple>
#include <utility>
#include "galois/FlatMap.h"
#include <cstdio>
#include <map>
#include <vector>

int main() {
  std::vector<std::pair<int, int>> v{{3, 30}, {1, 10}, {1, 11}, {2, 20}, {3, 31}};
  galois::flat_map<int, int> m(v.begin(), v.end());
  std::map<int, int> r(v.begin(), v.end());
  int bad = 0;
  if (m.size() != r.size()) {
    printf("VIOLATED: flat_map(begin, end) has %zu entries, std::map has %zu\n", m.size(), r.size());
    bad = 1;
  }
  for (auto& kv : r)
    if (m.find(kv.first) == m.end() || m.find(kv.first)->second != kv.second) {
      printf("VIOLATED: key %d maps to a different value than in std::map (the first of equal keys is kept)\n", kv.first);
      bad = 1;
    }
  m.erase(1);
  r.erase(1);
  if (m.count(1) != r.count(1)) {
    printf("VIOLATED: after erase(1), count(1) == %zu (std::map: %zu)\n", m.count(1), r.count(1));
    bad = 1;
  }
  if (!bad)
    printf("held: flat_map(begin, end) keeps one entry per key\n");
  return bad;
}
