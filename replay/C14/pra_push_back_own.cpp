// Native demonstration for C14 / PODResizeableArray::push_back (finding F12):
// v.push_back(v[0]) -- allowed for std::vector -- when the push has to
// reallocate.  The real header from the working tree is used.  The reference
// argument refers into the old block; resize() may move the block before the
// value is read.  The operation runs in a child process so that a crash is
// reported as a violation too.
// exit 1 = property violated (crash or wrong value appended), exit 0 = held.
#include "galois/PODResizeableArray.h"
#include <cstdint>
#include <cstdio>
#include <sys/wait.h>
#include <unistd.h>
#include <vector>

static int scenario(size_t n) {
  galois::PODResizeableArray<uint64_t> v;
  std::vector<uint64_t> ref;
  for (uint64_t i = 0; i < n; ++i) {
    v.push_back(i + 7);
    ref.push_back(i + 7);
  }
  // size == capacity (n is a power of two): the next push_back reallocates
  v.push_back(v[0]);
  ref.push_back(ref[0]);
  if (v.size() != ref.size())
    return 1;
  for (size_t i = 0; i < ref.size(); ++i)
    if (v[i] != ref[i]) {
      printf("element %zu: galois %lu, std::vector %lu\n", i, (unsigned long)v[i], (unsigned long)ref[i]);
      return 1;
    }
  return 0;
}

int main() {
  int bad = 0;
  for (size_t n : {size_t(1) << 4, size_t(1) << 16, size_t(1) << 20}) {
    fflush(stdout);
    pid_t pid = fork();
    if (pid == 0)
      _exit(scenario(n));
    int st = 0;
    waitpid(pid, &st, 0);
    if (WIFSIGNALED(st)) {
      printf("VIOLATED: v.push_back(v[0]) at size %zu crashed with signal %d (the reference into the old block is read after realloc moved it)\n", n, WTERMSIG(st));
      bad = 1;
    } else if (WEXITSTATUS(st) != 0) {
      printf("VIOLATED: v.push_back(v[0]) at size %zu appended a wrong value\n", n);
      bad = 1;
    } else
      printf("held: v.push_back(v[0]) at size %zu behaves like std::vector\n", n);
  }
  return bad;
}
