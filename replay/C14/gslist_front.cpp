// Native demonstration for C14 / galois::gslist (finding F14): front() of a
// non-empty list right after a pop_front() that emptied the head block.
// pop_front() leaves the emptied block linked (it is removed by the next pop);
// front() must still deliver the first element of the list, like
// std::forward_list.  The real headers from the working tree are used; the
// operation runs in a child process so that a failed assertion / crash counts.
// exit 1 = property violated, exit 0 = held.
#include "galois/Galois.h"
#include "galois/gslist.h"
#include "galois/runtime/Mem.h"
#include <cstdio>
#include <forward_list>
#include <sys/wait.h>
#include <unistd.h>

static int scenario() {
  typedef galois::gslist<int, 2> L;
  galois::runtime::FixedSizeHeap heap(sizeof(L::block_type));
  L l;
  std::forward_list<int> ref;
  for (int x : {1, 2, 3}) {
    l.push_front(heap, x);
    ref.push_front(x);
  }
  l.pop_front(heap); // removes 3: the head block (chunk size 2) is now empty but stays linked
  ref.pop_front();
  if (l.empty() != ref.empty())
    return 1;
  int f = l.front();
  int bad = (f != ref.front());
  if (bad)
    printf("front() == %d, std::forward_list::front() == %d\n", f, ref.front());
  l.clear(heap);
  return bad;
}

int main() {
  galois::SharedMemSys G;
  fflush(stdout);
  pid_t pid = fork();
  if (pid == 0)
    _exit(scenario());
  int st = 0;
  waitpid(pid, &st, 0);
  if (WIFSIGNALED(st)) {
    printf("VIOLATED: gslist<int,2>: push 1,2,3; pop_front(); front() died with signal %d (front() of the emptied head block)\n", WTERMSIG(st));
    return 1;
  }
  if (WEXITSTATUS(st) != 0) {
    printf("VIOLATED: gslist<int,2>: push 1,2,3; pop_front(); front() is not 2\n");
    return 1;
  }
  printf("held: front() == 2 after the pop that emptied the head block\n");
  return 0;
}
