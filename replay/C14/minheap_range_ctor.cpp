// Native demonstration for C14 / galois::MinHeap (finding F13): a MinHeap built
// with the range constructor must behave like a min-priority queue
// (std::priority_queue with the reversed comparator): top() is the minimum and
// pop() delivers the elements in ascending order.  The real header from the
// working tree is used.
// exit 1 = property violated, exit 0 = held.
#include "galois/Galois.h"
#include "galois/PriorityQueue.h"
#include <algorithm>
#include <cstdio>
#include <vector>

int main() {
  galois::SharedMemSys G;
  std::vector<int> v{5, 1, 9, 3, 7, 2, 8};
  galois::MinHeap<int> h(v.begin(), v.end());
  int bad = 0;
  if (h.top() != 1) {
    printf("VIOLATED: top() of MinHeap(begin, end) is %d, the minimum is 1\n", h.top());
    bad = 1;
  }
  std::vector<int> out;
  while (!h.empty())
    out.push_back(h.pop());
  std::vector<int> want(v);
  std::sort(want.begin(), want.end());
  if (out != want) {
    printf("VIOLATED: pop order");
    for (int x : out)
      printf(" %d", x);
    printf(" is not ascending\n");
    bad = 1;
  }
  if (!bad)
    printf("held: MinHeap(begin, end) pops 1 2 3 5 7 8 9\n");
  return bad;
}
