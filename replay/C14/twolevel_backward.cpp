// Native demonstration for C14 / galois::TwoLevelIteratorA (finding F16): backward
// traversal when the OUTER iterator is forward-only (the class has a
// safe_decrement path for exactly that: it re-scans from the beginning).
// forward_list<vector<int>> {{1,2},{},{3},{4,5}} must read 5 4 3 2 1 backwards.
// The real header from the working tree is used; the traversal runs in a child
// process so that a crash counts.  exit 1 = property violated, exit 0 = held.
#include "galois/TwoLevelIteratorA.h"
#include <cstdio>
#include <forward_list>
#include <sys/wait.h>
#include <unistd.h>
#include <vector>

struct GetBegin {
  std::vector<int>::iterator operator()(std::vector<int>& v) const { return v.begin(); }
};
struct GetEnd {
  std::vector<int>::iterator operator()(std::vector<int>& v) const { return v.end(); }
};

static int scenario() {
  std::forward_list<std::vector<int>> d{{1, 2}, {}, {3}, {4, 5}};
  typedef galois::TwoLevelIteratorA<std::forward_list<std::vector<int>>::iterator, std::vector<int>::iterator,
                                    std::bidirectional_iterator_tag, GetBegin, GetEnd>
      It;
  It b(d.begin(), d.end(), d.begin(), GetBegin(), GetEnd()), e(d.begin(), d.end(), d.end(), GetBegin(), GetEnd());
  std::vector<int> fwd, bwd;
  for (It i = b; i != e; ++i)
    fwd.push_back(*i);
  It i = e;
  for (int k = 0; k < 5; ++k) {
    --i;
    bwd.push_back(*i);
  }
  return !(fwd == std::vector<int>{1, 2, 3, 4, 5} && bwd == std::vector<int>{5, 4, 3, 2, 1} && i == b);
}

int main() {
  fflush(stdout);
  pid_t pid = fork();
  if (pid == 0)
    _exit(scenario());
  int st = 0;
  waitpid(pid, &st, 0);
  if (WIFSIGNALED(st)) {
    printf("VIOLATED: backward traversal over a forward-only outer iterator died with signal %d (safe_decrement does not move the iterator)\n", WTERMSIG(st));
    return 1;
  }
  if (WEXITSTATUS(st) != 0) {
    printf("VIOLATED: backward traversal does not read 5 4 3 2 1\n");
    return 1;
  }
  printf("held: forward 1 2 3 4 5, backward 5 4 3 2 1\n");
  return 0;
}
