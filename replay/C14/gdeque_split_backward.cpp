// Native demonstration for C14 / galois::gdeque (finding F18): emplace in the
// middle of a FULL block splits the block; afterwards forward and backward
// traversal must agree with std::deque.  gdeque<int,2>: push_back 1 2 3;
// emplace(begin()+1, 9) -> 1 9 2 3 forwards, 3 2 9 1 backwards.
// The real header from the working tree is used.
// exit 1 = property violated, exit 0 = held.
#include "galois/Galois.h"
#include "galois/gdeque.h"
#include <cstdio>
#include <deque>
#include <vector>

int main() {
  galois::SharedMemSys G;
  galois::gdeque<int, 2> g;
  std::deque<int> r;
  for (int x : {1, 2, 3}) {
    g.push_back(x);
    r.push_back(x);
  }
  auto gi = g.begin();
  std::advance(gi, 1);
  g.emplace(gi, 9);
  r.insert(r.begin() + 1, 9);
  std::vector<int> fwd(g.begin(), g.end()), bwd, rf(r.begin(), r.end()), rb(r.rbegin(), r.rend());
  for (auto it = g.rbegin(); it != g.rend(); ++it)
    bwd.push_back(*it);
  int bad = 0;
  if (fwd != rf) {
    printf("VIOLATED: forward traversal differs from std::deque\n");
    bad = 1;
  }
  if (bwd != rb) {
    printf("VIOLATED: backward traversal reads");
    for (int x : bwd)
      printf(" %d", x);
    printf(", std::deque reads");
    for (int x : rb)
      printf(" %d", x);
    printf(" (the block created by the split is skipped)\n");
    bad = 1;
  }
  if (!bad)
    printf("held: 1 9 2 3 forwards, 3 2 9 1 backwards\n");
  return bad;
}
