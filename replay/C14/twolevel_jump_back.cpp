// Native demonstration for C14 / galois::TwoLevelIteratorA (finding F17): `it -= n`
// on a random-access two-level iterator over {{0,1,2},{},{3,4,5,6},{7}} must
// land on the element n positions earlier in the flattened sequence, i.e. agree
// with n single decrements.  The real header from the working tree is used.
// exit 1 = property violated, exit 0 = held.
#include "galois/TwoLevelIteratorA.h"
#include <cstdio>
#include <vector>

int main() {
  std::vector<std::vector<int>> d{{0, 1, 2}, {}, {3, 4, 5, 6}, {7}};
  auto p = galois::make_two_level_iterator<std::random_access_iterator_tag>(d.begin(), d.end());
  auto b = p.first, e = p.second;
  std::vector<int> flat;
  for (auto i = b; i != e; ++i)
    flat.push_back(*i);
  int bad = 0;
  for (int from = 0; from <= (int)flat.size(); ++from)
    for (int n = 0; n <= from; ++n) {
      auto it = b;
      for (int k = 0; k < from; ++k)
        ++it;
      it -= n;
      auto want = b;
      for (int k = 0; k < from - n; ++k)
        ++want;
      if (!(it == want)) {
        if (bad < 5)
          printf("VIOLATED: from position %d, `it -= %d` lands on %d, expected %d\n", from, n, (it == e ? -1 : *it), flat[from - n]);
        ++bad;
      }
    }
  for (int from = 0; from <= (int)flat.size(); ++from)
    for (int n = 0; from + n <= (int)flat.size(); ++n) {
      auto it = b;
      for (int k = 0; k < from; ++k)
        ++it;
      it += n;
      auto want = b;
      for (int k = 0; k < from + n; ++k)
        ++want;
      if (!(it == want)) {
        printf("VIOLATED: from position %d, `it += %d` is wrong\n", from, n);
        ++bad;
      }
    }
  if (!bad)
    printf("held: every `it -= n` / `it += n` agrees with n single steps\n");
  return bad ? 1 : 0;
}
