// Native replay: the REAL ConcurrentFixedSizeBag<T,CS>: push one element, pop
// it; the element's destructor must run exactly once, on the element.
#include "gv_replay.h"
#include "galois/FixedSizeRing.h"
static int live = 0, bad = 0;
struct Cnt {
  int magic;
  Cnt() : magic(0x1234) { ++live; }
  Cnt(const Cnt&) : magic(0x1234) { ++live; }
  ~Cnt() { if (magic != 0x1234) ++bad; else { magic = 0; --live; } }
};
int main() {
  {
    galois::ConcurrentFixedSizeBag<Cnt, CS> bag;
    Cnt c;
    bag.push_front(c);
    bool popped = bag.pop_front();
    printf("pushed 1, popped %d, live elements besides the local = %d, destructor on raw storage = %d\n", (int)popped, live - 1, bad);
    GV_CHECK(popped, "pop on a non-empty bag failed");
    GV_CHECK(live - 1 == 0, "the popped element was never destroyed");
    GV_CHECK(bad == 0, "a destructor ran on a slot that held no element");
  }
  return gv_bad;
}
