// Native demonstration for C11 / LC_CSR_Graph::findEdgeSortedByDst (finding F19):
// when every destination of N1's (sorted) edge range is smaller than N2 -- or the
// range is empty -- std::lower_bound returns edge_end(N1); for the last node with
// edges that is slot numEdges, which does not exist, and the function reads
// getEdgeDst() of it.  The real header from the working tree is used; the graph
// has 1024 edges so that the destination array (4-byte entries) ends exactly on a
// page boundary, and the page behind it (unused slack of the same large
// allocation) is made inaccessible for the duration of the call, so the
// out-of-bounds read faults instead of going unnoticed.
// exit 1 = property violated (read outside the array), exit 0 = held.
#include "galois/Galois.h"
#include "galois/graphs/LC_CSR_Graph.h"
#include <csignal>
#include <cstdio>
#include <cstdlib>
#include <sys/mman.h>
#include <unistd.h>

typedef galois::graphs::LC_CSR_Graph<void, void>::with_no_lockable<true>::type Base;
struct G : Base {
  const uint32_t* dstEndAddr() { return edgeDst.data() + numEdges; }
};
static const void* g_end;
static void onsegv(int, siginfo_t* si, void*) {
  char buf[200];
  int n = snprintf(buf, sizeof buf, "VIOLATED: findEdgeSortedByDst read address %p; the destination array ends at %p (slot numEdges)\n", si->si_addr, g_end);
  if (write(1, buf, n)) {}
  _exit(si->si_addr == g_end ? 1 : 3);
}

int main() {
  galois::SharedMemSys sys;
  const uint32_t N = 2;
  const uint64_t E = 1024;      // 1024 * sizeof(uint32_t) = one 4 KiB page
  G g;
  g.allocateFrom(N, E);
  g.constructNodes();
  for (uint64_t e = 0; e < E; ++e)
    g.constructEdge(e, 0);      // node 0: 1024 edges, all to node 0 (sorted by destination)
  g.fixEndEdge(0, E);
  g.fixEndEdge(1, E);           // node 1: no edges; edge_begin(1) == edge_end(1) == numEdges
  g_end = g.dstEndAddr();
  long pg = sysconf(_SC_PAGESIZE);
  if ((uintptr_t)g_end % pg != 0) {
    printf("setup: the destination array does not end on a page boundary; cannot demonstrate\n");
    return 2;
  }
  struct sigaction sa = {};
  sa.sa_sigaction = onsegv;
  sa.sa_flags     = SA_SIGINFO;
  sigaction(SIGSEGV, &sa, nullptr);
  sigaction(SIGBUS, &sa, nullptr);
  int mp = mprotect((void*)g_end, pg, PROT_NONE);
  // (if mprotect fails the page behind the array is not mapped at all: the read faults just the same)
  auto r0 = g.findEdgeSortedByDst(0, 1);      // all destinations (0) < 1: partition point == edge_end(0) == numEdges
  auto r1 = g.findEdgeSortedByDst(1, 0);      // empty range at the very end
  if (mp == 0)
    mprotect((void*)g_end, pg, PROT_READ | PROT_WRITE);
  if (r0 != g.edge_end(0) || r1 != g.edge_end(1)) {
    printf("VIOLATED: an absent edge was reported as found\n");
    return 1;
  }
  printf("held: absent edges answered edge_end without reading past the destination array\n");
  return 0;
}
