// Native replay for C11 / LC_CSR_CSC_Graph::constructIncomingEdges: builds the
// counterexample's out-graph with the real class from the working tree (edge
// data = position of the out-edge, so every out-edge is distinguishable),
// constructs the in-edges and compares them with the reversed out-edges.  The
// native run takes whatever iteration order galois::do_all happens to use.
// exit 1 = property violated, exit 0 = held.
#include "galois/Galois.h"
#include "galois/graphs/LC_CSR_CSC_Graph.h"
#include "gv_replay.h"
#include <algorithm>
#include <tuple>
#include <vector>

typedef galois::graphs::LC_CSR_CSC_Graph<void, uint64_t, false, true> Graph;

int main(int argc, char** argv) {
  GvArgs a(argc, argv);
  galois::SharedMemSys sys;
  galois::setActiveThreads(2);
  uint32_t nn = a.u("nn");
  uint64_t ne = a.u("ne");
  std::vector<uint64_t> idx(nn);
  std::vector<uint32_t> dst(ne);
  char k[40];
  for (uint32_t n = 0; n < nn; ++n) { snprintf(k, sizeof k, "OIDX[%ul]", n); idx[n] = a.u(k); }
  for (uint64_t e = 0; e < ne; ++e) { snprintf(k, sizeof k, "ODST[%lul]", (unsigned long)e); dst[e] = a.u(k); }
  Graph g;
  g.allocateFrom(nn, ne);
  g.constructNodes();
  typedef std::tuple<uint32_t, uint32_t, uint64_t> Edge;
  std::vector<Edge> want, got;
  for (uint32_t n = 0; n < nn; ++n) {
    for (uint64_t e = (n == 0 ? 0 : idx[n - 1]); e < idx[n]; ++e) {
      g.constructEdge(e, dst[e], e);
      want.emplace_back(dst[e], n, e);      // in-edge of dst[e] coming from n
    }
    g.fixEndEdge(n, idx[n]);
  }
  g.constructIncomingEdges();
  for (uint32_t n = 0; n < nn; ++n) {
    if (g.in_edge_end(n) < g.in_edge_begin(n) || *g.in_edge_end(n) > ne) {
      printf("VIOLATED: node %u has the in-edge range [%lu, %lu) (numEdges = %lu)\n", n, (unsigned long)*g.in_edge_begin(n), (unsigned long)*g.in_edge_end(n), (unsigned long)ne);
      return 1;
    }
    for (auto e = g.in_edge_begin(n); e != g.in_edge_end(n); ++e)
      got.emplace_back(n, g.getInEdgeDst(e), g.getInEdgeData(e));
  }
  std::sort(want.begin(), want.end());
  std::sort(got.begin(), got.end());
  if (want != got) {
    printf("VIOLATED: the in-edges of a graph with %u nodes / %lu edges are not the reversed out-edges\n", nn, (unsigned long)ne);
    for (auto& t : want) printf("  expected in-edge of %u from %u (out-edge %lu)\n", std::get<0>(t), std::get<1>(t), (unsigned long)std::get<2>(t));
    for (auto& t : got) printf("  got      in-edge of %u from %u (out-edge %lu)\n", std::get<0>(t), std::get<1>(t), (unsigned long)std::get<2>(t));
    return 1;
  }
  printf("held: the in-edges are exactly the reversed out-edges (%zu)\n", got.size());
  return 0;
}
