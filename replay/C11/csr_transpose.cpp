// Native replay for C11 / LC_CSR_Graph::transpose: builds the counterexample's
// graph (index array, destinations, edge data) with the real class from the
// working tree, transposes it in place and compares the presented edges with the
// reversed input multiset.  The native run takes whatever iteration order
// galois::do_all happens to use, so an order-dependent counterexample may not
// reproduce.  exit 1 = property violated, exit 0 = held.
#include "galois/Galois.h"
#include "galois/graphs/LC_CSR_Graph.h"
#include "gv_replay.h"
#include <algorithm>
#include <tuple>
#include <vector>

typedef galois::graphs::LC_CSR_Graph<void, uint64_t>::with_no_lockable<true>::type Graph;

int main(int argc, char** argv) {
  GvArgs a(argc, argv);
  galois::SharedMemSys sys;
  galois::setActiveThreads(2);
  uint32_t nn = a.u("nn");
  uint64_t ne = a.u("ne");
  std::vector<uint64_t> idx(nn);
  std::vector<uint32_t> dst(ne);
  std::vector<uint64_t> dat(ne);
  char k[40];
  for (uint32_t n = 0; n < nn; ++n) { snprintf(k, sizeof k, "OIDX[%ul]", n); idx[n] = a.u(k); }
  for (uint64_t e = 0; e < ne; ++e) {
    snprintf(k, sizeof k, "ODST[%lul]", (unsigned long)e); dst[e] = a.u(k);
    snprintf(k, sizeof k, "ODAT[%lul]", (unsigned long)e); dat[e] = a.u(k);
  }
  Graph g;
  g.allocateFrom(nn, ne);
  g.constructNodes();
  typedef std::tuple<uint32_t, uint32_t, uint64_t> Edge;
  std::vector<Edge> want, got;
  for (uint32_t n = 0; n < nn; ++n) {
    for (uint64_t e = (n == 0 ? 0 : idx[n - 1]); e < idx[n]; ++e) {
      g.constructEdge(e, dst[e], dat[e]);
      want.emplace_back(dst[e], n, dat[e]);      // reversed
    }
    g.fixEndEdge(n, idx[n]);
  }
  g.transpose();
  for (uint32_t n = 0; n < nn; ++n) {
    if (g.edge_end(n) < g.edge_begin(n) || *g.edge_end(n) > ne) {
      printf("VIOLATED: node %u has the edge range [%lu, %lu) after transpose (numEdges = %lu)\n", n, (unsigned long)*g.edge_begin(n), (unsigned long)*g.edge_end(n), (unsigned long)ne);
      return 1;
    }
    for (auto e = g.edge_begin(n); e != g.edge_end(n); ++e)
      got.emplace_back(n, g.getEdgeDst(e), g.getEdgeData(e));
  }
  std::sort(want.begin(), want.end());
  std::sort(got.begin(), got.end());
  if (want != got) {
    printf("VIOLATED: transpose() of a graph with %u nodes / %lu edges presents %zu edges that are not the reversed input edges\n", nn, (unsigned long)ne, got.size());
    for (auto& t : want) printf("  expected %u -> %u (data %lu)\n", std::get<0>(t), std::get<1>(t), (unsigned long)std::get<2>(t));
    for (auto& t : got) printf("  got      %u -> %u (data %lu)\n", std::get<0>(t), std::get<1>(t), (unsigned long)std::get<2>(t));
    return 1;
  }
  printf("held: transpose() presents exactly the reversed edges (%zu)\n", got.size());
  return 0;
}
