// Native demonstration for C05 / SimpleBarrier (finding F11): P threads run
// `iters` consecutive waits on galois::substrate::createSimpleBarrier(P) -- the
// real library code from the working tree.  A watchdog reports a hang (no
// progress for 3 s).  Before the fix two threads hang within the first phases
// (lost wake-up: thread 0 reset the one-way barrier's count before the notified
// threads had re-checked `count >= total`).
// exit 1 = property violated (hang or phase-separation failure), exit 0 = held.
#include "galois/Galois.h"
#include "galois/substrate/Barrier.h"
#include <atomic>
#include <chrono>
#include <cstdio>
#include <cstdlib>
#include <cstring>
#include <thread>
#include <unistd.h>

int main(int argc, char** argv) {
  unsigned P = 2;
  int iters  = 20000;
  for (int i = 1; i < argc; ++i) {
    if (!strncmp(argv[i], "P=", 2))
      P = atoi(argv[i] + 2);
    if (!strncmp(argv[i], "iters=", 6))
      iters = atoi(argv[i] + 6);
  }
  galois::SharedMemSys G;
  galois::setActiveThreads(P);
  auto b = galois::substrate::createSimpleBarrier(P);
  std::atomic<long> progress{0};
  std::atomic<bool> done{false};
  std::atomic<int> arrived[64];
  for (auto& a : arrived)
    a = 0;
  std::atomic<bool> early{false};
  std::thread watchdog([&] {
    long last = -1;
    while (!done) {
      std::this_thread::sleep_for(std::chrono::seconds(3));
      long p = progress.load();
      if (done)
        break;
      if (p == last) {
        printf("VIOLATED: SimpleBarrier hangs after %ld completed phases with %u threads (a thread waits forever)\n", p, P);
        fflush(stdout);
        _exit(1);
      }
      last = p;
    }
  });
  galois::on_each([&](unsigned tid, unsigned) {
    for (int k = 1; k <= iters; ++k) {
      arrived[tid] = k;
      b->wait();
      for (unsigned j = 0; j < P; ++j)
        if (arrived[j] < k)
          early = true;
      if (tid == 0)
        progress++;
    }
  });
  done = true;
  watchdog.join();
  if (early) {
    printf("VIOLATED: a thread left its k-th wait before all had entered theirs\n");
    return 1;
  }
  printf("held: %d phases, %u threads\n", iters, P);
  return 0;
}
