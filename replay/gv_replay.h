// Helpers for native replay programs: parse name=value arguments as written
// by CBMC traces (suffixes u/ul/l, booleans TRUE/FALSE, negative numbers).
#pragma once
#include <cstdint>
#include <cstdio>
#include <cstdlib>
#include <cstring>
#include <map>
#include <string>

struct GvArgs {
  std::map<std::string, std::string> m;
  GvArgs(int argc, char** argv) {
    for (int i = 1; i < argc; ++i) {
      const char* eq = strchr(argv[i], '=');
      if (!eq)
        continue;
      m[std::string(argv[i], eq - argv[i])] = std::string(eq + 1);
    }
  }
  bool has(const char* k) const { return m.count(k) != 0; }
  uint64_t u(const char* k) const {
    auto it = m.find(k);
    if (it == m.end()) {
      fprintf(stderr, "missing argument %s\n", k);
      exit(2);
    }
    const std::string& s = it->second;
    if (s == "TRUE" || s == "true")
      return 1;
    if (s == "FALSE" || s == "false")
      return 0;
    if (!s.empty() && s[0] == '-')
      return (uint64_t)strtoll(s.c_str(), nullptr, 0);
    return strtoull(s.c_str(), nullptr, 0);
  }
  int64_t i(const char* k) const { return (int64_t)u(k); }
};

#define GV_CHECK(cond, ...)                                                    \
  do {                                                                         \
    if (!(cond)) {                                                             \
      printf("REAL CODE VIOLATES: %s\n  ", #cond);                             \
      printf(__VA_ARGS__);                                                     \
      printf("\n");                                                            \
      gv_bad = 1;                                                              \
    }                                                                          \
  } while (0)
static int gv_bad = 0;
