// Native replay: the REAL BumpHeap (VariableSizeHeap = ThreadPrivateHeap<BumpHeap<SystemHeap>>).
#include "gv_replay.h"
#include "galois/Galois.h"
#include "galois/runtime/Mem.h"
int main(int argc, char** argv) {
  GvArgs a(argc, argv);
  galois::SharedMemSys G;
  size_t size = a.u("size");
  if (size == 0 || size > (1ull << 30)) size = 1;
  galois::runtime::VariableSizeHeap h;
#if WHICH == 2
  // fresh heap: the may-fail overload must still return memory
  size_t allocated = 0;
  char* p = (char*)h.allocate(size, allocated);
  printf("fresh heap: allocate(%zu, allocated) = %p, allocated = %zu\n", size, (void*)p, allocated);
  GV_CHECK(p != nullptr, "null block handed out");
  GV_CHECK(allocated >= 1 && allocated <= size, "allocated out of range");
  if (p) { p[0] = 1; p[allocated - 1] = 2; }
  // a second request close to the chunk size must stay inside its chunk
  size_t big = 2 * 1024 * 1024 - 8, got = 0;
  char* q = (char*)h.allocate(big, got);
  GV_CHECK(q != nullptr && got >= 1 && got <= big, "second block");
  uintptr_t off = (uintptr_t)q & (2 * 1024 * 1024 - 1);
  printf("allocate(%zu) -> chunk offset %zu, allocated %zu\n", big, (size_t)off, got);
  GV_CHECK(off + got <= 2 * 1024 * 1024, "block runs past the end of its 2 MB chunk");
#else
  if (size > 2 * 1024 * 1024 - 32) size = 64;
  char* p = (char*)h.allocate(size);
  char* q = (char*)h.allocate(size);
  GV_CHECK(p && q && ((uintptr_t)p % 8) == 0 && ((uintptr_t)q % 8) == 0, "null or misaligned");
  GV_CHECK(q >= p + size || p >= q + size, "blocks overlap");
#endif
  fflush(stdout);
  return gv_bad;
}
