/* BOUNDED stand-in support: the extracted wait() bodies run under CBMC's own
 * threads (__CPROVER_ASYNC_n), sequentially consistent interleavings, every
 * atomic operation one indivisible step.  Never counted as proof.
 *
 * Blocking (spin loops, condition-variable waits) is SC_AWAIT(pred): the
 * predicate is evaluated at an arbitrary point of the interleaving;
 *   true  -> the thread goes on (a real spinning thread would see it too);
 *   false -> the thread PARKS: it counts itself as finished, waits until every
 *            thread is finished or parked (the state is frozen then),
 *            re-evaluates its predicate and publishes the result.  Still false
 *            for every parked thread (paths where some parked predicate became
 *            true are discarded: that thread could have gone on) = a reachable
 *            state in which the thread waits forever = the "deadlock"
 *            assertion fails.
 */
#ifndef GV_SC_H
#define GV_SC_H
#include "gv_common.h"
#ifndef SC_P
#error "define SC_P (number of threads)"
#endif
unsigned sc_finished;
bool sc_parked[SC_P];           /* thread gave up waiting at some await */
unsigned char sc_still[SC_P];   /* published after the state is frozen: 1 = its predicate is still false, 2 = it became true */
static inline void sc_end(void) { __CPROVER_atomic_begin(); sc_finished++; __CPROVER_atomic_end(); }
/* All assumptions below are made by the thread that reports the deadlock itself (it reads what the other parked threads
   published), so the report does not depend on how CBMC combines assumptions of different threads. */
#define SC_AWAIT_DO(tid, pred, action)                                         \
  do {                                                                         \
    bool ok_;                                                                  \
    __CPROVER_atomic_begin();                                                  \
    ok_ = (pred);                                                              \
    if (ok_) { action; } else { sc_parked[tid] = 1; sc_finished++; }           \
    __CPROVER_atomic_end();                                                    \
    if (!ok_) {                                                                \
      __CPROVER_assume(sc_finished == SC_P);    /* everybody finished or parked: the state is frozen */ \
      __CPROVER_atomic_begin(); ok_ = (pred); sc_still[tid] = ok_ ? 2 : 1; __CPROVER_atomic_end(); \
      bool all_ = 1;                                                           \
      __CPROVER_atomic_begin();                                                \
      for (unsigned t_ = 0; t_ < SC_P; ++t_) if (sc_parked[t_] && sc_still[t_] != 1) all_ = 0; \
      __CPROVER_atomic_end();                                                  \
      __CPROVER_assume(all_);                   /* every parked thread has re-checked: still blocked */ \
      __CPROVER_assert(0, "deadlock: a thread waits forever (every other thread has finished or waits forever too)"); \
      __CPROVER_assume(0);                                                     \
    }                                                                          \
  } while (0)
#define SC_AWAIT(tid, pred) SC_AWAIT_DO(tid, pred, (void)0)

typedef struct { unsigned v; } sc_u;
typedef struct { int v; } sc_i;
typedef struct { bool v; } sc_b;
#define SC_OPS(T, S)                                                           \
  static inline T sc_load_##S(sc_##S* a) { __CPROVER_atomic_begin(); T r = a->v; __CPROVER_atomic_end(); return r; } \
  static inline void sc_store_##S(sc_##S* a, T x) { __CPROVER_atomic_begin(); a->v = x; __CPROVER_atomic_end(); }
SC_OPS(unsigned, u)
SC_OPS(int, i)
SC_OPS(bool, b)
static inline unsigned sc_dec_u(sc_u* a) { __CPROVER_atomic_begin(); unsigned r = --a->v; __CPROVER_atomic_end(); return r; }
static inline unsigned sc_inc_u(sc_u* a) { __CPROVER_atomic_begin(); unsigned r = ++a->v; __CPROVER_atomic_end(); return r; }
/* mutex: taking it blocks until it is free (blocking assume inside one indivisible step: schedules in which the thread
   tries while the mutex is held are equivalent to ones in which it tries later).  A thread blocked on a mutex forever is
   NOT reported: nothing here blocks while holding a mutex except through cond.wait, which releases it. */
typedef struct { bool locked; } sc_mutex;
static inline void sc_lock(sc_mutex* m) { __CPROVER_atomic_begin(); __CPROVER_assume(!m->locked); m->locked = 1; __CPROVER_atomic_end(); }
static inline void sc_unlock(sc_mutex* m) { __CPROVER_atomic_begin(); __CPROVER_assert(m->locked, "unlock of a held mutex"); m->locked = 0; __CPROVER_atomic_end(); }
/* condition_variable::wait(lock, pred): pred checked with the mutex held; if false the mutex is released and the thread
   blocks until pred holds AND the mutex is free, taking it at that moment (notifications are not modelled: a wake-up may be
   spurious, so every real execution is covered for safety; a notification that is never sent is NOT detected) */
#define sc_cond_wait(tid, m, pred) do { if (!(pred)) { sc_unlock(m); SC_AWAIT_DO(tid, !(m)->locked && (pred), (m)->locked = 1); } } while (0)
#endif
