/* Thread-modular interference stub for std::atomic<T> (trusted, DESIGN 4).
 *
 * Every atomic operation is:   environment step ; the operation, indivisibly ;
 * ghost update.  The environment step overwrites the shared word with an
 * arbitrary value allowed by the RELY of the protocol under verification:
 *
 *   GV_RELY_NONE      any value at any time (monotone cells, counters, bitset
 *                     words: atomicMin/Max/Add, DynamicBitSet)
 *   GV_RELY_EXPR(o,n) protocol-specific relation between the old and the new value,
 *                     stated (and justified) by the unit that defines it
 *   GV_RELY_LOCK      lock word, bit 0 = held: while the ghost says THIS thread
 *                     holds the lock nobody else clears bit 0 or changes the
 *                     other bits (only the holder unlocks / writes the payload);
 *                     while it does not hold it, anything may happen.
 *
 * Ghost state (single word under test per translation unit):
 *   linearisation: g_lin_count  number of writes this thread made to the word
 *                  g_lin_old / g_lin_new   value replaced / written by the last
 *                  g_last_read  last value this thread observed
 *   lock protocol: g_held  this thread holds bit 0;  g_acq_ok / g_rel_ok  the
 *                  step that took / released it asked for >= acquire / release;
 *                  g_bad_write  a write the protocol forbids (plain store by a
 *                  non-holder, clearing the bit without holding, changing
 *                  payload bits without holding)
 * Memory orders are recorded, never interpreted.  compare_exchange_weak may
 * fail spuriously.
 */
#ifndef GV_ATOMIC_H
#define GV_ATOMIC_H
#include "gv_common.h"

typedef enum {
  memory_order_relaxed, memory_order_consume, memory_order_acquire,
  memory_order_release, memory_order_acq_rel, memory_order_seq_cst
} memory_order;

static inline bool gv_is_acq(memory_order m) { return m == memory_order_acquire || m == memory_order_acq_rel || m == memory_order_seq_cst; }
static inline bool gv_is_rel(memory_order m) { return m == memory_order_release || m == memory_order_acq_rel || m == memory_order_seq_cst; }

bool nondet_bool(void);
uint64_t nondet_uint64_t(void);

/* all word types are carried in a 64-bit cell; T-typed accessors truncate */
typedef struct { uint64_t v; } gv_atomic;

unsigned g_lin_count;
uint64_t g_lin_old, g_lin_new, g_last_read;
bool g_held, g_acq_ok, g_rel_ok, g_bad_write;
memory_order g_last_load_order;
memory_order g_last_write_order;   /* order requested by the last write */

#ifndef GV_LOCKBIT
#define GV_LOCKBIT ((uint64_t)1)
#endif

static inline void gv_env(gv_atomic* a)
{
  uint64_t nv = nondet_uint64_t();
#if defined(GV_RELY_LOCK)
  if (g_held) { __CPROVER_assume(nv == a->v); }
#elif defined(GV_RELY_NONE)
#elif defined(GV_RELY_EXPR)
  /* protocol-specific rely, stated by the unit: GV_RELY_EXPR(old, new) */
  __CPROVER_assume(GV_RELY_EXPR(a->v, nv));
#else
#error "a unit using gv_atomic.h must define its rely: GV_RELY_NONE or GV_RELY_LOCK"
#endif
#ifdef GV_WIDTH_MASK
  nv &= GV_WIDTH_MASK;
#endif
  a->v = nv;
}

/* ghost bookkeeping for a write of `x` over current value a->v */
static inline void gv_note_write(gv_atomic* a, uint64_t x, memory_order mo, bool is_rmw)
{
  g_lin_count = g_lin_count + 1;
  g_lin_old = a->v;
  g_lin_new = x;
  g_last_write_order = mo;
#ifdef GV_RELY_LOCK
  bool was = (a->v & GV_LOCKBIT) != 0, now = (x & GV_LOCKBIT) != 0;
  if (!g_held) {
    if (!was && now && is_rmw) {
      /* took the lock by a read-modify-write that observed it free */
      g_held = 1;
      g_acq_ok = gv_is_acq(mo);
      if ((a->v & ~GV_LOCKBIT) != (x & ~GV_LOCKBIT)) g_bad_write = 1; /* payload changed while taking */
    } else if (was == now && (a->v & ~GV_LOCKBIT) == (x & ~GV_LOCKBIT)) {
      /* value-preserving RMW (e.g. fetch_or on an already locked word) */
      if (!is_rmw) g_bad_write = 1;
    } else if (!was && !now && is_rmw) {
      /* payload exchange on an UNLOCKED word by an RMW that observed it unlocked (PtrLock::CAS): allowed */
    } else {
      g_bad_write = 1;
    }
  } else {
    if (was && !now) { g_held = 0; g_rel_ok = gv_is_rel(mo); }
    /* holder may change the payload bits freely */
    else if (!was) g_bad_write = 1;
  }
#endif
  a->v = x;
}

static inline uint64_t gv_load(gv_atomic* a, memory_order mo)
{
  gv_env(a);
  g_last_read = a->v;
  g_last_load_order = mo;
  return a->v;
}
static inline void gv_store(gv_atomic* a, uint64_t x, memory_order mo)
{
  gv_env(a);
  gv_note_write(a, x, mo, 0);
}
static inline bool gv_cas(gv_atomic* a, uint64_t* expected, uint64_t desired, memory_order s, memory_order f, bool weak)
{
  gv_env(a);
  if (a->v == *expected && !(weak && nondet_bool())) {
    g_last_read = a->v;
    gv_note_write(a, desired, s, 1);
    return 1;
  }
  *expected = a->v;
  g_last_read = a->v;
  g_last_load_order = f;
  return 0;
}
static inline uint64_t gv_fetch_or(gv_atomic* a, uint64_t x, memory_order mo)
{
  gv_env(a);
  uint64_t old = a->v;
  g_last_read = old;
  gv_note_write(a, old | x, mo, 1);
  return old;
}
static inline uint64_t gv_fetch_and(gv_atomic* a, uint64_t x, memory_order mo)
{
  gv_env(a);
  uint64_t old = a->v;
  g_last_read = old;
  gv_note_write(a, old & x, mo, 1);
  return old;
}
static inline uint64_t gv_fetch_add(gv_atomic* a, uint64_t x, memory_order mo)
{
  gv_env(a);
  uint64_t old = a->v;
  g_last_read = old;
  gv_note_write(a, old + x, mo, 1);
  return old;
}
static inline uint64_t gv_exchange(gv_atomic* a, uint64_t x, memory_order mo)
{
  gv_env(a);
  uint64_t old = a->v;
  g_last_read = old;
  gv_note_write(a, x, mo, 1);
  return old;
}
/* typed views (the cell is 64 bits wide; 32-bit units define GV_WIDTH_MASK) */
#define GV_ATOMIC_TYPED(T, S)                                                  \
  static inline T gv_load_##S(gv_atomic* a, memory_order mo) { return (T)gv_load(a, mo); } \
  static inline void gv_store_##S(gv_atomic* a, T x, memory_order mo) { gv_store(a, (uint64_t)x, mo); } \
  static inline bool gv_cas_weak_##S(gv_atomic* a, T* e, T d, memory_order s) { \
    uint64_t ex = (uint64_t)*e; bool r = gv_cas(a, &ex, (uint64_t)d, s, s, 1); *e = (T)ex; return r; } \
  static inline bool gv_cas_strong_##S(gv_atomic* a, T* e, T d, memory_order s) { \
    uint64_t ex = (uint64_t)*e; bool r = gv_cas(a, &ex, (uint64_t)d, s, s, 0); *e = (T)ex; return r; }
GV_ATOMIC_TYPED(uint64_t, u64)
GV_ATOMIC_TYPED(int64_t, i64)
GV_ATOMIC_TYPED(uint32_t, u32)
GV_ATOMIC_TYPED(int, int)
#define GV_GHOST_RESET (g_lin_count == 0 && !g_bad_write)
#endif
