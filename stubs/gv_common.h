/* Common C prelude for every lowered translation unit (trusted, DESIGN 8).
 * Only typed helpers that stand for std:: templates; no Galois logic. */
#ifndef GV_COMMON_H
#define GV_COMMON_H
#include <stdint.h>
#include <stddef.h>
#include <stdbool.h>
#include <limits.h>
#include <float.h>

typedef unsigned __int128 gv_u128;

#define GV_MINMAX(T, S)                                                        \
  static inline T gv_min_##S(T a, T b) { return b < a ? b : a; }               \
  static inline T gv_max_##S(T a, T b) { return a < b ? b : a; }
GV_MINMAX(uint64_t, u64)
GV_MINMAX(uint32_t, u32)
GV_MINMAX(int64_t, i64)
GV_MINMAX(int32_t, i32)
GV_MINMAX(double, f64)
GV_MINMAX(float, f32)

struct pair_u64 { uint64_t first, second; };
struct pair_u32 { uint32_t first, second; };
struct pair_i64 { int64_t first, second; };
struct pair_i32 { int32_t first, second; };

/* the code's own assert()s are compiled out of the Release build the test
 * suite runs; here they become proof obligations (rule K-assert) */
#undef assert
#define assert(c) __CPROVER_assert((c), "code-assert: " #c)

/* vacuity guard (DESIGN 3.4): a second binary built with -DGV_REACH ends the
 * harness in an assertion that MUST FAIL (the end is reachable under the
 * requires clauses, loop invariants and replaced contracts); GV_WITNESS may
 * pin inputs to concrete values in that binary only, to keep the solver's
 * search for a model cheap. */
/* small-domain refuter: a third binary (-DGV_SMALLDOM) restricts the inputs
 * to a small domain so that the SAT back end finds counterexamples of
 * nonlinear contracts quickly; a counterexample under an extra assumption is
 * still a counterexample.  Never used to PROVE anything. */
#ifdef GV_SMALLDOM
#define GV_SMALL(c) __CPROVER_assume(c)
#else
#define GV_SMALL(c)
#endif
#ifdef GV_REACH
#define GV_WITNESS(c) __CPROVER_assume(c)
#define GV_REACH_END __CPROVER_assert(0, "gv-reach-end")
#else
#define GV_WITNESS(c)
#define GV_REACH_END
#endif

#endif
