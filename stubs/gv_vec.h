/* std::vector<T> / PODResizeableArray / LargeArray element access and size
 * semantics for lowered code (trusted stub, DESIGN 8).  A vector is a data
 * pointer with a size and a capacity; an index outside [0,size) is a failed
 * obligation; push_back appends (capacity is provided by the harness:
 * reallocation and iterator invalidation are not modelled). */
#ifndef GV_VEC_H
#define GV_VEC_H
#include "gv_common.h"

#define GV_VEC(T, S)                                                           \
  struct gv_vec_##S { T* data; size_t size; size_t cap; };                     \
  static inline T* gv_vec_##S##_ref(struct gv_vec_##S* v, size_t i) {          \
    __CPROVER_assert(i < v->size, "vector index in range");                    \
    return &v->data[i];                                                        \
  }                                                                            \
  static inline bool gv_vec_##S##_empty(const struct gv_vec_##S* v) { return v->size == 0; } \
  static inline size_t gv_vec_##S##_size(const struct gv_vec_##S* v) { return v->size; }     \
  static inline void gv_vec_##S##_push_back(struct gv_vec_##S* v, T x) {       \
    __CPROVER_assert(v->size < v->cap, "harness provides capacity");           \
    v->data[v->size] = x;                                                      \
    v->size = v->size + 1;                                                     \
  }
GV_VEC(uint32_t, u32)
GV_VEC(uint64_t, u64)

#define GV_AT_U32(v, i) (*gv_vec_u32_ref(&(v), (i)))
#define GV_AT_U64(v, i) (*gv_vec_u64_ref(&(v), (i)))
#define GV_AT_U32P(v, i) (*gv_vec_u32_ref((v), (i)))
#define GV_VEC_VALID(v, maxcap) (__CPROVER_is_fresh(v, sizeof(*(v))) && (v)->cap <= (maxcap) && (v)->size <= (v)->cap && __CPROVER_is_fresh((v)->data, (v)->cap * sizeof(*((v)->data))))
#endif
