/* Thread-modular cells for code that works on SEVERAL shared words (barriers).
 * Same operation names as gv_sc.h, so one lowering serves both modes:
 *   gv_sc.h     the bounded run under CBMC threads
 *   gv_cells.h  the per-call (deductive) step contract: before every atomic
 *               operation the environment may overwrite the cell with any value
 *               (rely: none); every cell carries its own ghost record:
 *     nw     writes by this thread        lastw / wseq  value / time of the last one
 *     lastr  last value this thread read  rseq          time of that read (0 = never)
 * g_seq is this thread's logical clock (one tick per atomic operation), so contracts
 * can state the ORDER of the thread's own shared accesses.  The clock is a ghost and
 * mathematically unbounded: gv_tick() assumes the 32-bit counter does not wrap.
 */
#ifndef GV_CELLS_H
#define GV_CELLS_H
#include "gv_common.h"
#ifdef GV_CELLS_PLAIN
/* quiescent code (re-initialisation between parallel regions): the cells are plain words */
typedef struct { unsigned v; } sc_u; typedef struct { int v; } sc_i; typedef struct { bool v; } sc_b;
#else
unsigned g_seq;
bool nondet_bool(void); unsigned nondet_unsigned(void); int nondet_int(void);
static inline void gv_tick(void) { __CPROVER_assume(g_seq < 0xffffffffu); g_seq++; }
#define GV_CELL(T, S, ND)                                                      \
  typedef struct { T v; unsigned nw; T lastw; unsigned wseq; T lastr; unsigned rseq; } sc_##S; \
  static inline T sc_load_##S(sc_##S* a) { a->v = ND(); gv_tick(); a->lastr = a->v; a->rseq = g_seq; return a->v; } \
  static inline void sc_store_##S(sc_##S* a, T x) { a->v = ND(); gv_tick(); a->nw++; a->lastw = x; a->wseq = g_seq; a->v = x; } \
  static inline T sc_rmw_##S(sc_##S* a, T d) { a->v = ND(); gv_tick(); a->lastr = a->v; a->rseq = g_seq; a->nw++; a->lastw = (T)(a->v + d); a->wseq = g_seq; a->v = (T)(a->v + d); return a->v; }
GV_CELL(unsigned, u, nondet_unsigned)
GV_CELL(int, i, nondet_int)
GV_CELL(bool, b, nondet_bool)
static inline unsigned sc_dec_u(sc_u* a) { return sc_rmw_u(a, (unsigned)-1); }
static inline unsigned sc_inc_u(sc_u* a) { return sc_rmw_u(a, 1u); }
#define GV_CELL_CLEAN(c) ((c).nw == 0 && (c).rseq == 0 && (c).wseq == 0)
#endif
#endif
