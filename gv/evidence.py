"""evidence/<Cxx>.json writer (DESIGN 3.8) -- everything in it is measured by
this run."""
import json
import os
import re

from . import run as R
from .main import repo_state


def scan_trusted(results, mod):
    tb = set(getattr(mod, 'TRUSTED', []))
    tb.add('cbmc/goto-cc/goto-instrument 6.11.0 (DFCC contract instrumentation, symex, SAT back end)')
    tb.add('extractor + lowering rules of gv/lower.py (token-level C++->C; rules fired are listed per function)')
    tb.add('stubs/gv_common.h (typed min/max, pair structs, assert -> __CPROVER_assert)')
    for r in results:
        u = r.unit
        if u.backend == 'ib':
            tb.add('cvc5 1.0 with --solve-bv-as-int=sum (int-blasting of bit-vector arithmetic; wrap-around encoded exactly)')
        for t in u.trusted:
            tb.add(t)
        tu = os.path.join(r.outdir, 'tu.c')
        if os.path.exists(tu):
            txt = open(tu).read()
            for m in re.finditer(r'#include "(gv_\w+\.h)"', txt):
                if m.group(1) != 'gv_common.h':
                    tb.add('stubs/%s' % m.group(1))
    return sorted(tb)


def scan_assumes(results):
    """__CPROVER_assume in lowered function bodies is forbidden; in preludes /
    stubs it is listed."""
    found = []
    for r in results:
        tu = os.path.join(r.outdir, 'tu.c')
        if os.path.exists(tu):
            for i, line in enumerate(open(tu), 1):
                if '__CPROVER_assume' in line:
                    found.append('%s: tu.c:%d: %s' % (r.unit.name, i, line.strip()[:160]))
    return found


def write(prop, mod, tier, seed, results, violations, known_hits, undecided, wall, diff):
    head, dirty = repo_state()
    proved = [r for r in results if r.unit.kind in ('contract', 'lemma')]
    bounded = [r for r in results if r.unit.kind == 'bounded']
    n_obl = sum(r.counts()[0] for r in proved)
    n_ok = sum(r.counts()[1] for r in proved)
    fns = []
    for r in results:
        u = r.unit
        n, ok = r.counts()
        by_cls = {}
        for o in r.obligations:
            by_cls[o['cls']] = by_cls.get(o['cls'], 0) + 1
        fns.append(dict(
            unit=u.name, kind=u.kind, function=u.fn, file=r.info.get('file'),
            lines=[r.info.get('line'), r.info.get('end_line')], body_sha256=r.info.get('sha256'),
            instantiation=u.inst, encodes=u.says, backend={'ib': 'cvc5-intblast (+ SAT refuter)', 'smt': 'cvc5 bit-vectors+arrays', 'sat': 'cbmc-sat'}[u.backend], decided_by=r.info.get('decided_by'),
            obligations=n, discharged=ok, by_class=by_cls, status=r.status, reason=r.reason,
            solver_s=round(r.solver_s, 2), wall_s=round(r.wall, 2),
            callees_replaced_by_contract=list(u.uses), callees_inlined=list(u.inline),
            lowering_rules_fired=r.info.get('rules', []),
            loops_closed_by_contract=len(u.loops) if u.kind != 'bounded' else 0,
            vacuity_guard_end_reachable=r.reach_ok,
            bound=(u.bound_desc or ('unwind %s' % u.unwind)) if u.kind == 'bounded' else None,
            native_replay=bool(u.replay),
        ))
    samples = []
    for r in proved[:40]:
        for o in r.obligations:
            if o['cls'] in ('postcondition', 'loop-invariant-step', 'assertion', 'callee-precondition') and len(samples) < 12:
                samples.append('%s:%s [%s] %s -> %s' % (r.unit.name, o['id'], o['cls'], o['desc'][:100], o['status']))
                break
    assumptions = list(getattr(mod, 'ASSUMPTIONS', []))
    assumptions += ['assume in TU (stub/prelude): ' + a for a in scan_assumes(results)]
    cov = dict(
        obligations=n_obl, discharged=n_ok,
        checker_cmd='per unit: goto-cc --function gv_h tu.c; goto-instrument --dfcc gv_h --enforce-contract <f> [--replace-call-with-contract <g>]* --apply-loop-contracts; cbmc ' + ' '.join(R.DEFAULT_CHECKS) + ' [--cvc5 --external-smt2-solver stubs/cvc5-intblast] --json-ui   (driver: ./check %s --tier %s)' % (prop, tier),
        trusted_base=scan_trusted(results, mod),
        functions_under_contract=[f for f in fns if f['kind'] == 'contract'],
        lemmas_over_contracts=[f for f in fns if f['kind'] == 'lemma'],
        bounded_checks=[f for f in fns if f['kind'] == 'bounded'],
        bounded_note='bounded_checks are labelled bounded, are NOT included in obligations/discharged and are never counted as proved',
        units=len(results), units_ok=sum(1 for r in results if r.status == 'ok'),
        solver_seconds_total=round(sum(r.solver_s for r in results), 1),
        samples=samples,
        repo_head=head, repo_dirty=dirty,
        undecided=[dict(unit=r.unit.name, reason=r.reason[:400]) for r in undecided],
        violations=[dict(unit=r.unit.name, obligations=[o['id'] for o in fs]) for r, fs in violations],
        known_findings_hit=[k['text'] for _, _, k in known_hits],
        not_decided=getattr(mod, 'NOT_DECIDED', ''),
        explanation=getattr(mod, 'EXPLANATION', ''),
        exhaustive=False,
    )
    if diff is not None:
        cov['differential_replay'] = {k: v for k, v in diff.items() if k != 'violations'}
    doc = dict(property_id=prop, tier=tier, seed=seed, level='proof', coverage=cov,
               assumptions=assumptions, wall_s=round(wall, 2),
               violations=len(violations) + (len(diff.get('violations', [])) if diff else 0))
    os.makedirs(os.path.join(R.VERIF, 'evidence'), exist_ok=True)
    with open(os.path.join(R.VERIF, 'evidence', '%s.json' % prop), 'w') as f:
        json.dump(doc, f, indent=1)
