"""Regenerates /verif/MANIFEST.json from the tables below (python3 -m gv.manifest)."""
import json
import os

VERIF = os.path.dirname(os.path.dirname(os.path.abspath(__file__)))

TECH = 'contract-based deductive verification: CBMC 6.11 code contracts (goto-instrument --dfcc, loop contracts) on functions mechanically extracted from /repo and lowered to C; cvc5 int-blasting / SAT portfolio'

CLAIMS = {
    'C12': dict(
        text=('Proof, per function: rawBlockSize, FileGraph::fromMem, the section windows of FileGraph::partFromFile, FileGraphWriter::phase1, OfflineGraph::outIndexs/outEdges/edgeData file positions, OfflineGraphWriter::offsetOfDst/offsetOfData '
              'and the Endian.h helpers are extracted from the working tree, lowered to C and verified to compute the section offsets of one spec of the documented binary .gr layout '
              '(header, out index at 32, destinations at 32+8n, edge data at align8(32+8n+w*m)) for both versions, odd and even edge counts, every edge-data width: writer offsets equal reader offsets.'),
        note=('Layout arithmetic only: text parsers, graph-convert transformations, real I/O, fromArrays/toFile write loops, OCFileGraph, BufferedGraph and LC_CSR readGraphFromGRFile are NOT decided. '
              'Trusted: little-endian host, mmap stub, body slicing for the stream-based offline reader, sizes <= 2^40.')),
    'C13': dict(
        text=('Proof, per function and for all inputs within stated size bounds (sizes <= 2^40..2^62, weights <= 2^20, units <= 2^16): block_range '
              '(integral uint64/uint32 and iterator overload), Standard/Local/SpecificRange::block_pair, findIndexPrefixSum, determine_block_division, '
              'divideNodesBinarySearch (uint64/uint32), unitRangeCornerCaseHandle, determineUnitRanges{LoopPrefixSum,LoopGraph,FromPrefixSum x2,FromGraph x2}, '
              'FileGraph::findIndex/divideByEdge are extracted from the working tree on every run, lowered to C and verified against contracts with every loop closed by an invariant '
              '(unbounded). "Ordered, disjoint, exact cover" is proved as lemmas over those contracts (first piece starts at the beginning, last ends at the end, consecutive pieces share their boundary).'),
        note=('Trusted: extractor + lowering rules, CBMC/cvc5, stubs; the prefix sum is an abstract monotone lookup (assumed contract); determineUnitRanges* use the cut view of '
              'divideNodesBinarySearch, an assumed contract that is the consequence of the proved adjacency/ends lemmas (one hand-made step); template code for the listed instantiations only; '
              'signed block_range and the node pieces of divideByEdge are not claimed.')),
    'C06': dict(
        text=('Proof, per operation, thread-modular (an environment step may rewrite the lock word before every atomic operation, except while this thread holds the lock): SimpleLock '
              'lock/slow_lock/try_lock/unlock/is_locked, PtrLock lock/try_lock/unlock/unlock_and_clear/unlock_and_set/getValue/setValue/CAS/is_locked, PaddedLock<true>, ThreadRWlock '
              'read/write lock/unlock and the fast-mode fork signal per_signal::wakeup/wait are extracted from the working tree and verified: the lock bit is taken only by an RMW that observed '
              'it clear and asked for >= acquire, released only by the holder with >= release, pointer bits preserved, failed attempts write nothing; the writer takes all per-thread locks in '
              'ascending order; the worker observes the master\'s release flag with >= acquire.  Weakening any memory_order (invisible on x86) fails a named postcondition.'),
        note=('ptr_slow_lock is a BOUNDED stand-in (<= 3 spins; goto-instrument does not attach its loop contract). Not decided: fairness, full C++-model executions, mutex/condvar paths, '
              'barrier and worklist edges. Trusted: interference stub and its rely, the one-word mutual-exclusion argument, C++ release/acquire rule.')),
    'C09': dict(
        text=('Proof, per function: BumpHeap::refill/allocate/allocate(size,allocated&), BumpWithMallocHeap::refill/allocate (the per-iteration heap), BlockHeap<1|8|24|40>::refill/allocate '
              '(struct layout and "how many fit" enum extracted from the class), FreeListHeap::allocate/deallocate, Pow_2_BlockHeap::pow2/nextLog2/allocateBlock/deallocateBlock, '
              'PerBackend::nextLog2/allocOffset are extracted from the working tree, lowered to C and verified against contracts: the returned block is non-null, inside its chunk/page, '
              '8-byte (cache-line for per-thread storage) aligned relative to the chunk, at least as large as requested, and disjoint from an arbitrary ghost live block; '
              'blocks are reused only via the free list; size classes are the same on free as on allocate; loops closed by invariants.'),
        note=('Trusted: source heap/malloc return fresh objects (assumed contracts), alignment relative to the chunk start, PerBackend rely on nextLoc (<= 511 threads) and free-list stub invariant, heap-table stub. '
              'Not decided: concurrent use of shared heaps, NUMA large arrays, mmap page pool, clear() list walks, deallocOffset, SizedHeapFactory.')),
    'C14': dict(
        text=('Proof, per function: TwoLevelIteratorA::safe_decrement (bidirectional and forward-only dispatch), seek_forward/increment, seek_backward/decrement (successor / predecessor in the flattened sequence), jump_backward (BOUNDED: exhaustive over a small model); optional<T> (all constructors, assign, get, destroy: value semantics and construct/destroy exactly once); flat_map range constructors/resort/emplace/find (typestate: sorted and one entry per key); MinHeap range constructor/push/pop/top/remove (typestate of the wrapped heap: always a heap for revCmp, std algorithms called with the matching comparator), ThreadSafeMinHeap/ThreadSafeOrderedSet operations (lock discipline); gslist<T,4> (non-concurrent) emplace_front/pop_front/front/empty on the head block and its successor; gdeque<T,4> end operations (push/emplace/pop at both ends, front, back, size, empty, extend_first/last, shrink) as local contracts on the end block, its neighbour and first/last/num; '
              'PODResizeableArray<uint8_t|uint64_t> -- constructors, move, destructor, reserve/resize/clear, element access, iterators, push_back (also of an own element), '
              'insert at end, assign, swap -- against the abstract sequence data_[0..size_) (same results as std::vector, every other element kept, block of exactly capacity_ elements, blocks freed once). '
              'And, for ChunkSize in {1,3,4,64}: every non-range operation of FixedSizeRing and its iterator, of FixedSizeBag, and push/pop of ConcurrentFixedSizeBag used from one thread '
              'is extracted from the working tree, lowered to C and verified against an abstract sequence view: results, contents and order are those of the standard container, nothing else changes, '
              'each element is constructed and destroyed exactly once (ghost live bit per slot), ++/-- are mutually inverse and begin()+size() == end() (lemmas over the contracts).'),
        note=('Only the FixedSizeRing.h containers, PODResizeableArray and the end operations of gdeque are claimed: gdeque clear/middle insertion/iterators, concurrent gslist and gslist clear/iterators, MinHeap::find, remove on an empty heap, gslist, FlatMap, LazyArray/optional, priority queues, InsertBag, two-level iterators, LargeArray and '
              'ring emplace(pos) in the middle are NOT decided. Trusted: std:: algorithm stubs carrying the standard\'s contracts (heap algorithms, sort/unique/lower_bound), realloc/copy_n stubs (probe element), LazyArray slot model, opaque element type, interference stub for the atomic counter, constant-bound quantifier expansion.')),
    'C15': dict(
        text=('Proof, per function: every shipped reducer functor and identity functor (int32/uint32/int64/uint64/float/double) satisfies merge(x,id)=x=merge(id,x) for all (finite) x; '
              'Reducible::merge/update/reduce/reset (reduce = left fold of the per-thread slots, slots re-armed; thread count <= 16 as a configuration bound), GAccumulator +=/-=, '
              'atomicMax/Min/Add/Subtract linearise under arbitrary interference (thread-modular contract with an environment step before every atomic operation), plain max/min, '
              'DynamicBitSet test/set/reset(i) and range reset for every alignment over all 2^64 positions.'),
        note=('Trusted: interference stub (atomic steps indivisible, memory orders recorded not interpreted), PerThreadStorage as an array of <= 16 slots, typed std:: helpers, CBMC float model. '
              'Not decided: concurrent bags / per-thread containers, union-find, bulk bitset ops, float sums beyond the proved fold order, -infinity inputs.')),
}

CLAIMS['C16'] = dict(
    text=('Proof, per function: partial_sum\'s block size, per-block passes, exclusive scan and block partition lemma; and of the partition skeleton: partition_helper_state constructor/takeLow/takeHigh/update (critical sections: lock invariant kept, the block handed out and the remaining '
          'middle partition the old middle, leftover span well formed) and the sequential tail of partition() (with the parallel phase replaced by the assumed contract its step contracts justify): '
          'the returned iterator is a valid partition point for an arbitrary element, in the no-leftover case and with leftovers on either or both sides; std::partition always gets a valid range.'),
    note=('Only partition and the arithmetic of partial_sum are claimed. sort, count_if, find_if, accumulate, map_reduce, destroy, the composition of partial_sum\'s passes, dual_partition, permutation preservation and the std:: algorithms are NOT decided. '
          'Trusted: assumed contract for the parallel phase, std::partition stub, random-access iterators as indices.'))

CLAIMS['C03'] = dict(
    text=('Proof, per function: DoAllStealingExec::ThreadContext hasWorkWeak/hasWork/getWork/steal_from_beg/stealWork/assignWork/doWork and transferWork (every critical section keeps the lock '
          'invariant 0 <= m_size == shared_end - shared_beg and conserves the range over the WHOLE range: piece handed out + piece left = old range; doWork executes each element of each obtained chunk '
          'exactly once; the stolen piece reaches the thief unchanged), and ThreadPool::cascade/decascade (the wake tree covers every id of a range exactly once with strictly shorter child ranges; '
          'the join waits for exactly the woken children before publishing done with >= release).'),
    note=('Exactly-once for the whole loop is the composition of these per-call facts (hand-made): an index leaves a shared range only inside a piece handed to exactly one thread. Not decided: victim '
          'selection, non-random-access iterators, termination, mutex/condvar semantics, the induction over the wake tree, runInternal. Trusted: mutual exclusion of work_mutex (C06), integer iterators.'))

CLAIMS['C02'] = dict(
    text=('Proof, per function, against the PtrLock contracts of C06: LockManagerBase::getOwner/tryAcquire, SimpleRuntimeContext::addToNhood/acquire/release and shouldLock: NEW_OWNER iff this call took the '
          'owner bit by an acquire RMW on a word it observed free (then the word carries this context); ALREADY_OWNER only for a word carrying this context (re-acquisition is a no-op); FAIL/conflict '
          'leaves word and list unchanged; a lockable enters the neighbourhood list exactly when newly owned; release publishes an unowned word with >= release; READ/WRITE lock, UNPROTECTED/PREVIOUS do not. '
          'commitIteration (= cancelIteration) is a BOUNDED check: lists of length <= 4, every lockable released exactly once, list emptied.'),
    note=('Step-level isolation only: the abort path of the executor (longjmp unwinding, push-buffer and per-iteration allocator reset) and serial equivalence are NOT decided. '
          'Trusted: PtrLock contracts and the interference stub (C06), signalConflict does not return.'))

CLAIMS['C04'] = dict(
    text=('Proof, per function, of the ring (Dijkstra-style) detector LocalTerminationDetection as STEP contracts over the whole detector state (thread count <= 16): initializeThread re-arms a holder '
          'whatever its previous state (reuse, other thread counts); propToken hands the token with the given colour to exactly the successor; localTermination: without the token only the caller\'s '
          'process colour darkens; with it the taint (black token, black process, work reported) is passed on to exactly the successor and the caller\'s colours are cleared, the master restarts a white '
          'token and records whether the round was white; termination is announced ONLY by the master, only with a white incoming token, white process, no work reported AND a white previous round; '
          'no other holder is written.'),
    note=('Safety at step level only: the global invariant over histories (announced => no thread holds work) under the executors\' use, liveness, and the tree detector are NOT decided. '
          'Trusted: a call is one step on the caller\'s own holder (nobody else writes it while it holds the token); seq_cst atomic fields lowered to plain fields.'))

CLAIMS['C11'] = dict(
    text=('Proof for the CSR layout only: LC_CSR_Graph::raw_begin/raw_end/getDegree (per-node edge ranges from consecutive index entries; ordered, adjacent, 0..numEdges: lemma over the contracts) and the '
          'callback constructor with all four loops closed by invariants: the index array is the prefix sum of the callback\'s edge counts and slot idx[p-1]+e holds exactly edgeDst(p,e)/edgeData(p,e) for an '
          'arbitrary probe node p and edge e -- the graph presents the callback\'s out-edges in callback order, each written once. A BOUNDED sibling (all graphs with <= 3 nodes, degree <= 3, loops unwound, '
          'tolerant lowering) judges the same constructor when its loop structure has been changed and the invariants no longer fit.  '
          'Construction from a file: FileGraph::edge_begin/edge_end/getEdgeDst (v1/v2)/getEdgeData against the file sections, and LC_CSR_Graph::constructFrom(FileGraph&, tid, total) with both loops closed by invariants: '
          'index entries, destinations and data of exactly the thread\'s nodes are the file\'s, in file order; nothing else is written.  '
          'Edge lookup: findEdge / findEdgeSortedByDst (std::find_if / std::lower_bound as the standard\'s contract): the answer is a slot of N1\'s range with destination N2, or edge_end(N1) exactly when no slot has it, and every '
          'destination read lies inside the destination array.  Edge sorting: the proxy moves std::sort makes (EdgeSortReference operator= x2, operator*, swap) each move the (destination, data) pair of one slot as a unit and change no other slot.  BOUNDED stand-ins (all graphs with <= 3 nodes and <= 3/4/5 edges, every galois::do_all executed in every order of its iterations, loops unwound completely): '
          'in-place transpose presents exactly the reversed edge multiset with edge data; LC_CSR_CSC_Graph::constructIncomingEdges and its helpers build in-edges that are a bijection onto the out-edges with matching end points.'),
    note=('Narrow claim: every other layout, the readGraph driver and the composition over threads, non-void v2 constructFrom, transpose and in-edges beyond the stated bounds (and interleavings inside one iteration of their scatter loops), std::sort over the proxies, NUMA options and local ranges are NOT decided. '
          'Trusted: callbacks are deterministic functions; allocation dropped (arrays supplied); size bounds.'))

CLAIMS['C05'] = dict(
    text=('Proof, per function, for five of the six barriers: the re-initialisation tables (_reinit of the counting, MCS, dissemination and topology-aware barriers; OneWayBarrier::reinit) are proved for every '
          'participant count within the configuration bound and any previous state, for an arbitrary node/round/socket (tree shape, partner (s+2^r) mod P, ceil(log2 P) rounds, arrival counts = child sockets + '
          'non-leader threads for ANY thread-to-socket table); every wait() is proved as a thread-modular STEP contract with per-word ghost records and a logical clock: arrival published before the release '
          'is awaited, release observed before the wake-up writes, phase state (counter / child slots / sense / parity) re-armed for the next phase before anybody can be released, flags of the other parity untouched; '
          'OneWayBarrier::wait as a monitor step (count re-armed only by the last thread to leave, under the mutex). '
          'Phase separation, absence of a thread that waits forever, and reuse are then checked by BOUNDED runs (never counted as proof) of the same extracted wait()/_reinit bodies under CBMC threads: '
          '2 threads x 3 phases and 3 threads x 2 phases per barrier (thorough: 3x3, 4x2, more socket topologies).'),
    note=('The global statement (all participant counts, all phases, all interleavings) is NOT proved: the step contracts are per call and the runs are bounded and sequentially consistent. '
          'The pthread barrier is a call to pthread_barrier_wait (external, trusted). Not decided: weak-memory executions, condition-variable notification semantics (spurious wake-ups allowed, lost '
          'notifications not modelled), reinit while threads are inside, Substrate.cpp barrier selection. Trusted: interference stubs gv_cells.h / gv_sc.h, spin loop = blocking wait in the bounded runs, '
          'flag array capacity 4 instead of 32 in the dissemination runs.'))

CLAIMS['C17'] = dict(
    text=('Proof, per function, of the FIRST HALF of the property for memory-copyable data only: SerializeBuffer insert/insertAt/encomber/push, DeSerializeBuffer extract/pop/r_size/r_linearData/atAlignment/getOffset/setOffset '
          'and its constructor from a SerializeBuffer, gSerializeObj/gDeserializeObj for uint64/uint32/uint8/double, gSerializeLinearSeq/gDeserializeLinearSeq for PODResizeableArray<uint64_t> (aligned and unaligned branch; thorough tier) '
          'are extracted from Serialize.h and verified on top of the real, inlined PODResizeableArray bodies: exactly the bytes of the value (count, then elements) are appended / consumed in order at any buffer offset and alignment, '
          'the offset advances by exactly the bytes produced, earlier bytes are kept.  The uint64 round trip through the whole real call chain is a lemma unit whose only loop (capacity doubling) is unwound completely.'),
    note=('The second half of C17 (network: exactly-once, ordered, intact delivery; host barriers) is NOT decided, nor is serialisation of non-memory-copyable types (strings, tuples, pairs, deques, std::vector, bitsets, Galois containers '
          'other than PODResizeableArray, nested buffers).  libdist is not built in this configuration: the header is verified as text.  Trusted: hand-chosen overloads, realloc/copy stubs, CBMC\'s address model for atAlignment, buffers <= 2^30 bytes.'))

NA = {
    'C01': 'schedule/worklist-policy property of deeply templated executors (histories of several threads); outside CBMC\'s C++ reach and not a per-call contract',
    'C07': 'relation between different executions (determinism across schedules/thread counts) of a ~1000-line template executor; no single-call contract expresses it',
    'C08': 'cross-thread ordering of events (level r+1 never before level r) in template worklists; not a per-call contract',
    'C10': 'serialisability of concurrent graph mutation: schedule property over boost/gstl-heavy templates outside the lowering subset',
    'C17': 'variadic-template serialisation over libstdc++ containers and MPI networking; CBMC cannot load libstdc++, MPI layer not built',
    'C18': 'distributed multi-host (MPI) property; libgluon not built in this configuration; multi-process history, not a per-call contract',
    'C19': 'distributed partitioner (libcusp, MPI) not built; the work-division helpers it calls are covered by C13',
    'C20': 'whole-application functional correctness of parallel graph algorithms for every input is far outside per-function contracts on this tool chain',
}
NOT_BUILT = 'designed in DESIGN.md but not built to a sound state in the time available'


def main():
    props = [json.loads(l) for l in open(os.path.join(VERIF, 'properties.jsonl'))]
    m = {
        "version": 1,
        "setup_cmd": "python3 -m gv.setup",
        "hooks": {"guard": "GALOIS_VERIF",
                  "enable": "no source hooks: contracts live in /verif and are attached to the functions when they are extracted from /repo's working tree on every run",
                  "baseline_off_cmd": "ctest --test-dir /repo/_build -j8 --timeout 900",
                  "source_commits": [], "add_only": True},
        "engines": [{"name": "gv", "path": "gv/", "serves_properties": sorted(CLAIMS),
                     "kind_free_text": "extract functions from /repo, lower C++ to C by must-fire token rules, attach CBMC code contracts kept in contracts/*.py, goto-instrument --dfcc per function, cbmc (cvc5 int-blasting / SAT / cvc5-BV), classify obligations, native replay of counterexamples against the real code"}],
        "checks": [], "not_applicable": [],
        "notes": "see DESIGN.md; genuine defects found and repaired are listed in known_findings.txt (fixed: lines)"}
    for p in props:
        pid = p['id']
        if pid in CLAIMS:
            c = CLAIMS[pid]
            m['checks'].append({
                "property_id": pid,
                "quick_cmd": "./check %s --tier quick" % pid,
                "thorough_cmd": "./check %s --tier thorough" % pid,
                "evidence_file": "evidence/%s.json" % pid,
                "replay_cmd_template": "./check %s --replay {path}" % pid,
                "engine": "gv",
                "level_claimed": {"category": "proof", "text": c['text'], "design_ref": "DESIGN.md 6 (%s)" % pid},
                "level_note": c['note'],
                "technique": TECH})
        else:
            m['not_applicable'].append({"property_id": pid, "reason": NA.get(pid, NOT_BUILT)})
    with open(os.path.join(VERIF, 'MANIFEST.json'), 'w') as f:
        json.dump(m, f, indent=1)
    print('MANIFEST.json: %d checks, %d not applicable' % (len(m['checks']), len(m['not_applicable'])))


if __name__ == '__main__':
    main()
