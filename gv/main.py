"""./check <Cxx> [--tier quick|thorough] [--replay file] [--unit name] [-v]

exit 0  every obligation of every unit discharged on /repo's working tree
exit 1  some obligation FAILED (solver model)  -> VIOLATION line
exit 2  undecided / machinery broke (timeout, extraction, lowering) -- never
        reported as a violation
"""
import argparse
import concurrent.futures as cf
import importlib
import json
import os
import re
import subprocess
import sys
import time

from . import run as R
from . import replay as RP

VERIF = R.VERIF


def load_units(prop):
    mod = importlib.import_module('contracts.%s' % prop)
    units = mod.UNITS
    reg = {}
    for u in units:
        if u.name in reg:
            raise SystemExit('duplicate unit %s' % u.name)
        reg[u.name] = u
    # units imported from other properties for `uses`
    for u in getattr(mod, 'IMPORTED', []):
        reg.setdefault(u.name, u)
    return mod, units, reg


def load_known():
    path = os.path.join(VERIF, 'known_findings.txt')
    out = []
    if os.path.exists(path):
        for line in open(path):
            line = line.strip()
            if line.startswith('finding:'):
                d = dict(re.findall(r'(\w+)=(\S+)', line))
                d['text'] = line[len('finding:'):].strip()
                out.append(d)
    return out


def repo_state():
    root = R.extract.repo_root()
    try:
        head = subprocess.run(['git', '-C', root, 'rev-parse', 'HEAD'], capture_output=True, text=True).stdout.strip()
        dirty = bool(subprocess.run(['git', '-C', root, 'status', '--porcelain', '--untracked-files=no'],
                                    capture_output=True, text=True).stdout.strip())
    except Exception:
        head, dirty = '?', True
    return head, dirty


def main(argv=None):
    ap = argparse.ArgumentParser()
    ap.add_argument('prop')
    ap.add_argument('--tier', default=os.environ.get('VERIF_TIER', 'quick'))
    ap.add_argument('--replay')
    ap.add_argument('--unit', action='append')
    ap.add_argument('-v', action='store_true')
    ap.add_argument('-j', type=int, default=int(os.environ.get('GV_JOBS', '12')))
    ap.add_argument('--no-evidence', action='store_true')
    a = ap.parse_args(argv)
    prop = a.prop
    sys.path.insert(0, VERIF)
    if a.replay:
        return RP.replay_file(a.replay)
    seed = int(os.environ.get('VERIF_SEED', '0') or 0)
    t0 = time.time()
    mod, units, reg = load_units(prop)
    sel = [u for u in units if (a.tier == 'thorough' or u.tier == 'quick') and u.kind != 'assumed']
    if a.unit:
        sel = [u for u in sel if u.name in a.unit]
    outroot = os.path.join(os.environ.get('GV_OUT', os.path.join(VERIF, 'out')), prop)
    os.makedirs(outroot, exist_ok=True)
    results = []
    with cf.ThreadPoolExecutor(max_workers=a.j) as ex:
        futs = {ex.submit(R.run_unit, u, reg, outroot): u for u in sel}
        for f in cf.as_completed(futs):
            r = f.result()
            results.append(r)
            if a.v:
                n, ok = r.counts()
                print('  [%s] %-40s %-10s %3d/%3d  %.1fs %s' % (prop, r.unit.name, r.status, ok, n, r.wall, r.reason[:200]), flush=True)
    order = {u.name: i for i, u in enumerate(sel)}
    results.sort(key=lambda r: order[r.unit.name])
    known = [k for k in load_known() if k.get('property') == prop]
    violations, undecided, known_hits = [], [], []
    for r in results:
        if r.status == 'violation':
            newf = []
            for o in r.failed:
                hit = None
                for k in known:
                    if k.get('unit') == r.unit.name and re.fullmatch(k.get('obligation', ''), o['id']):
                        hit = k
                if hit:
                    known_hits.append((r, o, hit))
                else:
                    newf.append(o)
            if newf:
                violations.append((r, newf))
        elif r.status != 'ok':
            undecided.append(r)
    # native differential / replay-program sanity in thorough tier
    diff = None
    if a.tier == 'thorough' and hasattr(mod, 'thorough_extra'):
        diff = mod.thorough_extra(seed, outroot)
        if diff.get('violations'):
            for v in diff['violations']:
                print('VIOLATION property=%s replay=%s' % (prop, v))
    exit_code = 0
    for r, o, k in known_hits:
        print('KNOWN-FINDING: property=%s %s' % (prop, k['text']))
    for r, fails in violations:
        o = fails[0]
        path = RP.write_replay(prop, r, o, outroot)
        reproduced = RP.try_native(prop, r, path)
        tail = '' if reproduced else ' no-failing-input-found'
        print('VIOLATION property=%s replay=%s%s' % (prop, path, tail))
        print('  failed obligation: %s:%s [%s] %s (at %s; source %s:%s)' % (
            r.unit.name, o['id'], o['cls'], o['desc'], o['loc'], r.info.get('file'), r.info.get('line')))
        for o2 in fails[1:6]:
            print('  also failed: %s:%s [%s] %s' % (r.unit.name, o2['id'], o2['cls'], o2['desc']))
        exit_code = 1
    if diff and diff.get('violations'):
        exit_code = 1
    for r in undecided:
        print('UNDECIDED property=%s unit=%s: %s' % (prop, r.unit.name, r.reason[:600]))
        if exit_code == 0:
            exit_code = 2
    wall = time.time() - t0
    if not a.no_evidence and not a.unit:
        from . import evidence
        evidence.write(prop, mod, a.tier, seed, results, violations, known_hits, undecided, wall, diff)
    n_obl = sum(r.counts()[0] for r in results)
    n_ok = sum(r.counts()[1] for r in results)
    print('%s: %d units, %d/%d obligations discharged, %d violations, %d undecided, %.1fs' % (
        prop, len(results), n_ok, n_obl, len(violations), len(undecided), wall))
    return exit_code


if __name__ == '__main__':
    sys.exit(main())
