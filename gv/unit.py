"""Unit = one function of /repo under contract (or one lemma over contracts,
or one bounded stand-in).  Units are declared in contracts/<Cxx>.py."""
import re
from dataclasses import dataclass, field
from typing import Optional

from . import extract, lower


@dataclass
class Unit:
    name: str
    proto: str = ''                 # C prototype, no trailing ';'
    contract: str = ''              # __CPROVER_requires/ensures/assigns clauses
    src: Optional[str] = None       # repo-relative path; None => lemma/harness-only
    anchor: Optional[str] = None
    occurrence: Optional[int] = None
    of: Optional[int] = None
    within: Optional[str] = None
    lower: list = field(default_factory=list)
    loops: dict = field(default_factory=dict)
    prelude: str = ''
    uses: list = field(default_factory=list)      # units replaced by contract
    inline: list = field(default_factory=list)    # units included with body, no contract
    harness: Optional[str] = None   # C statements for the harness body
    backend: str = 'sat'            # 'sat' | 'ib' (cvc5 int-blasting)
    timeout: int = 180
    kind: str = 'contract'          # 'contract' | 'lemma' | 'bounded'
    unwind: Optional[int] = None    # bounded only
    bound_desc: str = ''            # bounded only: the stated bound
    partial: bool = False           # bounded only: cut paths after `unwind` iterations instead of asserting the bound (spin loops)
    dfcc: bool = True
    reach: bool = True              # vacuity guard: end of harness must be reachable
    reach_timeout: int = 120
    reach_unwind: int = 0            # >0: vacuity guard on the binary WITHOUT loop contracts, loops unwound this far under the witness (for units whose
                                     # contract-mode witness search times out; sound because base+step of every invariant are proved, so the real exit state satisfies it)
    reach_backend: str = ''         # '' = same family as backend; 'sat' | 'smt'
    harness_pre: str = ''            # ghost assignments before the call in the generated harness (e.g. g_N = numNodes;)
    small: str = ''                 # small-domain restriction for the extra SAT refuter (never used to prove)
    witness: str = ''               # optional concrete inputs for the vacuity guard run
    flags: list = field(default_factory=list)      # extra cbmc flags
    no_flags: list = field(default_factory=list)   # default cbmc flags to drop
    defines: list = field(default_factory=list)
    replay: Optional[dict] = None   # dict(prog=..., args=[harness var names])
    inst: str = ''                  # instantiation proved (template bindings)
    says: str = ''                  # which words of the property this encodes
    tier: str = 'quick'             # 'quick' | 'thorough'
    trusted: list = field(default_factory=list)   # extra trusted-base notes
    ghost_prefix: str = ''           # ghost declarations put at the start of the extracted body (entry values, spec terms)
    ctor_inits: Optional[list] = None  # constructor: the member-initialiser list of the head is turned into `self->m = e;` for the listed members (rule C-ctor)
    post_pre: str = ''               # C text placed after the pre_extract declarations (types that need them)
    pre_extract: list = field(default_factory=list)  # [dict(src=, anchor=, lower=[rules])]: declarations (enum/struct text) extracted verbatim from /repo and put before the function
    fallback_unwind: Optional[int] = None  # if the code's loop structure no longer matches the loop contracts: complete unwinding bound (configuration-bounded loops only)
    body_override: Optional[str] = None  # spec-level lemma functions only (no repo code): proof body, usually ''

    @property
    def fn(self):
        m = re.search(r'(\w+)\s*\(', self.proto)
        return m.group(1) if m else None

    def decl(self):
        return '%s\n%s;\n' % (self.proto, self.contract.strip())


def parse_params(proto):
    m = re.search(r'\w+\s*\((.*)\)\s*$', proto, re.S)
    inner = m.group(1).strip()
    if inner in ('', 'void'):
        return []
    out = []
    for p in lower._split_args(inner):
        pm = re.match(r'(.*?)(\w+)\s*(\[\s*\])?$', p.strip(), re.S)
        ty, nm = pm.group(1).strip(), pm.group(2)
        if pm.group(3):
            ty += '*'
        out.append((ty, nm))
    return out


def lowered_body(u, loops=True, tolerant=False):
    """extract + lower + loop contracts.  Returns (c_body, info).
    tolerant: the source no longer has the shape the unit was written for
    (a must-fire rule did not fire / the loops changed): apply whatever rules
    still match and, if the loop structure differs, leave the loops without
    contracts (the caller then unwinds them, if the unit allows)."""
    ex = extract.extract_body(u.src, u.anchor, u.occurrence, u.of, u.within)
    if u.ctor_inits is not None:
        # member-initialiser list  `: a(x), b(y) {`  ->  self->a = x; self->b = y;
        head = extract.blank_comments_and_strings(ex['head'])
        k = head.rfind(')', 0, head.find(':', head.find(')')) + 1) if ':' in head else -1
        inits = head[head.index(':', head.index(')')) + 1:] if ':' in head else ''
        stmts = []
        for m in re.finditer(r'(\w+)\(([^()]*)\)', inits):
            if m.group(1) in u.ctor_inits:
                stmts.append('self->%s = %s;' % (m.group(1), m.group(2)))
        if len(stmts) != len(u.ctor_inits):
            raise lower.LoweringError('%s: constructor initialiser list has %d of the %d listed members' % (u.name, len(stmts), len(u.ctor_inits)))
        ex['body'] = '\n'.join(stmts) + '\n' + ex['body']
    body, fired = lower.apply_rules(ex['body'], u.lower, tolerant)
    if u.ghost_prefix:
        body = '/* ghost */ ' + u.ghost_prefix.strip() + '\n' + body
    nloops = len(lower.find_loops(body))
    unwound = False
    if loops and u.kind != 'bounded':
        if tolerant and nloops != len(u.loops):
            unwound = True
        else:
            body, nloops = lower.insert_loop_contracts(body, u.loops)
            if nloops != len(u.loops):
                raise lower.LoweringError(
                    '%s: body has %d loops but %d loop contracts' % (u.name, nloops, len(u.loops)))
    info = dict(tolerant=tolerant, loops_unwound=unwound, file=ex['file'], line=ex['line'], end_line=ex['end_line'],
                sha256=ex['sha256'], rules=fired, loops=nloops,
                cxx_body=ex['body'])
    return body, info


def build_tu(u, registry, tolerant=False):
    """Return (tu_text, info)."""
    parts = ['#include "gv_common.h"\n']
    seen = set()

    def add_prelude(x):
        for chunk in ([x.prelude] if isinstance(x.prelude, str) else x.prelude):
            if chunk and chunk not in seen:
                seen.add(chunk)
                parts.append(chunk + '\n')
    # callee ghost declarations / spec functions first (their contracts need
    # them), each chunk once
    for nm in list(u.uses) + list(u.inline):
        add_prelude(registry[nm])
    add_prelude(u)
    info = dict(unit=u.name, kind=u.kind, uses=list(u.uses), inline=list(u.inline))
    pre = []
    for pe in u.pre_extract:
        ex = extract.extract_text(pe['src'], pe['anchor'])
        txt, fired = lower.apply_rules(extract.blank_comments_and_strings(ex['body'], keep_strings=True), pe.get('lower', []), tolerant)
        parts.append('/* extracted from %s:%d */\n%s\n' % (pe['src'], ex['line'], txt))
        pre.append(dict(file=pe['src'], line=ex['line'], sha256=ex['sha256'], rules=fired))
    info['pre_extracted'] = pre
    if u.post_pre:
        parts.append(u.post_pre + '\n')
    for nm in u.uses:
        parts.append(registry[nm].decl())
    for nm in u.inline:
        iu = registry[nm]
        b, _ = lowered_body(iu, loops=(u.kind != 'bounded'))
        parts.append('%s\n{\n%s\n}\n' % (iu.proto, b))
    if u.src is None and u.body_override is not None:
        # spec-level lemma function: proof text lives in /verif (usually empty)
        parts.append('%s\n%s\n{\n%s\n}\n' % (u.proto, u.contract.strip(), u.body_override))
    if u.src is not None:
        body, binfo = lowered_body(u, tolerant=tolerant)
        info.update(binfo)
        parts.append('%s\n%s\n{\n%s\n}\n' % (u.proto, u.contract.strip() if u.kind != 'bounded' or u.contract else '', body))
    hname = 'gv_h'
    if u.harness is not None:
        h = u.harness
    else:
        ps = parse_params(u.proto)
        decls = ''.join('  %s %s;\n' % (t, n) for t, n in ps)
        h = decls
        if u.harness_pre:
            h += '  ' + u.harness_pre.strip() + '\n'
        if u.witness:
            h += '  GV_WITNESS(%s);\n' % u.witness
        if u.small:
            h += '  GV_SMALL(%s);\n' % u.small
        h += '  %s(%s);\n' % (u.fn, ', '.join(n for _, n in ps))
    if u.reach:
        h += '  GV_REACH_END;\n'
    parts.append('void %s(void)\n{\n%s}\n' % (hname, h))
    return ''.join(parts), info
