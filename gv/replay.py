"""Counterexample -> replay file -> native run against the REAL code (3.6)."""
import json
import os
import subprocess

from . import run as R
from .extract import repo_root


def _brief_trace(trace, limit=400):
    out = []
    for st in trace:
        t = st.get('stepType')
        loc = st.get('sourceLocation', {})
        if t == 'assignment' and not st.get('hidden'):
            v = st.get('value', {})
            out.append('%s:%s  %s = %s' % (loc.get('function', ''), loc.get('line', ''),
                                          st.get('lhs'), v.get('data', v.get('name'))))
        elif t == 'failure':
            out.append('FAILURE %s: %s' % (st.get('property'), st.get('reason')))
    return out[-limit:]


def write_replay(prop, r, o, outroot):
    u = r.unit
    path = os.path.join(outroot, 'replay-%s.json' % u.name)
    inputs = R.trace_inputs(o.get('trace', []))
    doc = dict(
        property=prop, unit=u.name, function=u.fn,
        source=dict(file=r.info.get('file'), line=r.info.get('line'), sha256=r.info.get('sha256')),
        failed_obligation=dict(id=o['id'], cls=o['cls'], description=o['desc'], at=o['loc']),
        other_failed=[x['id'] for x in r.failed if x is not o],
        inputs=inputs,
        native_replay=u.replay,
        pipeline=r.cmds,
        lowered_tu=os.path.join(r.outdir, 'tu.c'),
        verifier_trace=_brief_trace(o.get('trace', [])),
        how_to_replay='cd /verif && ./check %s --replay %s' % (prop, path),
    )
    with open(path, 'w') as f:
        json.dump(doc, f, indent=1)
    return path


def build_native(prop, spec, outdir):
    root = repo_root()
    src = os.path.join(R.VERIF, 'replay', prop, spec['prog'] + '.cpp')
    exe = os.path.join(outdir, 'replay-' + spec['prog'])
    pre_inc = []
    # hooked headers: a copy of a REAL header from the working tree with one
    # call redirected (exact text, must occur once) so that the replay can
    # drive e.g. a thread schedule; everything else in the header is unchanged
    for rel, old, new in spec.get('hook_headers', []):
        text = open(os.path.join(root, rel)).read()
        if text.count(old) != 1:
            return None, 'hook_headers: %r occurs %d times in %s' % (old, text.count(old), rel)
        incroot = os.path.join(outdir, 'hooked-inc')
        dst = os.path.join(incroot, rel.split('include/', 1)[1])
        os.makedirs(os.path.dirname(dst), exist_ok=True)
        with open(dst, 'w') as f:
            f.write(text.replace(old, new))
        pre_inc = ['-I' + incroot]
    cmd = ['g++', '-std=c++17', '-O1', '-g', '-DGALOIS_VERIF_REPLAY'] + pre_inc + [
           '-I' + os.path.join(root, 'libgalois/include'),
           '-I' + os.path.join(root, '_build/libgalois/include'),
           '-I' + os.path.join(root, 'libsupport/include'),
           '-I' + os.path.join(root, '_build/libsupport/include'),
           '-I' + os.path.join(R.VERIF, 'replay'),
           # generated headers (config.h) -- same for every working tree
           '-I/repo/_build/libgalois/include', '-I/repo/_build/libsupport/include',
           src] + [os.path.join(root, s) for s in spec.get('sources', [])] + \
          list(spec.get('cxxflags', [])) + ['-o', exe]
    if spec.get('lib'):
        # the prebuilt archives are only used for code the replay does not
        # compile from the working tree itself (spec['sources'])
        cmd += ['/repo/_build/libgalois/libgalois_shmem.a', '/repo/_build/libsupport/libgalois_support.a']
    cmd += ['-lpthread', '-lnuma'] if spec.get('lib') else ['-lpthread']
    p = subprocess.run(cmd, capture_output=True, text=True, timeout=600)
    if p.returncode != 0:
        return None, p.stderr[-2000:]
    return exe, ''


def run_native(exe, spec, inputs, timeout=60):
    args = []
    for name in spec.get('args', []):
        if name not in inputs:
            return None, 'trace does not determine %s' % name
        args.append('%s=%s' % (name, inputs[name]))
    try:
        p = subprocess.run([exe] + args, capture_output=True, text=True, timeout=timeout)
    except subprocess.TimeoutExpired:
        return None, 'native replay timed out'
    return p.returncode, (p.stdout + p.stderr)[-3000:]


def try_native(prop, r, path):
    """True iff the real code, run natively on the counterexample's inputs,
    violates the same postcondition."""
    u = r.unit
    with open(path) as f:
        doc = json.load(f)
    res = dict(attempted=False)
    ok = False
    if u.replay:
        res['attempted'] = True
        exe, err = build_native(prop, u.replay, r.outdir)
        if exe is None:
            res['build_error'] = err
        else:
            rc, out = run_native(exe, u.replay, doc['inputs'])
            res['exit'] = rc
            res['output'] = out
            ok = (rc == 1)
    res['reproduced_on_real_code'] = ok
    doc['native_result'] = res
    with open(path, 'w') as f:
        json.dump(doc, f, indent=1)
    return ok


def replay_file(path):
    with open(path) as f:
        doc = json.load(f)
    print('property %s unit %s obligation %s' % (doc['property'], doc['unit'], doc['failed_obligation']['id']))
    print('  %s' % doc['failed_obligation']['description'])
    print('  inputs: %s' % json.dumps(doc['inputs']))
    spec = doc.get('native_replay')
    if not spec:
        print('no native replay program for this unit; verifier trace:')
        print('\n'.join(doc['verifier_trace'][-60:]))
        return 1
    outdir = os.path.dirname(path)
    exe, err = build_native(doc['property'], spec, outdir)
    if exe is None:
        print('native build failed:\n' + err)
        return 2
    rc, out = run_native(exe, spec, doc['inputs'])
    print(out)
    print('native exit code %s (1 = real code violates the postcondition on these inputs)' % rc)
    return 1 if rc == 1 else 0
