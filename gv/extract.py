"""Locate and cut function text out of /repo's working tree (DESIGN.md 3.1).

Nothing here knows about any particular function: a unit names a file and a
signature anchor (regular expression); the anchor must match exactly once (or
the unit says which of n occurrences) in a shadow copy of the file in which
comments and string/char literals are blanked.  The brace-balanced body that
follows the anchor is returned verbatim from the ORIGINAL text (comments are
then removed by the same blanking so that lowering rules never fire inside a
comment).
"""
import hashlib
import os
import re


class ExtractionError(Exception):
    pass


def repo_root():
    return os.environ.get("GV_REPO", "/repo")


def blank_comments_and_strings(text, keep_strings=False):
    """Return text of identical length with comments (and, unless
    keep_strings, string/char literals) replaced by spaces; newlines kept."""
    out = list(text)
    i, n = 0, len(text)
    while i < n:
        c = text[i]
        if c == '/' and i + 1 < n and text[i + 1] == '/':
            j = text.find('\n', i)
            if j < 0:
                j = n
            for k in range(i, j):
                out[k] = ' '
            i = j
        elif c == '/' and i + 1 < n and text[i + 1] == '*':
            j = text.find('*/', i + 2)
            j = n if j < 0 else j + 2
            for k in range(i, j):
                if out[k] != '\n':
                    out[k] = ' '
            i = j
        elif c == '"' or c == "'":
            q = c
            j = i + 1
            while j < n and text[j] != q:
                if text[j] == '\\':
                    j += 1
                j += 1
            j = min(j + 1, n)
            if not keep_strings:
                for k in range(i + 1, j - 1):
                    if out[k] != '\n':
                        out[k] = ' '
            i = j
        else:
            i += 1
    return ''.join(out)


def match_brace(shadow, open_pos, open_ch='{', close_ch='}'):
    assert shadow[open_pos] == open_ch
    depth = 0
    for k in range(open_pos, len(shadow)):
        ch = shadow[k]
        if ch == open_ch:
            depth += 1
        elif ch == close_ch:
            depth -= 1
            if depth == 0:
                return k
    raise ExtractionError("unbalanced %s at offset %d" % (open_ch, open_pos))


_cache = {}


def blank_if0(text):
    """`#if 0 ... [#else ...] #endif`: the dead branch and the directive lines
    are blanked (same length), so that brace matching sees the code the
    compiler sees.  Only the literal `#if 0` is handled."""
    out = list(text)

    def blank(a, b):
        for k in range(a, b):
            if out[k] != '\n':
                out[k] = ' '
    for m in re.finditer(r'^[ \t]*#if 0[ \t]*\n', text, re.M):
        depth, pos, else_at = 1, m.end(), None
        for d in re.finditer(r'^[ \t]*#(if|ifdef|ifndef|else|endif)\b[^\n]*\n?', text[m.end():], re.M):
            kw = d.group(1)
            if kw in ('if', 'ifdef', 'ifndef'):
                depth += 1
            elif kw == 'else' and depth == 1:
                else_at = (m.end() + d.start(), m.end() + d.end())
            elif kw == 'endif':
                depth -= 1
                if depth == 0:
                    end = (m.end() + d.start(), m.end() + d.end())
                    blank(m.start(), (else_at[1] if else_at else end[1]))
                    blank(end[0], end[1])
                    break
    return ''.join(out)


def load(relpath):
    path = os.path.join(repo_root(), relpath)
    key = (path, os.path.getmtime(path))
    if key not in _cache:
        with open(path, encoding='utf-8', errors='replace') as f:
            text = blank_if0(f.read())
        _cache[key] = (text, blank_comments_and_strings(text))
    return _cache[key]


def extract_body(relpath, anchor, occurrence=None, of=None, within=None):
    """Return dict(body=<text between the braces, comments blanked>,
    line=<1-based line of anchor>, sha256=...).

    anchor: regex matched against the comment-blanked file.
    occurrence/of: if the anchor legitimately matches `of` times (overloads
    that differ only in template header), take the `occurrence`-th (0-based);
    the number of matches must still equal `of`.
    within: optional regex of an enclosing scope (e.g. r'class BumpHeap\b');
    the anchor is then searched only inside that scope's braces.
    """
    text, shadow = load(relpath)
    lo, hi = 0, len(shadow)
    if within is not None:
        ws = list(re.finditer(within, shadow))
        # keep only those followed by a '{' before a ';' (definitions)
        defs = []
        for m in ws:
            k = m.end()
            while k < len(shadow) and shadow[k] not in '{;':
                k += 1
            if k < len(shadow) and shadow[k] == '{':
                defs.append(k)
        if len(defs) != 1:
            raise ExtractionError("%s: scope /%s/ defined %d times (need 1)" %
                                  (relpath, within, len(defs)))
        lo = defs[0]
        hi = match_brace(shadow, lo)
    ms = [m for m in re.finditer(anchor, shadow[lo:hi])]
    want = 1 if of is None else of
    if len(ms) != want:
        raise ExtractionError("%s: anchor /%s/ matched %d times (need %d)" %
                              (relpath, anchor, len(ms), want))
    m = ms[0 if occurrence is None else occurrence]
    pos = lo + m.start()
    # find the opening brace of the body: first '{' at paren depth 0; a ';'
    # first means this was a declaration, not a definition.
    depth = 0
    k = pos
    while k < hi:
        ch = shadow[k]
        if ch == '(':
            depth += 1
        elif ch == ')':
            depth -= 1
        elif ch == ';' and depth == 0:
            raise ExtractionError("%s: anchor /%s/ is a declaration" %
                                  (relpath, anchor))
        elif ch == '{' and depth == 0:
            # constructor initialiser lists use name{...}: skip brace groups
            # that directly follow an identifier and are followed by ',' or
            # another '{'
            end = match_brace(shadow, k)
            nxt = end + 1
            while nxt < hi and shadow[nxt].isspace():
                nxt += 1
            prev = k - 1
            while prev >= 0 and shadow[prev].isspace():
                prev -= 1
            if (shadow[prev].isalnum() or shadow[prev] == '_') and \
                    nxt < hi and shadow[nxt] in ',{' and \
                    ':' in shadow[pos:k]:
                k = end + 1
                continue
            break
        k += 1
    else:
        raise ExtractionError("%s: no body after anchor /%s/" %
                              (relpath, anchor))
    end = match_brace(shadow, k)
    body = blank_comments_and_strings(text[k + 1:end], keep_strings=True)
    head = text[lo + m.start():k]
    line = text.count('\n', 0, lo + m.start()) + 1
    return dict(body=body, head=head, line=line, end_line=text.count('\n', 0, end) + 1,
                sha256=hashlib.sha256(text[lo + m.start():end + 1].encode()).hexdigest(),
                file=relpath)


def extract_text(relpath, anchor, group=0):
    """Single regex capture from the comment-blanked file; must match once."""
    text, shadow = load(relpath)
    ms = list(re.finditer(anchor, shadow, re.S))
    if len(ms) != 1:
        raise ExtractionError("%s: text anchor /%s/ matched %d times" %
                              (relpath, anchor, len(ms)))
    m = ms[0]
    return dict(body=text[m.start(group):m.end(group)],
                line=text.count('\n', 0, m.start()) + 1,
                end_line=text.count('\n', 0, m.end()) + 1,
                sha256=hashlib.sha256(m.group(group).encode()).hexdigest(),
                file=relpath, head='')
