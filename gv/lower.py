"""C++ -> C lowering by token-level rewrite rules (DESIGN.md 3.2).

A rule is a small object with a name, a description of what it rewrites (and
therefore what is lost) and an apply(text) -> (text, count).  Rules never see
comments (extract.py blanks them).  Every rule is must-fire: a unit lists each
rule with the minimum number of firings it expects (default 1); if a rule
fires fewer times the run aborts with exit 2 ("lowering broke"), because then
the source no longer has the shape the unit was written for.

No rule rewrites arithmetic operators, comparison operators, conditions,
constants or control flow: those reach CBMC exactly as written in /repo.
What the rules do rewrite, and hence what the verified text abstracts from:

  bind      template parameter / typedef name  -> concrete C type name
  ren       qualified C++ name                 -> C identifier (namespace drop,
            callee naming: which C function stands for a C++ callee)
  members   bare member name                   -> self->member
  refs      reference parameter/local x        -> (*x)
  call      obj.method(args) / obj->method(args) -> cfn(&obj, args)   (stub or
            contract-carrying C function named by the unit)
  index     obj[expr]                          -> fn(obj, expr)
  stdfn     std::min( / std::max( / ...        -> typed C helper
  mkpair    std::make_pair(a,b) | T(a,b)       -> (struct S){a, b}
  casts     static_cast<T>(e) etc, nullptr     -> C casts, 0
  drop      exact statement text               -> removed (logging only)
  rx        unit-specific regular expression   -> replacement (logged in full
            in the evidence file; used for declarations such as `auto x =`)
  par       galois::do_all / on_each lambda    -> sequential for loop
"""
import re

from .extract import match_brace


class LoweringError(Exception):
    pass


class Rule:
    def __init__(self, kind, desc, fn, minimum=1, maximum=None):
        self.kind = kind
        self.desc = desc
        self.fn = fn
        self.minimum = minimum
        self.maximum = maximum

    def apply(self, text, tolerant=False):
        new, n = self.fn(text)
        if tolerant:
            return new, n
        if n < self.minimum:
            raise LoweringError("rule %s [%s] fired %d times, needs >= %d" %
                                (self.kind, self.desc, n, self.minimum))
        if self.maximum is not None and n > self.maximum:
            raise LoweringError("rule %s [%s] fired %d times, allows <= %d" %
                                (self.kind, self.desc, n, self.maximum))
        return new, n


def _word(name):
    # name may be qualified (a::b); \b at both ends where the end is a word char
    pre = r'(?<![\w])' if re.match(r'\w', name) else ''
    post = r'(?![\w])' if re.search(r'\w$', name) else ''
    return pre + re.escape(name) + post


def bind(name, ctype, minimum=1):
    rx = re.compile(_word(name))
    return Rule('bind', '%s -> %s' % (name, ctype),
                lambda t: rx.subn(ctype, t), minimum)


def ren(old, new, minimum=1):
    rx = re.compile(_word(old))
    return Rule('ren', '%s -> %s' % (old, new),
                lambda t: rx.subn(new, t), minimum)


def members(names, self='self', minimum=1, arrow='->'):
    names = sorted(names, key=len, reverse=True)
    rx = re.compile(r'(?<![\w.>:])(?<!->)(' + '|'.join(re.escape(n) for n in names) + r')(?![\w])')

    def fn(t):
        return rx.subn(lambda m: '%s%s%s' % (self, arrow, m.group(1)), t)
    return Rule('members', '{%s} -> %s%s' % (','.join(names), self, arrow), fn, minimum)


def refs(names, minimum=1):
    names = sorted(names, key=len, reverse=True)
    rx = re.compile(r'(?<![\w.>])(?<!->)(' + '|'.join(re.escape(n) for n in names) + r')(?![\w])')
    return Rule('refs', '{%s} -> (*x)' % ','.join(names),
                lambda t: rx.subn(lambda m: '(*%s)' % m.group(1), t), minimum)


def _split_args(s):
    args, depth, cur = [], 0, ''
    for ch in s:
        if ch in '([{<' and not (ch == '<' and False):
            if ch != '<':
                depth += 1
            cur += ch
        elif ch in ')]}':
            depth -= 1
            cur += ch
        elif ch == ',' and depth == 0:
            args.append(cur.strip())
            cur = ''
        else:
            cur += ch
    if cur.strip() or args:
        args.append(cur.strip())
    return args


def _rewrite_calls(text, head_rx, build):
    """Find head_rx (a compiled regex that ends just before '('), take the
    balanced argument list and replace the whole by build(match, [args])."""
    out, pos, n = [], 0, 0
    while True:
        m = head_rx.search(text, pos)
        if not m:
            break
        k = m.end()
        while k < len(text) and text[k].isspace():
            k += 1
        if k >= len(text) or text[k] != '(':
            out.append(text[pos:m.end()])
            pos = m.end()
            continue
        end = match_brace(text, k, '(', ')')
        args = _split_args(text[k + 1:end])
        rep = build(m, args)
        if rep is None:
            out.append(text[pos:end + 1])
        else:
            out.append(text[pos:m.start()])
            out.append(rep)
            n += 1
        pos = end + 1
    out.append(text[pos:])
    return ''.join(out), n


def call(obj, method, cfn, addr=True, minimum=1, extra_args=None):
    """obj.method(args) or obj->method(args) -> cfn(&obj | obj, args...).
    obj is a regex for the object expression (e.g. r'self->_lock')."""
    rx = re.compile(r'(?<![\w>.])(' + obj + r')\s*(\.|->)\s*' + re.escape(method) + r'(?![\w])')

    def build(m, args):
        o = m.group(1)
        first = ('&' + o) if (addr and m.group(2) == '.') else o
        a = [first] + [x for x in args if x != ''] + list(extra_args or [])
        return '%s(%s)' % (cfn, ', '.join(a))

    def fn(t):
        # iterate to a fixed point so nested uses are handled
        total = 0
        while True:
            t, n = _rewrite_calls(t, rx, build)
            total += n
            if n == 0:
                return t, total
    return Rule('call', '%s.%s(..) -> %s(..)' % (obj, method, cfn), fn, minimum)


def fcall(name, cfn, minimum=1, build=None):
    """free call name(args) -> cfn(args) with optional argument rebuild."""
    rx = re.compile(_word(name))

    def b(m, args):
        if build:
            return build(args)
        return '%s(%s)' % (cfn, ', '.join(args))
    return Rule('fcall', '%s(..) -> %s(..)' % (name, cfn),
                lambda t: _rewrite_calls(t, rx, b), minimum)


def index(obj, fn_name, minimum=1):
    """obj[expr] -> fn_name(obj, expr); obj is a regex."""
    rx = re.compile(r'(?<![\w>.])(' + obj + r')\s*\[')

    def fn(t):
        total = 0
        while True:
            m = rx.search(t)
            if not m:
                return t, total
            k = m.end() - 1
            end = match_brace(t, k, '[', ']')
            t = t[:m.start()] + '%s(%s, %s)' % (fn_name, m.group(1), t[k + 1:end]) + t[end + 1:]
            total += 1
    return Rule('index', '%s[..] -> %s(.., ..)' % (obj, fn_name), fn, minimum)


def stdfn(cxx, c, minimum=1):
    rx = re.compile(re.escape(cxx) + r'\s*(?=\()')
    return Rule('stdfn', '%s -> %s' % (cxx, c), lambda t: rx.subn(c, t), minimum)


def mkpair(ctor, struct, minimum=1):
    """ctor(a, b) -> (struct S){a, b}; ctor e.g. 'std::make_pair'."""
    rx = re.compile(_word(ctor))

    def b(m, args):
        return '(%s){%s}' % (struct, ', '.join(args))
    return Rule('mkpair', '%s(..) -> (%s){..}' % (ctor, struct),
                lambda t: _rewrite_calls(t, rx, b), minimum)


def casts(minimum=0):
    rx = re.compile(r'\b(?:static_cast|reinterpret_cast|const_cast)\s*<')

    def fn(t):
        total = 0
        while True:
            m = rx.search(t)
            if not m:
                break
            k = m.end() - 1
            # match angle brackets
            depth, j = 0, k
            while j < len(t):
                if t[j] == '<':
                    depth += 1
                elif t[j] == '>':
                    depth -= 1
                    if depth == 0:
                        break
                j += 1
            ty = t[k + 1:j]
            p = j + 1
            while t[p].isspace():
                p += 1
            if t[p] != '(':
                raise LoweringError('cast without (')
            end = match_brace(t, p, '(', ')')
            t = t[:m.start()] + '((%s)(%s))' % (ty, t[p + 1:end]) + t[end + 1:]
            total += 1
        t, n2 = re.subn(r'\bnullptr\b', '0', t)
        return t, total + n2
    return Rule('casts', 'C++ casts / nullptr -> C', fn, minimum)


def drop(exact, minimum=1):
    def fn(t):
        n = t.count(exact)
        return t.replace(exact, ''), n
    return Rule('drop', 'remove %r' % exact, fn, minimum)


def dropcall(name, minimum=1):
    """remove a whole statement `name(...);` (logging etc.)."""
    rx = re.compile(_word(name))

    def fn(t):
        total = 0
        pos = 0
        while True:
            m = rx.search(t, pos)
            if not m:
                return t, total
            k = m.end()
            while k < len(t) and t[k].isspace():
                k += 1
            if k >= len(t) or t[k] != '(':
                pos = m.end()
                continue
            end = match_brace(t, k, '(', ')')
            j = end + 1
            while j < len(t) and t[j].isspace():
                j += 1
            if j < len(t) and t[j] == ';':
                t = t[:m.start()] + t[j + 1:]
                total += 1
                pos = m.start()
            else:
                pos = end
    return Rule('dropcall', 'remove statement %s(...);' % name, fn, minimum)


def rx(pattern, repl, minimum=1, maximum=None, flags=0):
    r = re.compile(pattern, flags)
    return Rule('rx', '/%s/ -> %r' % (pattern, repl),
                lambda t: r.subn(repl, t), minimum, maximum)


def par_for(head_pattern, var_type, minimum=1):
    """galois::do_all(galois::iterate(A, B), [&](T n) { BODY }, ...);
    -> for (T n = A; n < B; ++n) { BODY }
    head_pattern: regex matching the callee name (e.g. r'galois::do_all')."""
    head = re.compile(head_pattern + r'\s*\(')

    def fn(t):
        total = 0
        while True:
            m = head.search(t)
            if not m:
                return t, total
            k = m.end() - 1
            end = match_brace(t, k, '(', ')')
            inner = t[k + 1:end]
            mi = re.match(r'\s*galois::iterate\s*\(', inner)
            if not mi:
                raise LoweringError('par_for: no galois::iterate')
            ie = match_brace(inner, mi.end() - 1, '(', ')')
            a, b = _split_args(inner[mi.end():ie])
            rest = inner[ie + 1:]
            ml = re.match(r'\s*,\s*\[[^\]]*\]\s*\(([^)]*)\)\s*(?:mutable\s*)?\{', rest)
            if not ml:
                raise LoweringError('par_for: no lambda')
            lb = ml.end() - 1
            le = match_brace(rest, lb)
            param = ml.group(1).strip()
            pm = re.match(r'(?:const\s+)?(.*?)\s*&?\s*(\w+)$', param)
            var = pm.group(2)
            body = rest[lb:le + 1]
            j = end + 1
            while j < len(t) and t[j].isspace():
                j += 1
            if t[j] != ';':
                raise LoweringError('par_for: call is not a statement')
            rep = 'for (%s %s = %s; %s < %s; ++%s) %s' % (var_type, var, a, var, b, var, body)
            t = t[:m.start()] + rep + t[j + 1:]
            total += 1
    return Rule('par', '%s(iterate(a,b), lambda) -> sequential for' % head_pattern, fn, minimum)


# --------------------------------------------------------------------------
# loop contracts by loop ordinal

_kw = re.compile(r'(?<![\w])(for|while|do)(?![\w])')


def find_loops(body):
    """Return list of (keyword, insert_pos) in textual order; the `while` that
    closes a do-loop is not counted."""
    loops = []
    consumed = set()
    for m in _kw.finditer(body):
        if m.start() in consumed:
            continue
        kw = m.group(1)
        k = m.end()
        while k < len(body) and body[k].isspace():
            k += 1
        if kw == 'do':
            if body[k] != '{':
                raise LoweringError('do-loop without braced body')
            end = match_brace(body, k)
            j = end + 1
            while body[j].isspace():
                j += 1
            mw = re.match(r'while(?![\w])', body[j:])
            if not mw:
                raise LoweringError('do-loop without closing while')
            consumed.add(j)
            loops.append(('do', m.end()))
        else:
            if body[k] != '(':
                raise LoweringError('%s without (' % kw)
            end = match_brace(body, k, '(', ')')
            loops.append((kw, end + 1))
    return loops


def insert_loop_contracts(body, loops_spec):
    """loops_spec: {ordinal(1-based): contract text}.  Every loop in the body
    must have a contract unless the unit is bounded (caller checks)."""
    found = find_loops(body)
    for o in loops_spec:
        if o < 1 or o > len(found):
            raise LoweringError('loop contract for loop %d but body has %d loops' % (o, len(found)))
    out, pos = [], 0
    for i, (kw, ins) in enumerate(found, 1):
        if i in loops_spec:
            out.append(body[pos:ins])
            out.append('\n' + loops_spec[i].strip() + '\n')
            pos = ins
    out.append(body[pos:])
    return ''.join(out), len(found)


def apply_rules(body, rules, tolerant=False):
    fired = []
    for r in rules:
        body, n = r.apply(body, tolerant)
        fired.append(dict(rule=r.kind, what=r.desc, fired=n))
    return body, fired
