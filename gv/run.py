"""goto-cc / goto-instrument / cbmc driver and result classifier (DESIGN 3.4)."""
import json
import os
import re
import resource
import subprocess
import time

from . import extract, lower
from .unit import build_tu

VERIF = os.path.dirname(os.path.dirname(os.path.abspath(__file__)))
STUBS = os.path.join(VERIF, 'stubs')
IB = os.path.join(STUBS, 'cvc5-intblast')

DEFAULT_CHECKS = ['--bounds-check', '--pointer-check', '--div-by-zero-check',
                  '--signed-overflow-check', '--conversion-check',
                  '--undefined-shift-check', '--pointer-overflow-check']

MEM_LIMIT = 12 * 1024 ** 3


def _limits():
    resource.setrlimit(resource.RLIMIT_AS, (MEM_LIMIT, MEM_LIMIT))


def kill_group(p):
    """cbmc starts the external SMT solver as a child: kill the whole
    process group, or orphaned cvc5 processes keep burning CPU."""
    import signal
    try:
        os.killpg(os.getpgid(p.pid), signal.SIGKILL)
    except Exception:
        try:
            p.kill()
        except Exception:
            pass
    try:
        p.wait(timeout=10)
    except Exception:
        pass


def sh(cmd, timeout, cwd=None, stdout_path=None):
    t0 = time.time()
    f = open(stdout_path, 'w') if stdout_path else None
    p = subprocess.Popen(cmd, stdout=f if f else subprocess.PIPE,
                         stderr=subprocess.PIPE if f else subprocess.STDOUT,
                         cwd=cwd, preexec_fn=_limits, text=True, start_new_session=True)
    try:
        out, err = p.communicate(timeout=timeout)
    except subprocess.TimeoutExpired:
        kill_group(p)
        if f:
            f.close()
        return 'timeout', '', time.time() - t0
    if f:
        f.close()
        return p.returncode, err or '', time.time() - t0
    return p.returncode, out, time.time() - t0


class UnitResult:
    def __init__(self, unit):
        self.unit = unit
        self.status = 'undecided'     # 'ok' | 'violation' | 'undecided'
        self.reason = ''
        self.obligations = []         # dicts: id, cls, status, desc, loc
        self.failed = []
        self.info = {}
        self.wall = 0.0
        self.solver_s = 0.0
        self.cmds = []
        self.trace_inputs = {}
        self.outdir = ''
        self.reach_ok = None

    def counts(self):
        obl = [o for o in self.obligations if o['cls'] != 'vacuity-guard']
        return len(obl), sum(1 for o in obl if o['status'] == 'SUCCESS')


def classify_property(pid, desc):
    fn = pid.split('.')[0]
    if desc == 'gv-reach-end':
        return 'vacuity-guard'
    if fn.startswith('__CPROVER_contracts') or fn.startswith('__CPROVER_'):
        return 'instrumentation'
    if '.postcondition.' in pid:
        return 'postcondition'
    if '.precondition.' in pid:
        return 'callee-precondition'
    if 'loop_invariant_base' in pid:
        return 'loop-invariant-base'
    if 'loop_invariant_step' in pid:
        return 'loop-invariant-step'
    if 'loop_decreases' in pid or 'decreases' in pid:
        return 'loop-decreases'
    if 'loop_assigns' in pid or '.assigns.' in pid:
        return 'frame'
    if 'loop_step_unwinding' in pid:
        return 'loop-step-unwinding'
    if '.unwind.' in pid:
        return 'unwinding-assertion'
    if '.assertion.' in pid:
        return 'assertion'
    if re.search(r'\.(single_top_level_call|no_alloc_dealloc_in_requires|no_alloc_dealloc_in_ensures|no_recursive_call)\.', pid):
        return 'contract-wellformedness'
    return 'safety'


def compile_and_instrument(u, registry, tu_path, outdir, tag, defs, r=None, loop_contracts=True):
    a, b = os.path.join(outdir, 'a%s.gb' % tag), os.path.join(outdir, 'b%s.gb' % tag)
    cmd = ['goto-cc', '--function', 'gv_h', '-I', STUBS, '-DGV_CBMC'] + \
          ['-D' + d for d in list(u.defines) + defs] + [tu_path, '-o', a]
    if r is not None:
        r.cmds.append(' '.join(cmd))
    rc, out, _ = sh(cmd, 120)
    if rc != 0:
        return None, 'goto-cc failed (lowered text is not C): ' + out[-1500:]
    if not u.dfcc:
        return a, ''
    cmd = ['goto-instrument', '--dfcc', 'gv_h']
    if u.kind in ('contract',) or (u.kind == 'bounded' and u.contract and u.src):
        cmd += ['--enforce-contract', u.fn]
    rc, symtab, _ = sh(['goto-instrument', '--show-symbol-table', a], 120)
    for nm in u.uses:
        fn = registry[nm].fn
        # a callee that is declared but never called is not in the goto model
        if re.search(r'^Symbol\.+: %s$' % re.escape(fn), symtab, re.M):
            cmd += ['--replace-call-with-contract', fn]
    if u.kind != 'bounded' and loop_contracts:
        cmd += ['--apply-loop-contracts']
    cmd += [a, b]
    if r is not None:
        r.cmds.append(' '.join(cmd))
    rc, out, _ = sh(cmd, 300)
    with open(os.path.join(outdir, 'instrument%s.log' % tag), 'w') as f:
        f.write(out)
    if rc != 0:
        return None, 'goto-instrument failed: ' + out[-1500:]
    return b, ''


def reach_check(u, registry, tu_path, outdir, unwound=False):
    """Vacuity guard: in a binary built with -DGV_REACH the harness ends in
    assert(0); it must be FAILURE (= reachable).  Always on the SAT back end
    (finding a model is what SAT is good at), optionally under the unit's
    concrete witness."""
    if u.reach_unwind and not unwound:
        unwound = 'reach'
    b, err = compile_and_instrument(u, registry, tu_path, outdir, '_reach', ['GV_REACH'], loop_contracts=not unwound)
    if b is None:
        return None, 'reach binary: ' + err
    rc, out, _ = sh(['cbmc', b, '--show-properties', '--json-ui'], 120)
    pid = None
    try:
        for item in json.loads(out):
            for p in item.get('properties', []):
                if p.get('description') == 'gv-reach-end':
                    pid = p['name']
    except Exception as e:
        return None, 'reach: cannot list properties: %s' % e
    if pid is None:
        return None, 'reach: harness has no gv-reach-end assertion'
    cmd = ['cbmc', b, '--property', pid]     # plain output: a trace over 2 MB objects in JSON is hundreds of MB
    if u.kind == 'bounded' and u.unwind is not None:
        cmd += ['--unwind', str(u.unwind)]
    if unwound:
        cmd += ['--unwind', str(u.reach_unwind if unwound == 'reach' else u.fallback_unwind)]
    cmd += [f for f in u.flags if f.startswith('--object-bits') or f.startswith('--unwindset')]
    if (u.reach_backend or u.backend) == 'smt':
        cmd += ['--cvc5']
    rc, out, dt = sh(cmd, u.reach_timeout)
    if rc == 'timeout':
        return None, 'reach: search for a witness timed out after %ds' % u.reach_timeout
    m = re.search(r'^\[%s\].*: (SUCCESS|FAILURE)\s*$' % re.escape(pid), out, re.M)
    if m:
        return m.group(1) == 'FAILURE', ''
    return None, 'reach: property not in result'


def parse_cbmc_json(path):
    """-> (results list or None, message text).  Handles both the normal
    shape ({'result': [...]}) and the --stop-on-fail shape (the failed
    property as a top-level item)."""
    with open(path) as f:
        data = json.load(f)
    results, msgs, status = None, [], None
    single = []
    for item in data:
        if 'result' in item:
            results = item['result']
        if 'messageText' in item:
            msgs.append(item['messageText'])
        if 'property' in item and 'status' in item:
            item = dict(item)
            item['status'] = {'failed': 'FAILURE', 'success': 'SUCCESS'}.get(str(item['status']).lower(), str(item['status']).upper())
            single.append(item)
        if 'cProverStatus' in item:
            status = item['cProverStatus']
    if results is None and single:
        results = single
    if results is None and status == 'success':
        results = []
    return results, '\n'.join(msgs), status


def portfolio(runs, outdir, timeout):
    """Start every run; return (name, results, messages, why) of the first
    conclusive one: a run with a FAILURE (model found) or a run that decided
    every property.  The sat-refuter run is only conclusive when it fails or
    when it proves everything (then its result list is empty: success)."""
    procs = []
    for nm, cmd in runs:
        jp = os.path.join(outdir, 'cbmc-%s.json' % nm)
        f = open(jp, 'w')
        p = subprocess.Popen(cmd, stdout=f, stderr=subprocess.DEVNULL, preexec_fn=_limits, start_new_session=True)
        procs.append([nm, p, jp, f])
    t0 = time.time()
    done = {}
    why = []
    try:
        while time.time() - t0 < timeout and len(done) < len(procs):
            for ent in procs:
                nm, p, jp, f = ent
                if nm in done or p.poll() is None:
                    continue
                f.close()
                done[nm] = True
                try:
                    results, text, status = parse_cbmc_json(jp)
                except Exception as e:
                    why.append('%s: unreadable output (rc=%s) %s' % (nm, p.returncode, e))
                    continue
                if results is None:
                    why.append('%s: no results (rc=%s): %s' % (nm, p.returncode, text[-800:]))
                    continue
                if nm.startswith('sat-refuter'):
                    if any(x['status'] == 'FAILURE' for x in results):
                        return nm, results, text, ''
                    if status == 'success':
                        # everything proved by SAT as well; but it reports no
                        # per-property list in this mode: let the main run
                        # finish if it is about to, else accept
                        continue
                    why.append('sat-refuter: inconclusive')
                    continue
                return nm, results, text, ''
            time.sleep(0.05)
    finally:
        for nm, p, jp, f in procs:
            if p.poll() is None:
                kill_group(p)
            try:
                f.close()
            except Exception:
                pass
    if len(done) < len(procs) and not why:
        return None, None, '', 'solver timeout after %ds (undecided, not a violation)' % timeout
    if len(done) < len(procs):
        why.append('timeout after %ds' % timeout)
    return None, None, '', '; '.join(why) or 'no conclusive run'


def run_unit(u, registry, outroot):
    r = UnitResult(u)
    t0 = time.time()
    outdir = os.path.join(outroot, u.name)
    os.makedirs(outdir, exist_ok=True)
    r.outdir = outdir
    try:
        tu, info = build_tu(u, registry)
    except lower.LoweringError as e:
        # the function no longer has the shape the unit was written for:
        # retry with the must-fire discipline off; loops whose contracts no
        # longer fit are unwound completely if the unit states a bound
        try:
            tu, info = build_tu(u, registry, tolerant=True)
            info['strict_lowering_error'] = str(e)
            if info.get('loops_unwound') and u.fallback_unwind is None:
                raise lower.LoweringError('%s (and the unit has no complete unwinding bound for changed loops)' % e)
        except (extract.ExtractionError, lower.LoweringError, FileNotFoundError, KeyError) as e2:
            r.reason = 'extraction/lowering broke: %s' % e2
            r.wall = time.time() - t0
            return r
    except (extract.ExtractionError, FileNotFoundError, KeyError) as e:
        r.reason = 'extraction/lowering broke: %s' % e
        r.wall = time.time() - t0
        return r
    r.info = info
    tu_path = os.path.join(outdir, 'tu.c')
    with open(tu_path, 'w') as f:
        f.write(tu)
    if 'cxx_body' in info:
        with open(os.path.join(outdir, 'extracted.cxx'), 'w') as f:
            f.write(info['cxx_body'])
    unwound = bool(info.get('loops_unwound'))
    b, err = compile_and_instrument(u, registry, tu_path, outdir, '', [], r, loop_contracts=not unwound)
    if b is None:
        r.reason = err
        r.wall = time.time() - t0
        return r
    checks = [c for c in DEFAULT_CHECKS if c not in u.no_flags]
    base = ['cbmc', b] + checks + list(u.flags)
    if u.kind == 'bounded' and u.unwind is not None:
        base += ['--unwind', str(u.unwind)] + (['--no-unwinding-assertions'] if u.partial else ['--unwinding-assertions'])
    if unwound:
        base += ['--unwind', str(u.fallback_unwind), '--unwinding-assertions']
    runs = []
    if u.backend == 'ib':
        # portfolio: int-blasting proves (UNSAT) what bit-blasting cannot, but
        # is poor at finding models; the SAT back end is the opposite.  Both
        # are sound and complete decision procedures for the same formula, so
        # whichever answers first is taken.
        runs.append(('cvc5-intblast', base + ['--cvc5', '--external-smt2-solver', IB, '--trace', '--json-ui']))
        runs.append(('sat-refuter', base + ['--stop-on-fail', '--trace', '--json-ui']))
        if u.small or (u.harness and 'GV_SMALL(' in u.harness):
            bs, err = compile_and_instrument(u, registry, tu_path, outdir, '_small', ['GV_SMALLDOM'])
            if bs is not None:
                runs.append(('sat-refuter-small', ['cbmc', bs] + checks + list(u.flags) + ['--stop-on-fail', '--trace', '--json-ui']))
    elif u.backend == 'smt':
        # cvc5 on the bit-vector + array formula (no int-blasting): much
        # smaller than CBMC's propositional array encoding for symbolic-size
        # arrays
        runs.append(('cvc5-bv', base + ['--cvc5', '--trace', '--json-ui']))
    else:
        runs.append(('sat', base + ['--trace', '--json-ui']))
    for nm, c in runs:
        r.cmds.append(' '.join(c))
    ts = time.time()
    winner, results, alltext, why = portfolio(runs, outdir, u.timeout)
    r.solver_s = time.time() - ts
    r.wall = time.time() - t0
    r.info['decided_by'] = winner
    if results is None:
        r.reason = why
        return r
    with open(os.path.join(outdir, 'cbmc.messages'), 'w') as f:
        f.write(alltext)
    if re.search(r'ignoring (forall|exists|quantif)', alltext):
        r.reason = 'solver ignored a quantifier (result not trusted)'
        return r
    reach_seen = False
    for p in results:
        pid, st, desc = p['property'], p['status'], p.get('description', '')
        cls = classify_property(pid, desc)
        loc = p.get('sourceLocation', {})
        o = dict(id=pid, cls=cls, status=st, desc=desc,
                 loc='%s:%s' % (loc.get('function', ''), loc.get('line', '')))
        if cls == 'vacuity-guard':
            reach_seen = True
            r.reach_ok = (st == 'FAILURE')
            r.obligations.append(o)
            continue
        r.obligations.append(o)
        if st == 'FAILURE':
            o['trace'] = p.get('trace', [])
            r.failed.append(o)
        elif st != 'SUCCESS':
            r.reason = 'obligation %s has status %s' % (pid, st)
    # ---- vacuity guards -------------------------------------------------
    n_obl, n_ok = r.counts()
    if r.failed:
        r.status = 'violation'
        r.trace_inputs = trace_inputs(r.failed[0].get('trace', []))
        return r
    if r.reason:
        return r
    if n_obl == 0:
        r.reason = 'zero obligations generated (vacuous)'
        return r
    if u.reach:
        ok, err = reach_check(u, registry, tu_path, outdir, unwound)
        r.reach_ok = ok
        r.wall = time.time() - t0
        if ok is None:
            r.reason = 'vacuity guard undecided: ' + err
            return r
        if not ok:
            r.reason = 'vacuity guard: end of harness unreachable (contradictory requires / invariant / stub assumption)'
            return r
    if u.kind == 'contract':
        n_ens = len(re.findall(r'__CPROVER_ensures', u.contract))
        n_post = sum(1 for o in r.obligations if o['cls'] == 'postcondition' and o['id'].startswith(u.fn + '.'))
        if n_post < n_ens:
            r.reason = 'contract has %d ensures clauses but only %d postcondition obligations were generated' % (n_ens, n_post)
            return r
        if u.loops and not unwound:
            n_step = sum(1 for o in r.obligations if o['cls'] == 'loop-invariant-step')
            if n_step < len(u.loops):
                r.reason = 'loop contracts dropped: %d loops, %d invariant-step obligations' % (len(u.loops), n_step)
                return r
    for nm in u.uses:
        pass
    r.status = 'ok'
    return r


def trace_inputs(trace):
    """Values the counterexample gives to the harness locals (function gv_h)
    and to ghost globals (names starting with g_ / gk etc. declared in the
    prelude show up with an empty function).  Instrumentation variables are
    dropped."""
    vals = {}
    for st in trace:
        if st.get('stepType') != 'assignment':
            continue
        lhs = st.get('lhs', '')
        v = st.get('value', {})
        fn = st.get('sourceLocation', {}).get('function', '')
        data = v.get('data')
        if data is None or (fn not in ('gv_h', '') and not fn.startswith('gv_any_')):      # gv_any_*: input generators called by a harness
            continue
        if lhs.startswith('__') or 'write_set' in lhs or lhs.endswith('_ctx') or lhs.endswith('_wrapper') \
                or lhs in ('set', 'allow_allocate', 'allow_deallocate', 'contract_assigns_size', 'contract_frees_size'):
            continue
        vals[lhs] = data
    return vals
