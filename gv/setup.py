"""MANIFEST.setup_cmd: offline sanity check of the tool chain; nothing to build."""
import shutil
import subprocess
import sys

need = ['cbmc', 'goto-cc', 'goto-instrument', 'cvc5', 'g++', 'python3']
bad = [t for t in need if shutil.which(t) is None]
if bad:
    print('missing tools: %s' % bad)
    sys.exit(1)
v = subprocess.run(['cbmc', '--version'], capture_output=True, text=True).stdout.strip()
print('cbmc', v)
print('cvc5', subprocess.run(['cvc5', '--version'], capture_output=True, text=True).stdout.splitlines()[0])
sys.exit(0)
